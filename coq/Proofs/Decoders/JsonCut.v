(* json_max_fields_size (decoder/json.go cutFieldsBySize as repaired by ed38629): the cut never slices
   out of range, shortens exactly the named string to the longest prefix of its escaped text that fits
   the limit and splits no escape sequence, and touches nothing else. *)
From Verif Require Import Base.Sx Base.GoSem Model.Decoders.Common Model.Decoders.JsonCut Proofs.Decoders.Common.
From Coq Require Import Lia ZifyBool Permutation Sorted.

(* ---- valid escaped content: induction principle following esc_valid's own recursion ------------- *)
Definition ordinary (c : byte) : Prop :=
  beq c QUOTE = false /\ (c <? 32)%N = false /\ beq c BSLASH = false.

Lemma hex_ordinary h : is_hex h = true -> ordinary h.
Proof. intros H. unfold ordinary, is_hex, beq, QUOTE, BSLASH in *. lia. Qed.

Lemma beq_eq a b : beq a b = true -> a = b.
Proof. apply N.eqb_eq. Qed.

Lemma esc_valid_ord c r : ordinary c -> esc_valid (c :: r) = esc_valid r.
Proof. intros (H1 & H2 & H3). cbn [esc_valid]. rewrite H1, H2, H3. reflexivity. Qed.

Lemma esc_valid_simple e r :
  beq e LOWER_U = false -> esc_valid (BSLASH :: e :: r) = is_simple_escape e && esc_valid r.
Proof. intros H. cbn [esc_valid]. rewrite H. reflexivity. Qed.

Lemma esc_valid_uni h1 h2 h3 h4 r :
  esc_valid (BSLASH :: LOWER_U :: h1 :: h2 :: h3 :: h4 :: r) =
  is_hex h1 && is_hex h2 && is_hex h3 && is_hex h4 && esc_valid r.
Proof. reflexivity. Qed.

Lemma esc_valid_induction (P : bytes -> Prop)
  (Hnil : P [])
  (Hord : forall c r, ordinary c -> esc_valid r = true -> P r -> P (c :: r))
  (Hesc : forall e r, beq e LOWER_U = false -> is_simple_escape e = true -> esc_valid r = true -> P r ->
                      P (BSLASH :: e :: r))
  (Huni : forall h1 h2 h3 h4 r, is_hex h1 = true -> is_hex h2 = true -> is_hex h3 = true -> is_hex h4 = true ->
                                esc_valid r = true -> P r -> P (BSLASH :: LOWER_U :: h1 :: h2 :: h3 :: h4 :: r)) :
  forall l, esc_valid l = true -> P l.
Proof.
  assert (G : forall n l, (length l <= n)%nat -> esc_valid l = true -> P l).
  { induction n as [|n IH]; intros l Hn Hv.
    - destruct l; [exact Hnil|cbn [length] in Hn; lia].
    - destruct l as [|c r]; [exact Hnil|]. cbn [length] in Hn. cbn [esc_valid] in Hv.
      destruct (beq c QUOTE) eqn:Eq; [discriminate|].
      destruct (c <? 32)%N eqn:Ec; [discriminate|].
      destruct (beq c BSLASH) eqn:Eb.
      + apply beq_eq in Eb. subst c. destruct r as [|e r1]; [discriminate|]. cbn [length] in Hn.
        destruct (beq e LOWER_U) eqn:Eu.
        * apply beq_eq in Eu. subst e.
          destruct r1 as [|h1 [|h2 [|h3 [|h4 r2]]]]; try discriminate. cbn [length] in Hn.
          apply andb_prop in Hv. destruct Hv as [Hv Hr]. apply andb_prop in Hv. destruct Hv as [Hv H4].
          apply andb_prop in Hv. destruct Hv as [Hv H3]. apply andb_prop in Hv. destruct Hv as [H1 H2].
          apply Huni; try assumption. apply IH; [lia|assumption].
        * apply andb_prop in Hv. destruct Hv as [Hs Hr]. apply Hesc; try assumption. apply IH; [lia|assumption].
      + apply Hord; [repeat split; assumption|assumption|]. apply IH; [lia|assumption]. }
  intros l. apply (G (length l)). lia.
Qed.

(* a prefix that ends inside an escape sequence is not valid escaped content *)
Lemma esc_valid_lone_bslash : esc_valid [BSLASH] = false.
Proof. reflexivity. Qed.

Lemma esc_valid_cut_uni h1 h2 h3 h4 r k :
  (1 <= k <= 5)%nat -> esc_valid (firstn k (BSLASH :: LOWER_U :: h1 :: h2 :: h3 :: h4 :: r)) = false.
Proof.
  intros H. destruct k as [|[|[|[|[|[|k]]]]]]; try lia; reflexivity.
Qed.

(* ---- len(v.Raw) - 2: the scan finds the closing quote of a valid string --------------------------- *)
Lemma json_raw_len_valid raw : esc_valid raw = true ->
  forall rest i, json_raw_len (raw ++ QUOTE :: rest) i = Some (i + len raw).
Proof.
  intros Hv. pattern raw. revert raw Hv. apply esc_valid_induction.
  - intros rest i. cbn. f_equal. change (len (@nil byte)) with 0. lia.
  - intros c r (H1 & H2 & H3) _ IH rest i. cbn [app json_raw_len]. rewrite H1, H3.
    rewrite IH, len_cons. f_equal. lia.
  - intros e r _ _ _ IH rest i. cbn [app json_raw_len]. change (beq BSLASH QUOTE) with false.
    change (beq BSLASH BSLASH) with true. cbn match. rewrite IH, !len_cons. f_equal. lia.
  - intros h1 h2 h3 h4 r H1 H2 H3 H4 _ IH rest i.
    apply hex_ordinary in H1, H2, H3, H4.
    destruct H1 as (A1 & _ & B1), H2 as (A2 & _ & B2), H3 as (A3 & _ & B3), H4 as (A4 & _ & B4).
    cbn [app json_raw_len]. change (beq BSLASH QUOTE) with false. change (beq BSLASH BSLASH) with true. cbn match.
    rewrite A1, B1, A2, B2, A3, B3, A4, B4, IH, !len_cons. f_equal. lia.
Qed.

(* whatever the document: a reported length lies inside it and a quote stands there *)
Lemma json_raw_len_bounds : forall l i n, json_raw_len l i = Some n -> i <= n /\ n - i + 1 <= len l.
Proof.
  assert (G : forall m l, (length l <= m)%nat -> forall i n, json_raw_len l i = Some n -> i <= n /\ n - i + 1 <= len l).
  { induction m as [|m IH]; intros l Hm i n H.
    - destruct l; [discriminate|cbn [length] in Hm; lia].
    - destruct l as [|c r]; [discriminate|]. cbn [length] in Hm. cbn [json_raw_len] in H. rewrite len_cons.
      pose proof (len_nonneg r). destruct (beq c QUOTE).
      + injection H as <-. lia.
      + destruct (beq c BSLASH).
        * destruct r as [|e r']; [discriminate|]. cbn [length] in Hm. rewrite len_cons.
          apply IH in H; [|lia]. lia.
        * apply IH in H; [|lia]. lia. }
  intros l. apply (G (length l)). lia.
Qed.

(* ---- jsonCutKeep ----------------------------------------------------------------------------------- *)
(* for ANY content (valid or not): no index out of range, and the result lies between i and limit *)
Lemma json_cut_keep_from_total : forall rest i limit,
  i <= limit <= i + len rest -> exists k, json_cut_keep_from rest i limit = Ok k /\ i <= k <= limit.
Proof.
  assert (G : forall m rest, (length rest <= m)%nat -> forall i limit,
    i <= limit <= i + len rest -> exists k, json_cut_keep_from rest i limit = Ok k /\ i <= k <= limit).
  { induction m as [|m IH]; intros rest Hm i limit H.
    - destruct rest; [|cbn [length] in Hm; lia]. change (len (@nil byte)) with 0 in H.
      exists limit. cbn [json_cut_keep_from]. unfold json_keep_end. replace (limit <=? i) with true by lia. split; [reflexivity|lia].
    - destruct rest as [|c r].
      { change (len (@nil byte)) with 0 in H.
        exists limit. cbn [json_cut_keep_from]. unfold json_keep_end. replace (limit <=? i) with true by lia. split; [reflexivity|lia]. }
      cbn [length] in Hm. rewrite len_cons in H. pose proof (len_nonneg r) as Lr. cbn [json_cut_keep_from].
      destruct (limit <=? i) eqn:E0; [exists limit; split; [reflexivity|lia]|].
      destruct (negb (beq c BSLASH)).
      { destruct (IH r ltac:(lia) (i + 1) limit ltac:(lia)) as (k & Ek & Hk). exists k. split; [exact Ek|lia]. }
      destruct r as [|u r1].
      { change (len (@nil byte)) with 0 in H. replace (limit <? i + 2) with true by lia. exists i. split; [reflexivity|lia]. }
      cbn [length] in Hm. rewrite len_cons in H. pose proof (len_nonneg r1) as Lr1.
      destruct (beq u LOWER_U).
      + destruct (limit <? i + 6) eqn:E6; [exists i; split; [reflexivity|lia]|].
        destruct r1 as [|x1 [|x2 [|x3 [|x4 r2]]]]; try (rewrite ?len_cons in H; change (len (@nil byte)) with 0 in H; lia).
        cbn [length] in Hm. rewrite !len_cons in H.
        destruct (IH r2 ltac:(lia) (i + 6) limit ltac:(lia)) as (k & Ek & Hk). exists k. split; [exact Ek|lia].
      + destruct (limit <? i + 2) eqn:E2; [exists i; split; [reflexivity|lia]|].
        destruct (IH r1 ltac:(lia) (i + 2) limit ltac:(lia)) as (k & Ek & Hk). exists k. split; [exact Ek|lia]. }
  intros rest. apply (G (length rest)). lia.
Qed.

Lemma json_cut_keep_total content limit : 0 <= limit ->
  exists k, json_cut_keep content limit = Ok k /\ 0 <= k <= limit /\ k <= len content.
Proof.
  intros Hl. unfold json_cut_keep. pose proof (len_nonneg content).
  destruct (len content <=? limit) eqn:E; [exists (len content); split; [reflexivity|lia]|].
  destruct (json_cut_keep_from_total content 0 limit ltac:(lia)) as (k & Ek & Hk).
  exists k. split; [exact Ek|lia].
Qed.

(* for valid escaped content: the loop stops at the last escape-sequence boundary that fits.
   m = limit - i is what is left of the limit at rest = content[i:] *)
Lemma json_cut_keep_from_valid raw : esc_valid raw = true ->
  forall i limit, i <= limit < i + len raw ->
  exists k : nat,
    json_cut_keep_from raw i limit = Ok (i + Z.of_nat k) /\
    Z.of_nat k <= limit - i /\ limit - i - 6 < Z.of_nat k /\
    esc_valid (firstn k raw) = true /\
    (forall k' : nat, Z.of_nat k < Z.of_nat k' <= limit - i -> esc_valid (firstn k' raw) = false).
Proof.
  intros Hv. pattern raw. revert raw Hv. apply esc_valid_induction.
  - intros i limit H. change (len (@nil byte)) with 0 in H. lia.
  - intros c r Hc _ IH i limit H. rewrite len_cons in H. cbn [json_cut_keep_from].
    destruct (limit <=? i) eqn:E0.
    { exists 0%nat. split; [f_equal; lia|]. repeat split; try lia. all: intros k' Hk'; lia. }
    destruct Hc as (H1 & H2 & H3). rewrite H3. cbn [negb].
    destruct (IH (i + 1) limit ltac:(lia)) as (k & Ek & Hk1 & Hk2 & Hk3 & Hk4).
    exists (S k). split; [rewrite Ek; f_equal; lia|]. split; [lia|]. split; [lia|]. split.
    + cbn [firstn]. rewrite esc_valid_ord by (repeat split; assumption). exact Hk3.
    + intros k' Hk'. destruct k' as [|k']; [lia|]. cbn [firstn]. rewrite esc_valid_ord by (repeat split; assumption).
      apply Hk4. lia.
  - intros e r He Hs _ IH i limit H. rewrite !len_cons in H. cbn [json_cut_keep_from].
    destruct (limit <=? i) eqn:E0.
    { exists 0%nat. split; [f_equal; lia|]. repeat split; try lia. all: intros k' Hk'; lia. }
    change (beq BSLASH BSLASH) with true. cbn [negb]. rewrite He.
    destruct (limit <? i + 2) eqn:E2.
    { exists 0%nat. split; [f_equal; lia|]. repeat split; try lia.
      all: intros k' Hk'; assert (k' = 1%nat) by lia; subst k'; reflexivity. }
    destruct (IH (i + 2) limit ltac:(lia)) as (k & Ek & Hk1 & Hk2 & Hk3 & Hk4).
    exists (S (S k)). split; [rewrite Ek; f_equal; lia|]. split; [lia|]. split; [lia|]. split.
    + cbn [firstn]. rewrite esc_valid_simple, Hs by assumption. exact Hk3.
    + intros k' Hk'. destruct k' as [|[|k']]; [lia|lia|]. cbn [firstn]. rewrite esc_valid_simple, Hs by assumption.
      apply Hk4. lia.
  - intros h1 h2 h3 h4 r H1 H2 H3 H4 _ IH i limit H. rewrite !len_cons in H. cbn [json_cut_keep_from].
    destruct (limit <=? i) eqn:E0.
    { exists 0%nat. split; [f_equal; lia|]. repeat split; try lia. all: intros k' Hk'; lia. }
    change (beq BSLASH BSLASH) with true. cbn [negb]. change (beq LOWER_U LOWER_U) with true. cbn match.
    destruct (limit <? i + 6) eqn:E6.
    { exists 0%nat. split; [f_equal; lia|]. repeat split; try lia.
      all: intros k' Hk'; apply esc_valid_cut_uni; lia. }
    destruct (IH (i + 6) limit ltac:(lia)) as (k & Ek & Hk1 & Hk2 & Hk3 & Hk4).
    exists (6 + k)%nat. split; [rewrite Ek; f_equal; lia|]. split; [lia|]. split; [lia|]. split.
    + cbn [firstn plus]. rewrite esc_valid_uni, H1, H2, H3, H4. exact Hk3.
    + intros k' Hk'. destruct k' as [|[|[|[|[|[|k']]]]]]; try lia. cbn [firstn].
      rewrite esc_valid_uni, H1, H2, H3, H4. apply Hk4. lia.
Qed.

(* ---- the document  pre "raw" post ------------------------------------------------------------------ *)
Lemma skipn_len_app {A} (a b : list A) : skipn (Z.to_nat (len a)) (a ++ b) = b.
Proof. unfold len. rewrite Nat2Z.id, skipn_app, Nat.sub_diag, skipn_all. reflexivity. Qed.

Lemma json_raw_len_at_doc pre raw post : esc_valid raw = true ->
  json_raw_len_at (pre ++ QUOTE :: raw ++ QUOTE :: post) (len pre) = Some (len raw).
Proof.
  intros Hv. unfold json_raw_len_at. rewrite len_app, len_cons, skipn_len_app.
  pose proof (len_nonneg pre). pose proof (len_nonneg (raw ++ QUOTE :: post)).
  replace ((0 <=? len pre) && (len pre <? len pre + (len (raw ++ QUOTE :: post) + 1))) with true by lia.
  change (beq QUOTE QUOTE) with true. cbn match. rewrite json_raw_len_valid by exact Hv. f_equal; lia.
Qed.

Lemma slice_content {A} (pre : list A) x raw rest :
  slice (pre ++ x :: raw ++ rest) (len pre + 1) (len pre + 1 + len raw) = Ok raw.
Proof.
  replace (pre ++ x :: raw ++ rest) with ((pre ++ [x]) ++ raw ++ rest) by (rewrite <- app_assoc; reflexivity).
  replace (len pre + 1) with (len (pre ++ [x])) by (rewrite len_app; reflexivity).
  apply slice_mid.
Qed.

Lemma bytes_eqb_iff : forall a b, bytes_eqb a b = true <-> a = b.
Proof.
  unfold bytes_eqb. induction a as [|x a IH]; intros [|y b]; cbn; try (split; [discriminate|discriminate]); [tauto|].
  rewrite Bool.andb_true_iff, N.eqb_eq, IH. split; [intros [-> ->]; reflexivity|intros H; injection H as -> ->; split; reflexivity].
Qed.

(* the guard of 86e6b5f holds for a string of the document: its quoted text stands at its index *)
Lemma json_raw_at_doc pre raw post :
  json_raw_at (pre ++ QUOTE :: raw ++ QUOTE :: post) (len pre) (QUOTE :: raw ++ [QUOTE]) = Ok true.
Proof.
  unfold json_raw_at.
  replace (pre ++ QUOTE :: raw ++ QUOTE :: post) with (pre ++ (QUOTE :: raw ++ [QUOTE]) ++ post)
    by (cbn [app]; rewrite <- app_assoc; reflexivity).
  pose proof (len_nonneg post).
  replace (len (pre ++ (QUOTE :: raw ++ [QUOTE]) ++ post) <? len pre + len (QUOTE :: raw ++ [QUOTE])) with false
    by (rewrite !len_app; lia).
  rewrite slice_mid. cbn [bind]. f_equal. apply bytes_eqb_iff. reflexivity.
Qed.

(* ... and fails when Raw does not occur at Index: nothing is cut *)
Lemma json_raw_at_false data index raw : 0 <= index -> ~ raw_occurs_at data index raw ->
  json_raw_at data index raw = Ok false.
Proof.
  intros Hi Hn. unfold json_raw_at. destruct (len data <? index + len raw) eqn:E; [reflexivity|].
  pose proof (len_nonneg raw). rewrite slice_ok by lia. cbn [bind]. f_equal.
  destruct (bytes_eqb _ raw) eqn:Eb; [|reflexivity]. exfalso. apply Hn. apply bytes_eqb_iff in Eb.
  exists (firstn (Z.to_nat index) data), (skipn (Z.to_nat (index + len raw - index)) (skipn (Z.to_nat index) data)).
  split.
  - rewrite <- Eb at 1. rewrite firstn_skipn, firstn_skipn. reflexivity.
  - unfold len in *. rewrite firstn_length. lia.
Qed.

Lemma json_cut_at_doc pre raw post (k : nat) : (k <= length raw)%nat ->
  json_cut_at (pre ++ QUOTE :: raw ++ QUOTE :: post) (len pre + Z.of_nat k + 1, len pre + len raw) =
  Ok (pre ++ QUOTE :: firstn k raw ++ QUOTE :: post).
Proof.
  intros Hk. unfold json_cut_at. cbn [fst snd].
  assert (E1 : pre ++ QUOTE :: raw ++ QUOTE :: post = (pre ++ QUOTE :: firstn k raw) ++ (skipn k raw ++ QUOTE :: post)).
  { rewrite <- app_assoc. cbn [app]. f_equal. f_equal. rewrite app_assoc. f_equal. symmetry. apply firstn_skipn. }
  assert (Hl1 : len (firstn k raw) = Z.of_nat k).
  { unfold len. rewrite firstn_length. lia. }
  pose proof (len_nonneg pre).
  rewrite E1 at 1.
  replace (len pre + Z.of_nat k + 1) with (len (pre ++ QUOTE :: firstn k raw)) by (rewrite len_app, len_cons; lia).
  rewrite slice_to_app. cbn [bind].
  replace (pre ++ QUOTE :: raw ++ QUOTE :: post) with ((pre ++ QUOTE :: raw) ++ (QUOTE :: post))
    by (rewrite <- !app_assoc; reflexivity).
  replace (len pre + len raw + 1) with (len (pre ++ QUOTE :: raw)) by (rewrite len_app, len_cons; lia).
  rewrite slice_from_app. cbn [bind]. rewrite <- !app_assoc. reflexivity.
Qed.

(* ---- how much is kept ------------------------------------------------------------------------------ *)
Lemma json_kept_keep raw strlen limit : 0 <= limit -> limit < strlen ->
  json_cut_keep raw limit = Ok (Z.of_nat (json_kept raw strlen limit)).
Proof.
  intros Hl Hs. unfold json_kept. replace (strlen <=? limit) with false by lia.
  destruct (json_cut_keep_total raw limit Hl) as (k & Ek & Hk). rewrite Ek. f_equal. lia.
Qed.

Theorem json_kept_spec : forall raw strlen limit,
  esc_valid raw = true -> 0 <= limit ->
  let k := json_kept raw strlen limit in
  (k <= length raw)%nat /\
  esc_valid (firstn k raw) = true /\
  (strlen <= limit -> k = length raw) /\
  (limit < strlen ->
     Z.of_nat k <= limit /\
     (forall k' : nat, (k < k' <= length raw)%nat -> Z.of_nat k' <= limit -> esc_valid (firstn k' raw) = false) /\
     (limit <= len raw -> limit - 6 < Z.of_nat k) /\
     (limit <= len raw -> esc_valid (firstn (Z.to_nat limit) raw) = true -> Z.of_nat k = limit)).
Proof.
  intros raw strlen limit Hv Hl k. unfold k, json_kept.
  destruct (strlen <=? limit) eqn:Es.
  { rewrite firstn_all. repeat split; try lia; try assumption. }
  unfold json_cut_keep. destruct (len raw <=? limit) eqn:El.
  { unfold len. rewrite Nat2Z.id, firstn_all. unfold len in El.
    repeat split; try lia; try assumption. all: intros; lia. }
  destruct (json_cut_keep_from_valid raw Hv 0 limit ltac:(lia)) as (k0 & Ek & Hk1 & Hk2 & Hk3 & Hk4).
  rewrite Ek. replace (Z.to_nat (0 + Z.of_nat k0)) with k0 by lia. unfold len in El.
  assert (Hmax : forall k' : nat, (k0 < k' <= length raw)%nat -> Z.of_nat k' <= limit -> esc_valid (firstn k' raw) = false).
  { intros k' Hk' Hk'l. apply Hk4. lia. }
  split; [lia|]. split; [exact Hk3|]. split; [lia|]. intros _.
  split; [lia|]. split; [exact Hmax|]. split; [intros _; lia|].
  intros Hlr Hvl. destruct (Z.eq_dec (Z.of_nat k0) limit) as [E|N]; [exact E|].
  rewrite (Hmax (Z.to_nat limit)) in Hvl; [discriminate|unfold len in Hlr; lia|lia].
Qed.

Lemma json_cut_pos_doc pre raw post strlen limit : esc_valid raw = true -> 0 <= limit ->
  json_cut_pos (pre ++ QUOTE :: raw ++ QUOTE :: post) (len pre) strlen limit (QUOTE :: raw ++ [QUOTE]) =
  Ok (if strlen <=? limit then None
      else Some (len pre + Z.of_nat (json_kept raw strlen limit) + 1, len pre + len raw)).
Proof.
  intros Hv Hl. unfold json_cut_pos. destruct (strlen <=? limit) eqn:Es; [reflexivity|].
  rewrite json_raw_at_doc. cbn [bind negb]. rewrite json_raw_len_at_doc by exact Hv.
  replace (len (QUOTE :: raw ++ [QUOTE]) - 2) with (len raw) by (rewrite len_cons, len_app; cbn; lia).
  rewrite Z.eqb_refl. cbn [negb].
  rewrite slice_content. cbn [bind]. rewrite (json_kept_keep raw strlen limit) by lia. reflexivity.
Qed.

(* ---- one path --------------------------------------------------------------------------------------- *)
Theorem json_cut_doc : forall pre raw post strlen limit,
  esc_valid raw = true -> 0 <= limit ->
  json_cut (pre ++ QUOTE :: raw ++ QUOTE :: post) (len pre) strlen limit (QUOTE :: raw ++ [QUOTE]) =
  Ok (pre ++ QUOTE :: firstn (json_kept raw strlen limit) raw ++ QUOTE :: post).
Proof.
  intros pre raw post strlen limit Hv Hl. unfold json_cut. rewrite json_cut_pos_doc by assumption. cbn [bind].
  pose proof (json_kept_spec raw strlen limit Hv Hl) as (Hk & _ & Hfit & _).
  destruct (strlen <=? limit) eqn:Es.
  - rewrite Hfit by lia. rewrite firstn_all. reflexivity.
  - apply json_cut_at_doc. exact Hk.
Qed.

Theorem json_cut_spec : forall pre raw post strlen limit,
  esc_valid raw = true -> 0 <= limit ->
  exists k : nat,
    json_cut (pre ++ QUOTE :: raw ++ QUOTE :: post) (len pre) strlen limit (QUOTE :: raw ++ [QUOTE]) =
      Ok (pre ++ QUOTE :: firstn k raw ++ QUOTE :: post) /\
    (k <= length raw)%nat /\
    esc_valid (firstn k raw) = true /\
    (strlen <= limit -> k = length raw) /\
    (limit < strlen ->
       Z.of_nat k <= limit /\
       (forall k' : nat, (k < k' <= length raw)%nat -> Z.of_nat k' <= limit -> esc_valid (firstn k' raw) = false) /\
       (limit <= len raw -> limit - 6 < Z.of_nat k) /\
       (limit <= len raw -> esc_valid (firstn (Z.to_nat limit) raw) = true -> Z.of_nat k = limit)).
Proof.
  intros pre raw post strlen limit Hv Hl. exists (json_kept raw strlen limit).
  split; [apply json_cut_doc; assumption|]. apply json_kept_spec; assumption.
Qed.

Corollary json_cut_keeps_framing : forall pre raw post strlen limit,
  esc_valid raw = true -> 0 <= limit ->
  exists out, json_cut (pre ++ QUOTE :: raw ++ QUOTE :: post) (len pre) strlen limit (QUOTE :: raw ++ [QUOTE]) = Ok out /\
              cut_keeps_framing pre raw post out.
Proof.
  intros pre raw post strlen limit Hv Hl. eexists. split; [apply json_cut_doc; assumption|].
  eexists. reflexivity.
Qed.

(* ---- totality: any document, any oracle values that point at a terminated string ------------------ *)
Lemma json_raw_len_at_inv data index n : json_raw_len_at data index = Some n ->
  0 <= index /\ 0 <= n /\ index + n + 2 <= len data.
Proof.
  unfold json_raw_len_at. destruct ((0 <=? index) && (index <? len data)) eqn:E; [|discriminate].
  destruct (skipn (Z.to_nat index) data) as [|q tail] eqn:Es; [discriminate|].
  destruct (beq q QUOTE); [|discriminate]. intros H. apply json_raw_len_bounds in H.
  assert (L : len (q :: tail) = len data - index).
  { rewrite <- Es. unfold len. rewrite skipn_length. unfold len in E. lia. }
  rewrite len_cons in L. lia.
Qed.

(* gjson's Raw, when it stands at Index, is the string that starts there *)
Definition raw_consistent (data : bytes) (index : Z) (raw : bytes) : Prop :=
  json_raw_at data index raw = Ok true -> json_raw_len_at data index = Some (len raw - 2).

Lemma json_raw_at_total data index raw : 0 <= index -> exists b, json_raw_at data index raw = Ok b.
Proof.
  intros Hi. unfold json_raw_at. destruct (len data <? index + len raw) eqn:E; [eexists; reflexivity|].
  pose proof (len_nonneg raw). rewrite slice_ok by lia. eexists. reflexivity.
Qed.

Lemma json_cut_pos_total data index strlen limit raw :
  0 <= limit -> 0 <= index -> raw_consistent data index raw ->
  exists r, json_cut_pos data index strlen limit raw = Ok r /\
            match r with Some (s, e) => 0 <= s <= e + 1 /\ e + 1 <= len data | None => True end.
Proof.
  intros Hl Hi Hr. unfold json_cut_pos. destruct (strlen <=? limit); [exists None; split; [reflexivity|exact I]|].
  destruct (json_raw_at_total data index raw Hi) as [[|] Eb]; rewrite Eb; cbn [bind negb];
    [|exists None; split; [reflexivity|exact I]].
  rewrite (Hr Eb). rewrite Z.eqb_refl. cbn [negb].
  pose proof (json_raw_len_at_inv _ _ _ (Hr Eb)) as (H0 & Hn & Hd).
  step_slice content. destruct (json_cut_keep_total content limit Hl) as (k & Ek & Hk). rewrite Ek. cbn [bind].
  eexists. split; [reflexivity|]. cbn beta iota. lia.
Qed.

Theorem json_cut_total : forall data index strlen limit raw p,
  0 <= limit -> 0 <= index -> raw_consistent data index raw ->
  json_cut data index strlen limit raw <> Panic p.
Proof.
  intros data index strlen limit raw p Hl Hi Hr. unfold json_cut.
  destruct (json_cut_pos_total data index strlen limit raw Hl Hi Hr) as (r & Er & Hb). rewrite Er. cbn [bind].
  destruct r as [[s e]|]; [|discriminate].
  unfold json_cut_at, slice_to, slice_from. cbn [fst snd].
  step_slice a. step_slice b. discriminate.
Qed.

(* ---- 86e6b5f: an answer whose Raw does not occur at Index (gjson: Index unknown) cuts nothing ------- *)
Theorem json_cut_index_unknown : forall data index strlen limit raw,
  0 <= index -> ~ raw_occurs_at data index raw ->
  json_cut data index strlen limit raw = Ok data.
Proof.
  intros data index strlen limit raw Hi Hn. unfold json_cut, json_cut_pos.
  destruct (strlen <=? limit); [reflexivity|]. rewrite json_raw_at_false by assumption. reflexivity.
Qed.

(* ---- several paths ---------------------------------------------------------------------------------- *)
(* the cut positions of one string, one per limit that its unescaped length exceeds *)
Definition field_poss (at_ : Z) (raw : bytes) (strlen : Z) (ls : list Z) : list (Z * Z) :=
  flat_map (fun l => if strlen <=? l then []
                     else [(at_ + Z.of_nat (json_kept raw strlen l) + 1, at_ + len raw)]) ls.

(* the cut positions of the fields in document order *)
Fixpoint jf_poss (at_ : Z) (fs : list jfield) : list (Z * Z) :=
  match fs with
  | [] => []
  | (raw, post, strlen, limit, more) :: r =>
      field_poss at_ raw strlen (limit :: more) ++ jf_poss (at_ + len raw + 2 + len post) r
  end.

Definition pos_of (data : bytes) (x : jfound) : res (option (Z * Z)) :=
  let '(index, strlen, limit, raw) := x in json_cut_pos data index strlen limit raw.
Definition pos_list (data : bytes) (x : jfound) : list (Z * Z) :=
  match pos_of data x with Ok (Some p) => [p] | _ => [] end.

Lemma jf_doc_cons raw post strlen limit more r :
  jf_doc ((raw, post, strlen, limit, more) :: r) = QUOTE :: raw ++ QUOTE :: post ++ jf_doc r.
Proof. reflexivity. Qed.

Lemma jf_cut_cons raw post strlen limit more r :
  jf_cut ((raw, post, strlen, limit, more) :: r) =
  QUOTE :: firstn (json_kept raw strlen (jf_limit limit more)) raw ++ QUOTE :: post ++ jf_cut r.
Proof. reflexivity. Qed.

Lemma jf_ok_inv raw post strlen limit more :
  jf_ok (raw, post, strlen, limit, more) -> esc_valid raw = true /\ Forall (fun l => 0 <= l) (limit :: more).
Proof. unfold jf_ok. intros (Hv & Hl & Hm). split; [exact Hv|constructor; assumption]. Qed.

(* the smallest limit of a string is one of its limits *)
Lemma jf_limit_in limit more : In (jf_limit limit more) (limit :: more).
Proof.
  induction more as [|m more IH]; [left; reflexivity|]. unfold jf_limit in *. cbn [fold_right].
  destruct (Z.min_spec m (fold_right Z.min limit more)) as [[_ ->]|[_ ->]].
  - right. left. reflexivity.
  - destruct IH as [IH|IH]; [left; exact IH|right; right; exact IH].
Qed.

Lemma jf_limit_le limit more l : In l (limit :: more) -> jf_limit limit more <= l.
Proof.
  induction more as [|m more IH]; intros H.
  - destruct H as [->|[]]. unfold jf_limit. cbn. lia.
  - unfold jf_limit in *. cbn [fold_right]. destruct H as [->|[->|H]].
    + specialize (IH (or_introl eq_refl)). lia.
    + lia.
    + specialize (IH (or_intror H)). lia.
Qed.

(* a larger limit keeps at least as much *)
Lemma json_kept_mono raw strlen l1 l2 : esc_valid raw = true -> 0 <= l1 <= l2 ->
  (json_kept raw strlen l1 <= json_kept raw strlen l2)%nat.
Proof.
  intros Hv Hl.
  pose proof (json_kept_spec raw strlen l1 Hv ltac:(lia)) as (A1 & A2 & A3 & A4).
  pose proof (json_kept_spec raw strlen l2 Hv ltac:(lia)) as (B1 & B2 & B3 & B4).
  destruct (Z_le_gt_dec strlen l2) as [H2|H2]; [rewrite (B3 H2); exact A1|].
  destruct (A4 ltac:(lia)) as (A5 & _). destruct (B4 ltac:(lia)) as (_ & B6 & _).
  destruct (le_lt_dec (json_kept raw strlen l1) (json_kept raw strlen l2)) as [H|H]; [exact H|].
  rewrite (B6 (json_kept raw strlen l1)) in A2; [discriminate|lia|lia].
Qed.

(* every position is found on the original document *)
Lemma json_find_field data pre raw post strlen : esc_valid raw = true ->
  data = pre ++ QUOTE :: raw ++ QUOTE :: post ->
  forall ls, Forall (fun l => 0 <= l) ls ->
  (forall x, In x (map (fun l => (len pre, strlen, l, QUOTE :: raw ++ [QUOTE])) ls) -> exists p, pos_of data x = Ok p) /\
  flat_map (pos_list data) (map (fun l => (len pre, strlen, l, QUOTE :: raw ++ [QUOTE])) ls) =
  field_poss (len pre) raw strlen ls.
Proof.
  intros Hv Hd. induction ls as [|l ls IH]; intros Hls; [split; [intros x []|reflexivity]|].
  inversion Hls as [|l' ls' Hl Hr]; subst l' ls'. destruct (IH Hr) as [IH1 IH2].
  assert (E1 : pos_of data (len pre, strlen, l, QUOTE :: raw ++ [QUOTE]) =
               Ok (if strlen <=? l then None
                   else Some (len pre + Z.of_nat (json_kept raw strlen l) + 1, len pre + len raw))).
  { unfold pos_of. rewrite Hd. apply json_cut_pos_doc; assumption. }
  cbn [map flat_map]. split.
  - intros x [<-|Hx]; [eexists; exact E1|apply IH1; exact Hx].
  - rewrite IH2. unfold field_poss. cbn [flat_map]. f_equal. unfold pos_list. rewrite E1.
    destruct (strlen <=? l); reflexivity.
Qed.

Lemma json_find_each : forall fs pre data, data = pre ++ jf_doc fs -> Forall jf_ok fs ->
  (forall x, In x (jf_found (len pre) fs) -> exists p, pos_of data x = Ok p) /\
  flat_map (pos_list data) (jf_found (len pre) fs) = jf_poss (len pre) fs.
Proof.
  induction fs as [|[[[[raw post] strlen] limit] more] r IH]; intros pre data Hd Hok.
  - split; [intros x []|reflexivity].
  - inversion Hok as [|f r' Hf Hr]; subst f r'. apply jf_ok_inv in Hf. destruct Hf as [Hv Hls].
    rewrite jf_doc_cons in Hd.
    destruct (json_find_field data pre raw (post ++ jf_doc r) strlen Hv Hd (limit :: more) Hls) as [F1 F2].
    set (pre' := pre ++ QUOTE :: raw ++ QUOTE :: post).
    assert (Hd' : data = pre' ++ jf_doc r).
    { rewrite Hd. unfold pre'. rewrite <- !app_assoc. cbn [app]. rewrite <- !app_assoc. reflexivity. }
    assert (Hl' : len pre' = len pre + len raw + 2 + len post).
    { unfold pre'. rewrite len_app, len_cons, len_app, len_cons. lia. }
    destruct (IH pre' data Hd' Hr) as [IH1 IH2]. rewrite Hl' in IH1, IH2.
    cbn [jf_found jf_poss]. split.
    + intros x Hx. apply in_app_or in Hx. destruct Hx as [Hx|Hx]; [apply F1; exact Hx|apply IH1; exact Hx].
    + rewrite flat_map_app. f_equal; [exact F2|exact IH2].
Qed.

Lemma json_find_all_ok data : forall found,
  (forall x, In x found -> exists p, pos_of data x = Ok p) ->
  json_find_all data found = Ok (flat_map (pos_list data) found).
Proof.
  induction found as [|[[[index strlen] limit] raw] r IH]; intros H; [reflexivity|].
  destruct (H (index, strlen, limit, raw) (or_introl eq_refl)) as [p Ep].
  cbn [json_find_all flat_map]. unfold pos_list at 1. rewrite Ep. unfold pos_of in Ep. rewrite Ep. cbn [bind].
  rewrite IH by (intros x Hx; apply H; right; exact Hx). cbn [bind]. destruct p; reflexivity.
Qed.

(* answers that find nothing (Raw not at Index, or the string fits its limit) do not matter *)
Definition finds_nothing (data : bytes) (x : jfound) : Prop := pos_of data x = Ok None.

Lemma json_find_all_app data : forall a b,
  json_find_all data (a ++ b) = (pa <- json_find_all data a ;; pb <- json_find_all data b ;; Ok (pa ++ pb)).
Proof.
  induction a as [|[[[index strlen] limit] raw] a IH]; intros b.
  - cbn [app json_find_all bind]. destruct (json_find_all data b); reflexivity.
  - cbn [app json_find_all]. destruct (json_cut_pos data index strlen limit raw) as [p|e|e]; cbn [bind]; try reflexivity.
    rewrite IH. destruct (json_find_all data a) as [pa|e|e]; cbn [bind]; try reflexivity.
    destruct (json_find_all data b) as [pb|e|e]; cbn [bind]; try reflexivity. destruct p; reflexivity.
Qed.

Lemma json_find_all_nothing data : forall junk, Forall (finds_nothing data) junk -> json_find_all data junk = Ok [].
Proof.
  induction junk as [|[[[index strlen] limit] raw] junk IH]; intros H; [reflexivity|].
  inversion H as [|x junk' Hx Hj]; subst x junk'. unfold finds_nothing, pos_of in Hx.
  cbn [json_find_all]. rewrite Hx, (IH Hj). reflexivity.
Qed.

(* sorting: the result is determined by the multiset when equal starts mean equal positions *)
Definition pos_ge (a b : Z * Z) : Prop := fst b <= fst a.
Definition key_inj (l : list (Z * Z)) : Prop := forall x y, In x l -> In y l -> fst x = fst y -> x = y.

Lemma insert_desc_perm p l : Permutation (insert_desc p l) (p :: l).
Proof.
  induction l as [|q r IH]; [reflexivity|]. cbn [insert_desc]. destruct (fst q <? fst p); [reflexivity|].
  rewrite IH. apply perm_swap.
Qed.

Lemma sort_desc_perm l : Permutation (sort_desc l) l.
Proof.
  induction l as [|p r IH]; [reflexivity|]. unfold sort_desc in *. cbn [fold_right].
  rewrite insert_desc_perm. apply perm_skip. exact IH.
Qed.

Lemma insert_desc_sorted p l : StronglySorted pos_ge l -> StronglySorted pos_ge (insert_desc p l).
Proof.
  induction l as [|q r IH]; intros Hs; cbn [insert_desc].
  - constructor; constructor.
  - inversion Hs as [|q' r' Hr Hq]; subst q' r'. destruct (fst q <? fst p) eqn:E.
    + constructor; [exact Hs|]. constructor; [unfold pos_ge; lia|].
      eapply Forall_impl; [|exact Hq]. unfold pos_ge. intros x Hx. lia.
    + constructor; [apply IH; exact Hr|].
      eapply Permutation_Forall; [symmetry; apply insert_desc_perm|].
      constructor; [unfold pos_ge; lia|exact Hq].
Qed.

Lemma sort_desc_sorted l : StronglySorted pos_ge (sort_desc l).
Proof.
  induction l as [|p r IH]; [constructor|]. unfold sort_desc in *. cbn [fold_right].
  apply insert_desc_sorted. exact IH.
Qed.

Lemma key_inj_perm l l' : Permutation l l' -> key_inj l -> key_inj l'.
Proof.
  intros Hp H x y Hx Hy. apply H; eapply Permutation_in; try (symmetry; exact Hp); assumption.
Qed.

Lemma key_inj_tail a l : key_inj (a :: l) -> key_inj l.
Proof. intros H x y Hx Hy. apply H; right; assumption. Qed.

Lemma sorted_unique : forall l1 l2, Permutation l1 l2 ->
  StronglySorted pos_ge l1 -> StronglySorted pos_ge l2 -> key_inj l2 -> l1 = l2.
Proof.
  induction l1 as [|a l1 IH]; intros l2 Hp H1 H2 Hk.
  - apply Permutation_nil in Hp. subst. reflexivity.
  - destruct l2 as [|b l2]; [symmetry in Hp; apply Permutation_nil in Hp; discriminate|].
    inversion H1 as [|a' l1' S1 F1]; subst a' l1'. inversion H2 as [|b' l2' S2 F2]; subst b' l2'.
    assert (Ia : In a (b :: l2)) by (eapply Permutation_in; [exact Hp|left; reflexivity]).
    assert (Ib : In b (a :: l1)) by (eapply Permutation_in; [symmetry; exact Hp|left; reflexivity]).
    assert (E : a = b).
    { apply Hk; [exact Ia|left; reflexivity|].
      destruct Ia as [->|Ia]; [reflexivity|]. destruct Ib as [->|Ib]; [reflexivity|].
      rewrite Forall_forall in F1, F2. specialize (F1 b Ib). specialize (F2 a Ia).
      unfold pos_ge in *. lia. }
    subst b. f_equal.
    apply IH; [eapply Permutation_cons_inv; exact Hp|exact S1|exact S2|eapply key_inj_tail; exact Hk].
Qed.

Lemma sort_desc_congr l l' : Permutation l l' -> key_inj l' -> sort_desc l = sort_desc l'.
Proof.
  intros Hp Hk. apply sorted_unique; [|apply sort_desc_sorted|apply sort_desc_sorted|].
  - rewrite !sort_desc_perm. exact Hp.
  - eapply key_inj_perm; [symmetry; apply sort_desc_perm|exact Hk].
Qed.

Lemma sorted_app (l1 l2 : list (Z * Z)) :
  StronglySorted pos_ge l1 -> StronglySorted pos_ge l2 ->
  (forall x y, In x l1 -> In y l2 -> pos_ge x y) -> StronglySorted pos_ge (l1 ++ l2).
Proof.
  induction l1 as [|a l1 IH]; intros H1 H2 Hc; [exact H2|].
  inversion H1 as [|a' l1' S1 F1]; subst a' l1'. cbn [app]. constructor.
  - apply IH; [exact S1|exact H2|]. intros x y Hx Hy. apply Hc; [right; exact Hx|exact Hy].
  - apply Forall_app. split; [exact F1|]. apply Forall_forall. intros y Hy. apply Hc; [left; reflexivity|exact Hy].
Qed.

(* a group of smaller starts sorts behind a group of larger starts *)
Lemma sort_desc_app a b : (forall x y, In x a -> In y b -> fst x < fst y) -> key_inj (a ++ b) ->
  sort_desc (a ++ b) = sort_desc b ++ sort_desc a.
Proof.
  intros Hc Hk. apply sorted_unique.
  - rewrite !sort_desc_perm. apply Permutation_app_comm.
  - apply sort_desc_sorted.
  - apply sorted_app; try apply sort_desc_sorted. intros x y Hx Hy.
    apply (Permutation_in _ (sort_desc_perm b)) in Hx. apply (Permutation_in _ (sort_desc_perm a)) in Hy.
    specialize (Hc y x Hy Hx). unfold pos_ge. lia.
  - eapply key_inj_perm; [|exact Hk]. rewrite !sort_desc_perm. apply Permutation_app_comm.
Qed.

(* where the positions lie *)
Lemma field_poss_in at_ raw strlen ls p : esc_valid raw = true -> Forall (fun l => 0 <= l) ls ->
  In p (field_poss at_ raw strlen ls) ->
  exists l, In l ls /\ l < strlen /\ p = (at_ + Z.of_nat (json_kept raw strlen l) + 1, at_ + len raw) /\
            at_ < fst p <= at_ + len raw + 1.
Proof.
  intros Hv Hls Hp. unfold field_poss in Hp. apply in_flat_map in Hp. destruct Hp as (l & Hl & Hp).
  destruct (strlen <=? l) eqn:E; [destruct Hp|]. destruct Hp as [<-|[]].
  rewrite Forall_forall in Hls. pose proof (json_kept_spec raw strlen l Hv (Hls l Hl)) as (Hk & _).
  exists l. split; [exact Hl|]. split; [lia|]. split; [reflexivity|]. cbn [fst]. unfold len. lia.
Qed.

Lemma jf_poss_after : forall fs at_, Forall jf_ok fs ->
  Forall (fun p => at_ < fst p /\ at_ <= snd p) (jf_poss at_ fs).
Proof.
  induction fs as [|[[[[raw post] strlen] limit] more] r IH]; intros at_ Hok; [constructor|].
  inversion Hok as [|f r' Hf Hr]; subst f r'. apply jf_ok_inv in Hf. destruct Hf as [Hv Hls].
  cbn [jf_poss]. apply Forall_app. split.
  - apply Forall_forall. intros p Hp. destruct (field_poss_in _ _ _ _ _ Hv Hls Hp) as (l & _ & _ & -> & Hb).
    cbn [fst snd] in *. pose proof (len_nonneg raw). lia.
  - eapply Forall_impl; [|apply IH; exact Hr]. cbn beta. intros p Hp.
    pose proof (len_nonneg raw). pose proof (len_nonneg post). lia.
Qed.

Lemma field_poss_key_inj at_ raw strlen ls : key_inj (field_poss at_ raw strlen ls).
Proof.
  intros x y Hx Hy E. unfold field_poss in *. apply in_flat_map in Hx, Hy.
  destruct Hx as (l1 & _ & Hx), Hy as (l2 & _ & Hy).
  destruct (strlen <=? l1); [destruct Hx|]. destruct (strlen <=? l2); [destruct Hy|].
  destruct Hx as [<-|[]], Hy as [<-|[]]. cbn [fst] in E. f_equal. exact E.
Qed.

Lemma jf_poss_key_inj : forall fs at_, Forall jf_ok fs -> key_inj (jf_poss at_ fs).
Proof.
  induction fs as [|[[[[raw post] strlen] limit] more] r IH]; intros at_ Hok; [intros x y []|].
  inversion Hok as [|f r' Hf Hr]; subst f r'. apply jf_ok_inv in Hf. destruct Hf as [Hv Hls].
  cbn [jf_poss]. intros x y Hx Hy E. apply in_app_or in Hx, Hy.
  pose proof (jf_poss_after r (at_ + len raw + 2 + len post) Hr) as Ha. rewrite Forall_forall in Ha.
  pose proof (len_nonneg post).
  destruct Hx as [Hx|Hx], Hy as [Hy|Hy].
  - apply (field_poss_key_inj at_ raw strlen (limit :: more)); assumption.
  - destruct (field_poss_in _ _ _ _ _ Hv Hls Hx) as (_ & _ & _ & _ & Hb). specialize (Ha y Hy). lia.
  - destruct (field_poss_in _ _ _ _ _ Hv Hls Hy) as (_ & _ & _ & _ & Hb). specialize (Ha x Hx). lia.
  - apply (IH (at_ + len raw + 2 + len post) Hr); assumption.
Qed.

(* the sorted positions: last string first, the positions of one string together *)
Fixpoint jf_sorted (at_ : Z) (fs : list jfield) : list (Z * Z) :=
  match fs with
  | [] => []
  | (raw, post, strlen, limit, more) :: r =>
      jf_sorted (at_ + len raw + 2 + len post) r ++ sort_desc (field_poss at_ raw strlen (limit :: more))
  end.

Lemma jf_poss_sorted : forall fs at_, Forall jf_ok fs -> sort_desc (jf_poss at_ fs) = jf_sorted at_ fs.
Proof.
  induction fs as [|[[[[raw post] strlen] limit] more] r IH]; intros at_ Hok; [reflexivity|].
  inversion Hok as [|f r' Hf Hr]; subst f r'. pose proof Hf as Hf'. apply jf_ok_inv in Hf. destruct Hf as [Hv Hls].
  cbn [jf_poss jf_sorted]. rewrite sort_desc_app.
  - rewrite IH by exact Hr. reflexivity.
  - intros x y Hx Hy. destruct (field_poss_in _ _ _ _ _ Hv Hls Hx) as (_ & _ & _ & _ & Hb).
    pose proof (jf_poss_after r (at_ + len raw + 2 + len post) Hr) as Ha. rewrite Forall_forall in Ha.
    specialize (Ha y Hy). pose proof (len_nonneg post). lia.
  - apply (jf_poss_key_inj ((raw, post, strlen, limit, more) :: r) at_). exact Hok.
Qed.

(* the cuts: positions with different ends are cut independently *)
Lemma json_cut_all_app : forall a b data, (forall x y, In x a -> In y b -> snd y <> snd x) ->
  json_cut_all data (a ++ b) = (d <- json_cut_all data a ;; json_cut_all d b).
Proof.
  induction a as [|p a IH]; intros b data Hc; [reflexivity|].
  destruct a as [|q a].
  - cbn [app]. destruct b as [|y b].
    + cbn [json_cut_all]. destruct (json_cut_at data p); reflexivity.
    + cbn [json_cut_all]. specialize (Hc p y (or_introl eq_refl) (or_introl eq_refl)).
      replace (snd y =? snd p) with false by lia. destruct (json_cut_at data p); reflexivity.
  - change ((p :: q :: a) ++ b) with (p :: (q :: a) ++ b). cbn [json_cut_all app].
    assert (Hc' : forall x y, In x (q :: a) -> In y b -> snd y <> snd x)
      by (intros x y Hx Hy; apply Hc; [right; exact Hx|exact Hy]).
    destruct (snd q =? snd p).
    + apply (IH b data Hc').
    + destruct (json_cut_at data p) as [d|e|e]; cbn [bind]; [apply (IH b d Hc')|reflexivity|reflexivity].
Qed.

(* positions with the same end: only the last one - the smallest start - is cut *)
Lemma json_cut_all_group data e pstar : forall S,
  StronglySorted pos_ge S -> In pstar S -> Forall (fun p => snd p = e) S ->
  (forall p, In p S -> fst pstar <= fst p) ->
  json_cut_all data S = json_cut_at data pstar.
Proof.
  induction S as [|x S IH]; intros Hs Hin He Hmin; [destruct Hin|].
  inversion Hs as [|x' S' Ss Fx]; subst x' S'. inversion He as [|x' S' Ex Es]; subst x' S'.
  destruct S as [|y S].
  - destruct Hin as [->|[]]. cbn [json_cut_all]. destruct (json_cut_at data pstar); reflexivity.
  - cbn [json_cut_all]. inversion Es as [|y' S' Ey _]; subst y' S'.
    replace (snd y =? snd x) with true by lia. apply IH; [exact Ss| |exact Es|].
    + destruct Hin as [<-|Hin]; [|exact Hin]. left.
      inversion Fx as [|y' S' Fy _]; subst y' S'. unfold pos_ge in Fy.
      specialize (Hmin y (or_intror (or_introl eq_refl))).
      destruct x as [x1 x2], y as [y1 y2]. cbn [fst snd] in *. f_equal; lia.
    + intros p Hp. apply Hmin. right. exact Hp.
Qed.

Lemma field_poss_nil at_ raw strlen ls : (forall l, In l ls -> strlen <= l) -> field_poss at_ raw strlen ls = [].
Proof.
  induction ls as [|l ls IH]; intros H; [reflexivity|]. unfold field_poss in *. cbn [flat_map].
  replace (strlen <=? l) with true by (specialize (H l (or_introl eq_refl)); lia).
  apply IH. intros l' Hl'. apply H. right. exact Hl'.
Qed.

Lemma json_cut_all_doc : forall fs pre, Forall jf_ok fs ->
  json_cut_all (pre ++ jf_doc fs) (jf_sorted (len pre) fs) = Ok (pre ++ jf_cut fs).
Proof.
  induction fs as [|[[[[raw post] strlen] limit] more] r IH]; intros pre Hok; [reflexivity|].
  inversion Hok as [|f r' Hf Hr]; subst f r'. apply jf_ok_inv in Hf. destruct Hf as [Hv Hls].
  cbn [jf_sorted]. rewrite jf_doc_cons, jf_cut_cons.
  set (pre' := pre ++ QUOTE :: raw ++ QUOTE :: post).
  assert (Hl' : len pre' = len pre + len raw + 2 + len post).
  { unfold pre'. rewrite len_app, len_cons, len_app, len_cons. lia. }
  set (F := field_poss (len pre) raw strlen (limit :: more)).
  rewrite json_cut_all_app.
  2:{ intros x y Hx Hy. rewrite <- jf_poss_sorted in Hx by exact Hr.
      apply (Permutation_in _ (sort_desc_perm _)) in Hx. apply (Permutation_in _ (sort_desc_perm _)) in Hy.
      pose proof (jf_poss_after r (len pre + len raw + 2 + len post) Hr) as Ha. rewrite Forall_forall in Ha. specialize (Ha x Hx).
      destruct (field_poss_in _ _ _ _ _ Hv Hls Hy) as (l0 & _ & _ & Ey & _). rewrite Ey. cbn [snd].
      pose proof (len_nonneg post). lia. }
  replace (pre ++ QUOTE :: raw ++ QUOTE :: post ++ jf_doc r) with (pre' ++ jf_doc r)
    by (unfold pre'; rewrite <- !app_assoc; cbn [app]; rewrite <- !app_assoc; reflexivity).
  rewrite <- Hl', IH by exact Hr. cbn [bind].
  replace (pre' ++ jf_cut r) with (pre ++ QUOTE :: raw ++ QUOTE :: (post ++ jf_cut r))
    by (unfold pre'; rewrite <- !app_assoc; cbn [app]; rewrite <- !app_assoc; reflexivity).
  set (m := jf_limit limit more).
  assert (Hm0 : 0 <= m) by (rewrite Forall_forall in Hls; apply Hls; apply jf_limit_in).
  pose proof (json_kept_spec raw strlen m Hv Hm0) as (Hk & _ & Hfit & _).
  destruct (Z_le_gt_dec strlen m) as [Hsm|Hsm].
  - (* every limit fits: no position *)
    unfold F. rewrite field_poss_nil by (intros l Hl; pose proof (jf_limit_le limit more l Hl); fold m in H; lia).
    cbn [sort_desc fold_right json_cut_all]. rewrite Hfit by exact Hsm. rewrite firstn_all. reflexivity.
  - set (pstar := (len pre + Z.of_nat (json_kept raw strlen m) + 1, len pre + len raw)).
    assert (Hin : In pstar F).
    { unfold F, field_poss. apply in_flat_map. exists m. split; [apply jf_limit_in|].
      replace (strlen <=? m) with false by lia. left. reflexivity. }
    rewrite (json_cut_all_group _ (len pre + len raw) pstar).
    + apply json_cut_at_doc. exact Hk.
    + apply sort_desc_sorted.
    + eapply Permutation_in; [symmetry; apply sort_desc_perm|exact Hin].
    + apply Forall_forall. intros p Hp. apply (Permutation_in _ (sort_desc_perm _)) in Hp.
      destruct (field_poss_in _ _ _ _ _ Hv Hls Hp) as (l0 & _ & _ & -> & _). reflexivity.
    + intros p Hp. apply (Permutation_in _ (sort_desc_perm _)) in Hp.
      destruct (field_poss_in _ _ _ _ _ Hv Hls Hp) as (l & Hl & _ & -> & _). unfold pstar. cbn [fst].
      pose proof (jf_limit_le limit more l Hl) as Hle. fold m in Hle.
      pose proof (json_kept_mono raw strlen m l Hv ltac:(lia)). lia.
Qed.

Lemma flat_map_nothing data : forall junk, Forall (finds_nothing data) junk -> flat_map (pos_list data) junk = [].
Proof.
  induction junk as [|x junk IH]; intros H; [reflexivity|]. inversion H as [|x' j' Hx Hj]; subst x' j'.
  cbn [flat_map]. rewrite (IH Hj). unfold pos_list. rewrite Hx. reflexivity.
Qed.

(* gjson's answers arrive in the (random) iteration order of a Go map: any permutation; several of them
   may name the same string; answers that find nothing (Raw not at Index) may be among them *)
Theorem json_cut_many_spec : forall pre fs junk found,
  Forall jf_ok fs -> Forall (finds_nothing (pre ++ jf_doc fs)) junk ->
  Permutation found (jf_found (len pre) fs ++ junk) ->
  json_cut_many (pre ++ jf_doc fs) found = Ok (pre ++ jf_cut fs).
Proof.
  intros pre fs junk found Hok Hj Hp. unfold json_cut_many.
  destruct (json_find_each fs pre _ eq_refl Hok) as [Heach Hflat].
  rewrite json_find_all_ok.
  2:{ intros x Hx. apply (Permutation_in _ Hp) in Hx. apply in_app_or in Hx. destruct Hx as [Hx|Hx]; [apply Heach; exact Hx|].
      rewrite Forall_forall in Hj. exists None. apply Hj. exact Hx. }
  cbn [bind]. rewrite (sort_desc_congr _ (jf_poss (len pre) fs)).
  - rewrite jf_poss_sorted by exact Hok. apply json_cut_all_doc. exact Hok.
  - rewrite (Permutation_flat_map (pos_list (pre ++ jf_doc fs)) Hp), flat_map_app, Hflat, flat_map_nothing by exact Hj.
    rewrite app_nil_r. reflexivity.
  - apply jf_poss_key_inj. exact Hok.
Qed.

(* 86e6b5f, several paths: an answer whose Raw does not occur at Index is ignored, wherever it stands *)
Lemma finds_nothing_unknown data index strlen limit raw :
  0 <= index -> ~ raw_occurs_at data index raw -> finds_nothing data (index, strlen, limit, raw).
Proof.
  intros Hi Hn. unfold finds_nothing, pos_of, json_cut_pos.
  destruct (strlen <=? limit); [reflexivity|]. rewrite json_raw_at_false by assumption. reflexivity.
Qed.

Theorem json_cut_many_index_unknown : forall data found1 index strlen limit raw found2,
  0 <= index -> ~ raw_occurs_at data index raw ->
  json_cut_many data (found1 ++ (index, strlen, limit, raw) :: found2) = json_cut_many data (found1 ++ found2).
Proof.
  intros data found1 index strlen limit raw found2 Hi Hn. unfold json_cut_many.
  pose proof (finds_nothing_unknown data index strlen limit raw Hi Hn) as Hx. unfold finds_nothing, pos_of in Hx.
  rewrite !json_find_all_app. cbn [json_find_all]. rewrite Hx. cbn [bind].
  destruct (json_find_all data found1) as [pa|e|e]; cbn [bind]; try reflexivity.
  destruct (json_find_all data found2) as [pb|e|e]; reflexivity.
Qed.

(* ---- the runner's predicate (json_cut_framed) says what the theorems say --------------------------- *)
Lemma strip_prefix_iff : forall p l r, strip_prefix p l = Some r <-> l = p ++ r.
Proof.
  induction p as [|a p IH]; intros l r; cbn [strip_prefix app].
  - split; [intros H; injection H as ->; reflexivity|intros ->; reflexivity].
  - destruct l as [|b l]; [split; discriminate|]. destruct (beq a b) eqn:E.
    + apply beq_eq in E. subst b. rewrite IH. split; [intros ->; reflexivity|intros H; injection H as ->; reflexivity].
    + split; [discriminate|]. intros H. injection H as <- _. unfold beq in E. rewrite N.eqb_refl in E. discriminate.
Qed.

Lemma strip_prefix_app p r : strip_prefix p (p ++ r) = Some r.
Proof. apply strip_prefix_iff. reflexivity. Qed.

Lemma field_framed_iff (K : bytes -> bool) post : forall raw out,
  field_framed K post raw out = true <->
  exists (k : nat) out', out = firstn k raw ++ QUOTE :: post ++ out' /\ K out' = true.
Proof.
  induction raw as [|c raw IH]; intros out.
  - cbn [field_framed]. rewrite Bool.orb_false_r. split.
    + destruct (strip_prefix (QUOTE :: post) out) as [o|] eqn:E; [|discriminate]. intros HK.
      apply strip_prefix_iff in E. exists 0%nat, o. split; [exact E|exact HK].
    + intros (k & o & -> & HK). rewrite firstn_nil. cbn [app].
      change (QUOTE :: post ++ o) with ((QUOTE :: post) ++ o). rewrite strip_prefix_app. exact HK.
  - cbn [field_framed]. rewrite Bool.orb_true_iff. split.
    + intros [H|H].
      * destruct (strip_prefix (QUOTE :: post) out) as [o|] eqn:E; [|discriminate].
        apply strip_prefix_iff in E. exists 0%nat, o. split; [exact E|exact H].
      * destruct out as [|d out]; [discriminate|]. apply andb_prop in H. destruct H as [Hc H].
        apply beq_eq in Hc. subst d. apply IH in H. destruct H as (k & o & -> & HK).
        exists (S k), o. split; [reflexivity|exact HK].
    + intros (k & o & -> & HK). destruct k as [|k].
      * left. cbn [firstn app]. change (QUOTE :: post ++ o) with ((QUOTE :: post) ++ o).
        rewrite strip_prefix_app. exact HK.
      * right. cbn [firstn app]. unfold beq at 1. rewrite N.eqb_refl. cbn [andb]. apply IH.
        exists k, o. split; [reflexivity|exact HK].
Qed.

Theorem fields_framed_iff : forall fs out,
  fields_framed fs out = true <-> exists ks, length ks = length fs /\ out = cut_doc fs ks.
Proof.
  induction fs as [|[raw post] r IH]; intros out.
  - cbn [fields_framed]. split.
    + destruct out; [|discriminate]. intros _. exists []. split; reflexivity.
    + intros (ks & _ & ->). destruct ks; reflexivity.
  - cbn [fields_framed]. split.
    + destruct out as [|q out]; [discriminate|]. intros H. apply andb_prop in H. destruct H as [Hq H].
      apply beq_eq in Hq. subst q. apply field_framed_iff in H. destruct H as (k & o & -> & HK).
      apply IH in HK. destruct HK as (ks & Hl & ->). exists (k :: ks). split; [cbn [length]; lia|].
      reflexivity.
    + intros (ks & Hl & ->). destruct ks as [|k ks]; [discriminate|]. cbn [cut_doc].
      change (beq QUOTE QUOTE) with true. cbn [andb]. apply field_framed_iff.
      exists k, (cut_doc r ks). split; [reflexivity|].
      apply IH. exists ks. split; [cbn [length] in Hl; lia|reflexivity].
Qed.

(* the named strings the runner finds in  pre ++ jf_doc fs  are the fields of fs *)
Fixpoint jf_strs (at_ : Z) (fs : list jfield) : list (Z * Z) :=
  match fs with
  | [] => []
  | (raw, post, _, _, _) :: r => (at_, len raw) :: jf_strs (at_ + len raw + 2 + len post) r
  end.

Lemma jf_strs_after : forall fs at_, match jf_strs at_ fs with [] => True | q :: _ => at_ <= fst q end.
Proof. destruct fs as [|[[[[raw post] strlen] limit] more] r]; intros at_; cbn [jf_strs fst]; [exact I|lia]. Qed.

(* several answers for one string name it once *)
Definition named_step (data : bytes) (x : jfound) (acc : option (list (Z * Z))) : option (list (Z * Z)) :=
  let '(index, _, _, raw) := x in
  match acc, json_raw_at data index raw with
  | Some l, Ok true =>
      match json_raw_len_at data index with
      | Some rawlen => if rawlen =? len raw - 2 then Some (insert_asc (index, rawlen) l) else None
      | None => None
      end
  | Some l, Ok false => Some l
  | _, _ => None
  end.

Lemma json_named_strings_fold data found :
  json_named_strings data found = fold_right (named_step data) (Some []) found.
Proof.
  induction found as [|[[[index strlen] limit] raw] r IH]; [reflexivity|].
  unfold json_named_strings in *. cbn [fold_right]. rewrite IH. reflexivity.
Qed.

Lemma json_named_field data at_ strlen raw (L : list (Z * Z)) :
  json_raw_at data at_ (QUOTE :: raw ++ [QUOTE]) = Ok true ->
  json_raw_len_at data at_ = Some (len raw) ->
  match L with [] => True | q :: _ => at_ < fst q end ->
  forall ls l,
  fold_right (named_step data) (Some L) (@map Z jfound (fun l => (at_, strlen, l, QUOTE :: raw ++ [QUOTE])) (l :: ls)) =
  Some ((at_, len raw) :: L).
Proof.
  intros Ha Hr HL.
  assert (El : len (QUOTE :: raw ++ [QUOTE]) - 2 = len raw) by (rewrite len_cons, len_app; cbn; lia).
  induction ls as [|l2 ls IH]; intros l.
  - cbn [map fold_right named_step]. rewrite Ha, Hr, El, Z.eqb_refl. f_equal.
    destruct L as [|q L]; [reflexivity|]. cbn [insert_asc fst].
    replace (at_ <? fst q) with true by lia. reflexivity.
  - change (@map Z jfound (fun l0 => (at_, strlen, l0, QUOTE :: raw ++ [QUOTE])) (l :: l2 :: ls))
      with ((at_, strlen, l, QUOTE :: raw ++ [QUOTE]) :: @map Z jfound (fun l0 => (at_, strlen, l0, QUOTE :: raw ++ [QUOTE])) (l2 :: ls)).
    cbn [fold_right]. rewrite IH. cbn [named_step]. rewrite Ha, Hr, El, Z.eqb_refl. f_equal. cbn [insert_asc fst].
    replace (at_ <? at_) with false by lia. replace (at_ =? at_) with true by lia. reflexivity.
Qed.

Lemma json_named_doc : forall fs pre data, data = pre ++ jf_doc fs -> Forall jf_ok fs ->
  json_named_strings data (jf_found (len pre) fs) = Some (jf_strs (len pre) fs).
Proof.
  induction fs as [|[[[[raw post] strlen] limit] more] r IH]; intros pre data Hd Hok; [reflexivity|].
  inversion Hok as [|f r' Hf Hr]; subst f r'. apply jf_ok_inv in Hf. destruct Hf as [Hv Hls].
  rewrite jf_doc_cons in Hd.
  set (pre' := pre ++ QUOTE :: raw ++ QUOTE :: post).
  assert (Hd' : data = pre' ++ jf_doc r).
  { rewrite Hd. unfold pre'. rewrite <- !app_assoc. cbn [app]. rewrite <- !app_assoc. reflexivity. }
  assert (Hl' : len pre' = len pre + len raw + 2 + len post).
  { unfold pre'. rewrite len_app, len_cons, len_app, len_cons. lia. }
  specialize (IH pre' data Hd' Hr). rewrite Hl' in IH.
  rewrite json_named_strings_fold in *. cbn [jf_found jf_strs]. rewrite fold_right_app, IH.
  apply json_named_field.
  - rewrite Hd. apply json_raw_at_doc.
  - rewrite Hd. apply json_raw_len_at_doc. exact Hv.
  - pose proof (jf_strs_after r (len pre + len raw + 2 + len post)) as Ha.
    destruct (jf_strs (len pre + len raw + 2 + len post) r) as [|q L]; [exact I|].
    pose proof (len_nonneg raw). pose proof (len_nonneg post). lia.
Qed.

Lemma split_fields_doc : forall fs x at_,
  split_fields (x ++ jf_doc fs) at_ (jf_strs (at_ + len x) fs) = Some (x, jf_pairs fs).
Proof.
  induction fs as [|[[[[raw post] strlen] limit] more] r IH]; intros x at_.
  - cbn. rewrite app_nil_r. reflexivity.
  - rewrite jf_doc_cons. cbn [jf_strs split_fields jf_pairs map].
    pose proof (len_nonneg x). pose proof (len_nonneg raw). pose proof (len_nonneg post). pose proof (len_nonneg (jf_doc r)).
    replace ((at_ <=? at_ + len x) && (0 <=? len raw) &&
             (at_ + len x - at_ + len raw + 2 <=? len (x ++ QUOTE :: raw ++ QUOTE :: post ++ jf_doc r))) with true
      by (rewrite len_app, len_cons, len_app, len_cons, len_app; lia).
    replace (Z.to_nat (at_ + len x - at_)) with (length x) by (unfold len; lia).
    replace (Z.to_nat (len raw)) with (length raw) by (unfold len; lia).
    rewrite firstn_app, Nat.sub_diag, firstn_all. cbn [firstn]. rewrite app_nil_r.
    replace (skipn (S (length x)) (x ++ QUOTE :: raw ++ QUOTE :: post ++ jf_doc r)) with (raw ++ QUOTE :: post ++ jf_doc r).
    2:{ replace (S (length x)) with (length (x ++ [QUOTE])) by (rewrite app_length; cbn [length]; lia).
        replace (x ++ QUOTE :: raw ++ QUOTE :: post ++ jf_doc r) with ((x ++ [QUOTE]) ++ raw ++ QUOTE :: post ++ jf_doc r)
          by (rewrite <- app_assoc; reflexivity).
        rewrite skipn_app, Nat.sub_diag, skipn_all. reflexivity. }
    rewrite firstn_app, Nat.sub_diag, firstn_all. cbn [firstn]. rewrite app_nil_r.
    replace (skipn (S (S (length x)) + length raw) (x ++ QUOTE :: raw ++ QUOTE :: post ++ jf_doc r)) with (post ++ jf_doc r).
    2:{ replace (S (S (length x)) + length raw)%nat with (length (x ++ QUOTE :: raw ++ [QUOTE]))
          by (rewrite app_length; cbn [length]; rewrite app_length; cbn [length]; lia).
        replace (x ++ QUOTE :: raw ++ QUOTE :: post ++ jf_doc r) with ((x ++ QUOTE :: raw ++ [QUOTE]) ++ post ++ jf_doc r)
          by (rewrite <- !app_assoc; cbn [app]; rewrite <- !app_assoc; reflexivity).
        rewrite skipn_app, Nat.sub_diag, skipn_all. reflexivity. }
    replace (at_ + len x + len raw + 2 + len post) with ((at_ + len x + len raw + 2) + len post) by lia.
    rewrite IH. reflexivity.
Qed.

Theorem json_cut_framed_doc : forall pre fs out, Forall jf_ok fs ->
  (json_cut_framed (pre ++ jf_doc fs) (jf_found (len pre) fs) out = Some true <->
   exists ks, length ks = length fs /\ out = pre ++ cut_doc (jf_pairs fs) ks).
Proof.
  intros pre fs out Hok. unfold json_cut_framed.
  rewrite (json_named_doc fs pre _ eq_refl Hok).
  pose proof (split_fields_doc fs pre 0) as Hs. cbn [Z.add] in Hs. rewrite Hs. split.
  - intros H. injection H as H. destruct (strip_prefix pre out) as [o|] eqn:E; [|discriminate].
    apply strip_prefix_iff in E. apply fields_framed_iff in H. destruct H as (ks & Hl & ->).
    exists ks. split; [unfold jf_pairs in Hl; rewrite map_length in Hl; exact Hl|exact E].
  - intros (ks & Hl & ->). rewrite strip_prefix_app. f_equal.
    apply fields_framed_iff. exists ks. split; [unfold jf_pairs; rewrite map_length; exact Hl|reflexivity].
Qed.

Lemma jf_cut_is_cut_doc : forall fs,
  jf_cut fs = cut_doc (jf_pairs fs)
                (map (fun '(raw, _, strlen, limit, more) => json_kept raw strlen (jf_limit limit more)) fs).
Proof.
  induction fs as [|[[[[raw post] strlen] limit] more] r IH]; [reflexivity|].
  rewrite jf_cut_cons. cbn [jf_pairs map cut_doc]. f_equal. f_equal. f_equal. f_equal. exact IH.
Qed.

(* what the model computes passes the runner's predicate *)
Corollary json_cut_many_framed : forall pre fs, Forall jf_ok fs ->
  json_cut_framed (pre ++ jf_doc fs) (jf_found (len pre) fs) (pre ++ jf_cut fs) = Some true.
Proof.
  intros pre fs Hok. apply json_cut_framed_doc; [exact Hok|].
  eexists. split; [|rewrite jf_cut_is_cut_doc; reflexivity]. rewrite map_length. reflexivity.
Qed.

(* ---- two paths that resolve to the SAME string (e.g. a and \a): cut once, by the smaller limit ------- *)
(* the document of the former counterexample (before a08bbd4 the second cut removed the closing quote
   and what follows it): limits 3 and 5 on the one string, in both orders *)
(* (last section of the file: String is imported only for the literals below) *)
From Coq Require Import Strings.String.
Local Open Scope string_scope.
Definition alias_pre : bytes := bs "{""a"":".
Definition alias_raw : bytes := bs "0123456789".
Definition alias_post : bytes := bs ",""z"":""tail""}".
Local Close Scope string_scope.
Local Open Scope Z_scope.

Lemma json_cut_many_aliased_repaired :
  let doc := alias_pre ++ QUOTE :: alias_raw ++ QUOTE :: alias_post in
  let q := QUOTE :: alias_raw ++ [QUOTE] in
  let out := Ok (alias_pre ++ QUOTE :: firstn 3 alias_raw ++ QUOTE :: alias_post) in
  esc_valid alias_raw = true /\
  json_cut_many doc [(len alias_pre, 10, 3, q); (len alias_pre, 10, 5, q)] = out /\
  json_cut_many doc [(len alias_pre, 10, 5, q); (len alias_pre, 10, 3, q)] = out /\
  json_cut_many doc [(len alias_pre, 10, 3, q); (len alias_pre, 10, 3, q)] = out /\
  (* a|@this next to a: gjson answers Index 0 for the modifier path *)
  json_cut_many doc [(len alias_pre, 10, 3, q); (0, 10, 5, q)] = out /\
  json_cut doc 0 10 5 q = Ok doc.
Proof. repeat split; vm_compute; reflexivity. Qed.

(* the hypothesis of c12_json_cut_index_unknown is satisfiable: Index 0 of that document is not a quote *)
Lemma alias_raw_not_at_0 :
  ~ raw_occurs_at (alias_pre ++ QUOTE :: alias_raw ++ QUOTE :: alias_post) 0 (QUOTE :: alias_raw ++ [QUOTE]).
Proof. intros (a & b & H & Hl). apply len_zero_nil in Hl. subst a. vm_compute in H. discriminate H. Qed.
