From Verif Require Import Base.Sx Base.GoSem Model.Decoders.Common Model.Decoders.Postgres Proofs.Decoders.Common.
From Coq Require Import Lia ZifyBool.

Lemma pg_cred_total data endc e1 e2 p : endc <> EQUALS -> pg_cred data endc e1 e2 <> Panic p.
Proof.
  intros Hne. unfold pg_cred.
  name_index_byte openPos. destruct (openPos <? 0) eqn:Ho; [discriminate|].
  name_index_byte pos. destruct ((pos <? 0) || (pos <? openPos)) eqn:Hp; [discriminate|].
  assert (pos <> openPos).
  { intros E. specialize (HopenPos ltac:(lia)). specialize (Hpos ltac:(lia)). congruence. }
  unfold slice_from. step_slice v. step_slice d. discriminate.
Qed.

Theorem decode_postgres_total : forall data p, decode_postgres data <> Panic p.
Proof.
  intros data p. unfold decode_postgres.
  name_index_byte pos. destruct (pos <? 0) eqn:Hp; [discriminate|].
  unfold slice_to, slice_from. step_slice t1. step_slice d1. clear Hpos Npos.
  name_index_byte pos2. destruct (pos2 <? 0) eqn:Hp2; [discriminate|].
  step_slice t2. step_slice d2. clear Hpos2 Npos2.
  name_index_byte pos3. destruct (pos3 <? 0) eqn:Hp3; [discriminate|].
  step_slice t3. step_slice d3. clear Hpos3 Npos3.
  name_index_byte pos4. destruct (pos4 <? 1) eqn:Hp4; [discriminate|].
  step_slice pid. step_slice d4. clear Hpos4 Npos4.
  name_index_byte pos5. destruct (pos5 <? 0) eqn:Hp5; [discriminate|].
  step_slice d5. clear Hpos5 Npos5.
  name_index_byte pos6. destruct (pos6 <? 0) eqn:Hp6; [discriminate|].
  step_slice num. step_slice d6. clear Hpos6 Npos6.
  destruct (pg_cred d6 COMMA 5 6) as [[client d7]|e|q] eqn:E1; cbn [bind]; [|discriminate|].
  2:{ exfalso. apply (pg_cred_total d6 COMMA 5 6 q); [discriminate|exact E1]. }
  destruct (pg_cred d7 COMMA 7 8) as [[db d8]|e|q] eqn:E2; cbn [bind]; [|discriminate|].
  2:{ exfalso. apply (pg_cred_total d7 COMMA 7 8 q); [discriminate|exact E2]. }
  destruct (pg_cred d8 SP 9 10) as [[user d9]|e|q] eqn:E3; cbn [bind]; [|discriminate|].
  2:{ exfalso. apply (pg_cred_total d8 SP 9 10 q); [discriminate|exact E3]. }
  name_index_byte pos7. destruct ((pos7 <? 0) || (len d9 <? pos7 + 2)) eqn:Hp7; [discriminate|].
  step_slice lg. discriminate.
Qed.

(* ---- faithfulness ---------------------------------------------------------------------------- *)
Lemma pg_cred_faithful k v rest endc e1 e2 :
  endc <> EQUALS -> index_byte k EQUALS = -1 -> index_byte k endc = -1 -> index_byte v endc = -1 ->
  pg_cred (k ++ EQUALS :: v ++ endc :: rest) endc e1 e2 = Ok (v, rest).
Proof.
  intros Hne Hk1 Hk2 Hv. unfold pg_cred.
  rewrite (index_byte_app_notin k EQUALS _ Hk1).
  pose proof (len_nonneg k). pose proof (len_nonneg v).
  replace (len k <? 0) with false by lia.
  rewrite (index_byte_app_skip k _ endc Hk2), index_byte_cons.
  replace (N.eqb EQUALS endc) with false by (symmetry; apply N.eqb_neq; congruence).
  rewrite (index_byte_app_notin v endc _ Hv).
  replace (len v <? 0) with false by lia.
  replace (len v + 1 <? 0) with false by lia.
  replace ((len k + (len v + 1) <? 0) || (len k + (len v + 1) <? len k)) with false by lia.
  replace (k ++ EQUALS :: v ++ endc :: rest) with ((k ++ [EQUALS]) ++ v ++ endc :: rest)
    by (rewrite <- app_assoc; reflexivity).
  replace (len k + 1) with (len (k ++ [EQUALS])) by (rewrite len_app; reflexivity).
  replace (len k + (len v + 1)) with (len (k ++ [EQUALS]) + len v) by (rewrite len_app; change (len [EQUALS]) with 1; lia).
  rewrite slice_mid. cbn [bind].
  replace ((k ++ [EQUALS]) ++ v ++ endc :: rest) with (((k ++ [EQUALS]) ++ v) ++ endc :: rest)
    by (rewrite <- !app_assoc; reflexivity).
  replace (len (k ++ [EQUALS]) + len v + 1) with (len ((k ++ [EQUALS]) ++ v) + 1) by (rewrite !len_app; lia).
  rewrite slice_from_app_cons. reflexivity.
Qed.

(* a line assembled as
     t1 ' ' t2 ' ' t3 ' ' '[' pid ']' sep '[' num ']' k1 '=' client ',' k2 '=' db ',' k3 '=' user ' ' level ' ' ' ' log
   from fields that do not contain the delimiter that ends them decodes to exactly those fields *)
Theorem decode_postgres_faithful :
  forall t1 t2 t3 pid sep num k1 client k2 db k3 user level log,
  index_byte t1 SP = -1 -> index_byte t2 SP = -1 -> index_byte t3 SP = -1 ->
  index_byte pid RBRACK = -1 -> index_byte sep LBRACK = -1 -> index_byte num RBRACK = -1 ->
  index_byte k1 EQUALS = -1 -> index_byte k1 COMMA = -1 -> index_byte client COMMA = -1 ->
  index_byte k2 EQUALS = -1 -> index_byte k2 COMMA = -1 -> index_byte db COMMA = -1 ->
  index_byte k3 EQUALS = -1 -> index_byte k3 SP = -1 -> index_byte user SP = -1 ->
  index_byte level SP = -1 ->
  decode_postgres (pg_line t1 t2 t3 pid sep num k1 client k2 db k3 user level log) =
  Ok {| pg_time := t1 ++ SP :: t2 ++ SP :: t3; pg_pid := pid; pg_num := num; pg_client := client;
        pg_db := db; pg_user := user; pg_log := log |}.
Proof.
  intros t1 t2 t3 pid sep num k1 client k2 db k3 user level log
         H1 H2 H3 Hpid Hsep Hnum Hk1a Hk1b Hcl Hk2a Hk2b Hdb Hk3a Hk3b Hus Hlv.
  unfold decode_postgres, pg_line.
  Ltac tok H := rewrite (index_byte_app_notin _ _ _ H);
                match goal with |- context [len ?a <? 0] => pose proof (len_nonneg a); replace (len a <? 0) with false by lia end;
                rewrite ?slice_to_app; cbn [bind]; rewrite slice_from_app_cons; cbn [bind].
  tok H1. tok H2. tok H3.
  (* pid: '[' pid ']' ... *)
  rewrite index_byte_cons. change (N.eqb LBRACK RBRACK) with false. cbv iota.
  rewrite (index_byte_app_notin pid RBRACK _ Hpid). pose proof (len_nonneg pid).
  replace (len pid <? 0) with false by lia. replace (len pid + 1 <? 1) with false by lia.
  replace (slice (LBRACK :: pid ++ RBRACK :: sep ++ LBRACK :: num ++ RBRACK :: k1 ++ EQUALS :: client ++ COMMA :: k2 ++ EQUALS :: db ++ COMMA :: k3 ++ EQUALS :: user ++ SP :: level ++ SP :: SP :: log) 1 (len pid + 1))
    with (slice (pid ++ RBRACK :: sep ++ LBRACK :: num ++ RBRACK :: k1 ++ EQUALS :: client ++ COMMA :: k2 ++ EQUALS :: db ++ COMMA :: k3 ++ EQUALS :: user ++ SP :: level ++ SP :: SP :: log) 0 (len pid))
    by (symmetry; apply (slice_cons_S LBRACK _ 0 (len pid)); lia).
  fold (slice_to (pid ++ RBRACK :: sep ++ LBRACK :: num ++ RBRACK :: k1 ++ EQUALS :: client ++ COMMA :: k2 ++ EQUALS :: db ++ COMMA :: k3 ++ EQUALS :: user ++ SP :: level ++ SP :: SP :: log) (len pid)).
  rewrite slice_to_app. cbn [bind].
  change (LBRACK :: pid ++ RBRACK :: sep ++ LBRACK :: num ++ RBRACK :: k1 ++ EQUALS :: client ++ COMMA :: k2 ++ EQUALS :: db ++ COMMA :: k3 ++ EQUALS :: user ++ SP :: level ++ SP :: SP :: log)
    with ((LBRACK :: pid) ++ RBRACK :: sep ++ LBRACK :: num ++ RBRACK :: k1 ++ EQUALS :: client ++ COMMA :: k2 ++ EQUALS :: db ++ COMMA :: k3 ++ EQUALS :: user ++ SP :: level ++ SP :: SP :: log).
  replace (len pid + 1 + 1) with (len (LBRACK :: pid) + 1) by (rewrite len_cons; lia).
  rewrite slice_from_app_cons. cbn [bind].
  (* pid message number *)
  rewrite (index_byte_app_notin sep LBRACK _ Hsep). pose proof (len_nonneg sep).
  replace (len sep <? 0) with false by lia. rewrite slice_from_app_cons. cbn [bind].
  tok Hnum.
  (* credentials *)
  rewrite (pg_cred_faithful k1 client _ COMMA 5 6 ltac:(discriminate) Hk1a Hk1b Hcl). cbn [bind].
  rewrite (pg_cred_faithful k2 db _ COMMA 7 8 ltac:(discriminate) Hk2a Hk2b Hdb). cbn [bind].
  rewrite (pg_cred_faithful k3 user _ SP 9 10 ltac:(discriminate) Hk3a Hk3b Hus). cbn [bind].
  (* log *)
  rewrite (index_byte_app_notin level SP _ Hlv). pose proof (len_nonneg level). pose proof (len_nonneg log).
  rewrite len_app, !len_cons.
  replace ((len level <? 0) || (len level + (len log + 1 + 1) <? len level + 2)) with false by lia.
  replace (level ++ SP :: SP :: log) with ((level ++ [SP]) ++ SP :: log) by (rewrite <- app_assoc; reflexivity).
  replace (len level + 2) with (len (level ++ [SP]) + 1) by (rewrite len_app; change (len [SP]) with 1; lia).
  rewrite slice_from_app_cons. reflexivity.
Qed.

(* ---- the in-place construction of the time field ---------------------------------------------- *)
Lemma split_at {A} (l : list A) : forall n x, nth_error l n = Some x -> l = firstn n l ++ x :: skipn (S n) l.
Proof.
  induction l as [|y l IH]; intros [|n] x H; cbn in H; try discriminate.
  - injection H as <-. reflexivity.
  - cbn [firstn skipn app]. f_equal. apply IH. exact H.
Qed.

(* data[:pos] ++ data[pos] :: data[pos+1:] = data *)
Lemma split_at_index_byte l c a b :
  0 <= index_byte l c ->
  slice_to l (index_byte l c) = Ok a -> slice_from l (index_byte l c + 1) = Ok b -> l = a ++ c :: b.
Proof.
  intros Hp Ha Hb. pose proof (index_byte_hit l c Hp) as Hc. apply idx_inv in Hc. destruct Hc as [Hr Hn].
  apply slice_inv in Ha. destruct Ha as (_ & _ & _ & ->).
  apply slice_inv in Hb. destruct Hb as (_ & _ & _ & ->).
  cbn [Z.to_nat skipn]. rewrite Z.sub_0_r.
  replace (Z.to_nat (index_byte l c + 1)) with (S (Z.to_nat (index_byte l c))) by lia.
  rewrite (firstn_all2 (n := Z.to_nat (len l - (index_byte l c + 1)))).
  2:{ rewrite skipn_length. unfold len. lia. }
  apply split_at. exact Hn.
Qed.

(* the time field is a prefix of the input: Go builds it by appending onto data[:pos] in place, which
   therefore rewrites every byte of the caller's buffer with the value it already has *)
Theorem decode_postgres_time_in_place : forall data row,
  decode_postgres data = Ok row -> exists rest, data = pg_time row ++ SP :: rest.
Proof.
  intros data row. unfold decode_postgres.
  destruct (index_byte data SP <? 0) eqn:Hp; [discriminate|].
  destruct (slice_to data (index_byte data SP)) as [t1| |] eqn:E1; cbn [bind]; try discriminate.
  destruct (slice_from data (index_byte data SP + 1)) as [d1| |] eqn:E1'; cbn [bind]; try discriminate.
  destruct (index_byte d1 SP <? 0) eqn:Hp2; [discriminate|].
  destruct (slice_to d1 (index_byte d1 SP)) as [t2| |] eqn:E2; cbn [bind]; try discriminate.
  destruct (slice_from d1 (index_byte d1 SP + 1)) as [d2| |] eqn:E2'; cbn [bind]; try discriminate.
  destruct (index_byte d2 SP <? 0) eqn:Hp3; [discriminate|].
  destruct (slice_to d2 (index_byte d2 SP)) as [t3| |] eqn:E3; cbn [bind]; try discriminate.
  destruct (slice_from d2 (index_byte d2 SP + 1)) as [d3| |] eqn:E3'; cbn [bind]; try discriminate.
  pose proof (split_at_index_byte data SP t1 d1 ltac:(lia) E1 E1') as S1.
  pose proof (split_at_index_byte d1 SP t2 d2 ltac:(lia) E2 E2') as S2.
  pose proof (split_at_index_byte d2 SP t3 d3 ltac:(lia) E3 E3') as S3.
  intros H. exists d3.
  assert (Ht : pg_time row = t1 ++ SP :: t2 ++ SP :: t3).
  { revert H. clear.
    repeat match goal with
           | |- context [if ?c then _ else _] => destruct c; try discriminate
           | |- context [bind ?r _] => destruct r as [?| |]; cbn [bind]; try discriminate
           | |- context [let '(_, _) := ?p in _] => destruct p
           end.
    intros H. injection H as <-. reflexivity. }
  rewrite Ht, S1, S2, S3. rewrite <- !app_assoc. cbn [app]. rewrite <- !app_assoc. reflexivity.
Qed.
