(* Proofs about the hold ledger of Model/PipeGlue.v (monitor 17 of C02) and about how Model/Proc.v treats the trace of an
   action that clears its busy mark while it still holds an event. *)
From Verif Require Import Base.Sx Model.Proc Model.PipeGlue.
From Coq Require Import List ZArith Lia Bool Permutation.
Import ListNotations.
Open Scope Z_scope.

(* ---- keys ------------------------------------------------------------------------------------ *)
Lemma key_eqb_eq (a b : Z * Z) : key_eqb a b = true <-> a = b.
Proof.
  destruct a as [a1 a2], b as [b1 b2]. unfold key_eqb. cbn [fst snd].
  rewrite andb_true_iff, !Z.eqb_eq. split.
  - intros [H1 H2]. now subst.
  - intros H. inversion H. now split.
Qed.

Lemma key_eqb_refl (a : Z * Z) : key_eqb a a = true.
Proof. now apply key_eqb_eq. Qed.

Lemma key_eqb_neq (a b : Z * Z) : key_eqb a b = false <-> a <> b.
Proof.
  split.
  - intros H E. apply key_eqb_eq in E. congruence.
  - intros H. destruct (key_eqb a b) eqn:E; [apply key_eqb_eq in E; contradiction | reflexivity].
Qed.

(* ---- marks ----------------------------------------------------------------------------------- *)
Lemma h_marked_mark_same k l : h_marked k (h_mark k l) = true.
Proof.
  unfold h_mark. destruct (h_marked k l) eqn:E; [exact E|].
  unfold h_marked. cbn [existsb]. now rewrite key_eqb_refl.
Qed.

Lemma h_marked_mark_mono k k' l : h_marked k l = true -> h_marked k (h_mark k' l) = true.
Proof.
  intros H. unfold h_mark. destruct (h_marked k' l); [exact H|].
  unfold h_marked in *. cbn [existsb]. now rewrite H, orb_true_r.
Qed.

Lemma h_marked_unmark_other k k' l : k <> k' -> h_marked k (h_unmark k' l) = h_marked k l.
Proof.
  intros N. unfold h_marked, h_unmark. induction l as [|x r IH]; [reflexivity|].
  cbn [filter existsb]. destruct (key_eqb x k') eqn:E; cbn [negb].
  - apply key_eqb_eq in E. subst x. rewrite IH.
    assert (key_eqb k' k = false) as -> by (apply key_eqb_neq; congruence). reflexivity.
  - cbn [existsb]. now rewrite IH.
Qed.

Lemma h_marked_unmark_same k l : h_marked k (h_unmark k l) = false.
Proof.
  unfold h_marked, h_unmark. induction l as [|x r IH]; [reflexivity|].
  cbn [filter]. destruct (key_eqb x k) eqn:E; cbn [negb]; [exact IH|].
  cbn [existsb]. now rewrite E, IH.
Qed.

(* ---- held events ------------------------------------------------------------------------------ *)
Lemma h_find_none_notin k l : h_find k l = None -> ~ In k (map fst l).
Proof.
  induction l as [|[k' v] r IH]; cbn [h_find map fst In]; [tauto|].
  destruct (key_eqb k' k) eqn:E; [discriminate|].
  intros H [H1|H1]; [|now apply IH].
  subst k'. now rewrite key_eqb_refl in E.
Qed.

Lemma h_find_some_in k v l : h_find k l = Some v -> In k (map fst l).
Proof.
  induction l as [|[k' w] r IH]; cbn [h_find map fst In]; [discriminate|].
  destruct (key_eqb k' k) eqn:E.
  - apply key_eqb_eq in E. now left.
  - intros H. right. now apply IH.
Qed.

Lemma h_find_remove_other k k' l : k <> k' -> h_find k (h_remove k' l) = h_find k l.
Proof.
  intros N. induction l as [|[x v] r IH]; [reflexivity|].
  cbn [h_remove h_find]. destruct (key_eqb x k') eqn:E.
  - apply key_eqb_eq in E. subst x.
    assert (key_eqb k' k = false) as -> by (apply key_eqb_neq; congruence). reflexivity.
  - cbn [h_find]. now rewrite IH.
Qed.

Lemma h_remove_incl k l x : In x (map fst (h_remove k l)) -> In x (map fst l).
Proof.
  induction l as [|[y v] r IH]; cbn [h_remove map fst In]; [tauto|].
  destruct (key_eqb y k); cbn [map fst In]; [now right|].
  intros [H|H]; [now left|right; now apply IH].
Qed.

Lemma h_remove_nodup k l : NoDup (map fst l) -> NoDup (map fst (h_remove k l)).
Proof.
  induction l as [|[y v] r IH]; cbn [h_remove map fst]; [intros; constructor|].
  intros H. inversion H as [|? ? Hn Hr]; subst.
  destruct (key_eqb y k); [exact Hr|].
  cbn [map fst]. constructor; [|now apply IH].
  intros Hin. apply Hn. now apply h_remove_incl in Hin.
Qed.

Lemma h_find_remove_same k l : NoDup (map fst l) -> h_find k (h_remove k l) = None.
Proof.
  induction l as [|[y v] r IH]; cbn [h_remove map fst]; [reflexivity|].
  intros H. inversion H as [|? ? Hn Hr]; subst.
  destruct (key_eqb y k) eqn:E.
  - apply key_eqb_eq in E. subst y.
    destruct (h_find k r) eqn:F; [|reflexivity].
    exfalso. apply Hn. now apply h_find_some_in in F.
  - cbn [h_find]. rewrite E. now apply IH.
Qed.

Lemma h_find_remove_perm k v l : h_find k l = Some v -> Permutation (map snd l) (v :: map snd (h_remove k l)).
Proof.
  induction l as [|[y w] r IH]; cbn [h_find h_remove map snd]; [discriminate|].
  destruct (key_eqb y k).
  - intros H. inversion H. subst. apply Permutation_refl.
  - intros H. cbn [map snd]. eapply Permutation_trans; [apply perm_skip, IH, H|]. apply perm_swap.
Qed.

(* ---- the invariant of the ledger --------------------------------------------------------------- *)
Definition hinv (t : hst) : Prop :=
  (forall k v, h_find k (hl_held t) = Some v -> h_marked k (hl_mark t) = true) /\
  NoDup (map fst (hl_held t)) /\
  Permutation (hl_holds t) (map snd (hl_held t) ++ hl_props t).

Lemma hinv_init : hinv hinit.
Proof. repeat split; cbn; [discriminate | constructor | constructor]. Qed.

Lemma hinv_step t l t' : hinv t -> hstep t l = Some t' -> hinv t'.
Proof.
  intros (Hm & Hn & Hp) H. unfold hinv. destruct l as [p a s kind busy | p a s q r | p a s q]; cbn [hstep] in H.
  - destruct (_ && _); inversion H; subst. now repeat split.
  - destruct (h_find (p, a) (hl_held t)) as [w|] eqn:F.
    + (* the action holds an event: only Collapse is accepted *)
      destruct r; try discriminate. inversion H; subst; cbn. repeat split; [|exact Hn|exact Hp].
      intros k v Hk. apply h_marked_mark_mono. now apply Hm with v.
    + destruct r; inversion H; subst; cbn [hl_held hl_mark hl_holds hl_props].
      * (* Pass *) repeat split; [|exact Hn|exact Hp].
        intros k v Hk. rewrite h_marked_unmark_other; [now apply Hm with v|]. intros ->. congruence.
      * (* Collapse *) repeat split; [|exact Hn|exact Hp].
        intros k v Hk. apply h_marked_mark_mono. now apply Hm with v.
      * (* Discard *) repeat split; [|exact Hn|exact Hp].
        intros k v Hk. rewrite h_marked_unmark_other; [now apply Hm with v|]. intros ->. congruence.
      * (* Hold *) repeat split.
        -- intros k v. cbn [h_find]. destruct (key_eqb (p, a) k) eqn:E.
           ++ apply key_eqb_eq in E. subst k. intros _. apply h_marked_mark_same.
           ++ intros Hk. apply h_marked_mark_mono. now apply Hm with v.
        -- cbn [map fst]. constructor; [now apply h_find_none_notin | exact Hn].
        -- cbn [map snd app]. now apply perm_skip.
      * (* Break *) repeat split; [|exact Hn|exact Hp].
        intros k v Hk. rewrite h_marked_unmark_other; [now apply Hm with v|]. intros ->. congruence.
  - destruct (h_find (p, a) (hl_held t)) as [w|] eqn:F; [|discriminate].
    destruct (key_eqb w (s, q)) eqn:E; [|discriminate]. apply key_eqb_eq in E. subst w.
    inversion H; subst; cbn [hl_held hl_mark hl_holds hl_props]. repeat split.
    + intros k v Hk. destruct (key_eqb k (p, a)) eqn:E.
      * apply key_eqb_eq in E. subst k. rewrite h_find_remove_same in Hk by exact Hn. discriminate.
      * apply key_eqb_neq in E. rewrite h_find_remove_other in Hk by exact E.
        rewrite h_marked_unmark_other by exact E. now apply Hm with v.
    + now apply h_remove_nodup.
    + eapply Permutation_trans; [exact Hp|].
      eapply Permutation_trans; [apply Permutation_app_tail, h_find_remove_perm, F|].
      cbn [app]. apply Permutation_middle.
Qed.

Lemma hinv_run ls : forall t t', hinv t -> hrun t ls = Some t' -> hinv t'.
Proof.
  induction ls as [|l r IH]; intros t t' Hi H; cbn [hrun] in H.
  - inversion H. now subst.
  - destruct (hstep t l) as [t1|] eqn:E; [|discriminate]. eapply IH; [|exact H]. eapply hinv_step; eauto.
Qed.

(* ---- theorems ----------------------------------------------------------------------------------- *)
(* on every trace the ledger accepts, an action that holds an event is marked busy: the processor goes on waiting on the
   stream (processEvent: busyActionsTotal > 0), so the next event or the time-out of the stream reaches the action *)
Theorem hl_held_marked ls t p a v :
  hrun hinit ls = Some t -> h_find (p, a) (hl_held t) = Some v -> h_marked (p, a) (hl_mark t) = true.
Proof. intros H F. destruct (hinv_run ls hinit t hinv_init H) as (Hm & _ & _). now apply Hm with v. Qed.

(* no (processor, action) holds two events *)
Theorem hl_one_event_per_action ls t :
  hrun hinit ls = Some t -> NoDup (map fst (hl_held t)).
Proof. intros H. now destruct (hinv_run ls hinit t hinv_init H) as (_ & Hn & _). Qed.

(* every event an action ever held is still held by it or was handed back (Propagate) exactly once *)
Theorem hl_accounting ls t :
  hrun hinit ls = Some t -> Permutation (hl_holds t) (map snd (hl_held t) ++ hl_props t).
Proof. intros H. now destruct (hinv_run ls hinit t hinv_init H) as (_ & _ & Hp). Qed.

(* nothing held when the pipeline is idle (what monitor 17 checks at quiescence): the events handed back are exactly the
   events that were held, each once - none stays behind in an action *)
Theorem hl_quiescent ls t :
  hrun hinit ls = Some t -> hl_held t = [] -> Permutation (hl_holds t) (hl_props t).
Proof. intros H E. pose proof (hl_accounting ls t H) as P. now rewrite E in P. Qed.

(* THE SEEDED CLASS: whatever happened before, an action that holds an event and gives an answer that makes the processor
   clear its busy mark (Pass, Break, Discard) - or answers Hold a second time - is rejected at that very label; Collapse is
   the only answer a holder may give without handing the event back first *)
Theorem hl_clearing_answer_of_a_holder_rejected t p a s q r v :
  h_find (p, a) (hl_held t) = Some v -> r <> RCollapse -> hstep t (HResult p a s q r) = None.
Proof. intros F N. cbn [hstep]. rewrite F. destruct r; try reflexivity. contradiction. Qed.

(* ... and it is the only way in which the mark of a holder can go: every accepted step keeps the marks of the holders *)
Theorem hl_step_keeps_holders_marked t l t' :
  (forall k v, h_find k (hl_held t) = Some v -> h_marked k (hl_mark t) = true) -> NoDup (map fst (hl_held t)) ->
  hstep t l = Some t' ->
  forall k v, h_find k (hl_held t') = Some v -> h_marked k (hl_mark t') = true.
Proof.
  intros Hm Hn H.
  set (u := {| hl_held := hl_held t; hl_mark := hl_mark t; hl_holds := map snd (hl_held t); hl_props := [] |}).
  assert (hinv u) as Hi.
  { repeat split; cbn; [exact Hm | exact Hn | rewrite app_nil_r; apply Permutation_refl]. }
  assert (exists u', hstep u l = Some u' /\ hl_held u' = hl_held t' /\ hl_mark u' = hl_mark t') as (u' & Hu & E1 & E2).
  { destruct l as [p a s kind busy | p a s q r | p a s q]; cbn [hstep hl_held hl_mark u] in *.
    - destruct (_ && _); inversion H; subst. eexists. repeat split.
    - destruct (h_find (p, a) (hl_held t)); destruct r; try discriminate; inversion H; subst; eexists; repeat split.
    - destruct (h_find (p, a) (hl_held t)) as [w|]; [|discriminate]. destruct (key_eqb w (s, q)); [|discriminate].
      inversion H; subst. eexists. repeat split. }
  destruct (hinv_step u l u' Hi Hu) as (S1 & _). rewrite <- E1, <- E2. exact S1.
Qed.

(* ---- the same trace through Model/Proc.v ---------------------------------------------------------- *)
(* Model/Proc.v identifies "busy" with "holds an event".  It lets a holder answer Discard (the event is dropped, the held one
   stays), so the model goes on holding - while the real processor has cleared the mark.  The disagreement is caught by the
   guard of PDo (the busy bit of the Do label must be the model's held_at) at the next Do of that action: the real
   processor reports busy = false there. *)
Theorem proc_lts_rejects_the_next_do_of_a_forgotten_holder s e a h s' :
  held_at (held s) a = Some h ->
  pstep s (PResult e a RDiscard) = Some s' ->
  held_at (held s') a = Some h /\ forall e', pstep s' (PDo e' a false) = None.
Proof.
  intros Hh H. unfold pstep in H. destruct (pcrashed s) eqn:Cr; [discriminate|].
  destruct (stack s) as [|f rest]; [discriminate|]. destruct (fph f); try discriminate.
  destruct (negb _); [discriminate|]. inversion H; subst; clear H. cbn [held]. split; [exact Hh|].
  intros e'. unfold pstep. cbn [pcrashed stack held]. try rewrite Cr.
  destruct rest as [|g r]; [reflexivity|]. destruct (fph g); try reflexivity.
  rewrite Hh. cbn [Bool.eqb]. now rewrite !andb_false_r.
Qed.

(* in general: a Do label that says "idle" for an action the model knows to hold an event is never a step *)
Theorem proc_lts_idle_do_on_a_holder_rejected s e a h :
  held_at (held s) a = Some h -> pstep s (PDo e a false) = None.
Proof.
  intros Hh. unfold pstep. destruct (pcrashed s); [reflexivity|].
  destruct (stack s) as [|g r]; [reflexivity|]. destruct (fph g); try reflexivity.
  rewrite Hh. cbn [Bool.eqb]. now rewrite !andb_false_r.
Qed.

(* ---- non-vacuity ------------------------------------------------------------------------------------ *)
(* processor 0, one action, stream 0: event 1 starts a run (Hold), event 2 continues it.  Answered with Collapse, the run is
   flushed by the stream's time-out (Do of kind 3, Propagate 1, Discard) and nothing stays held; answered with Discard the trace
   is rejected at that answer; the same label sequence through Model/Proc.v is rejected one Do later *)
Example hold_ledger_nonvacuous :
  (exists t, hrun hinit [HDo 0 0 0 0 false; HResult 0 0 0 1 RHold; HDo 0 0 0 0 true; HResult 0 0 0 2 RCollapse;
                         HDo 0 0 0 3 true; HPropagate 0 0 0 1; HResult 0 0 0 0 RDiscard] = Some t /\
             hl_held t = [] /\ hl_mark t = [] /\ hl_holds t = [(0, 1)] /\ hl_props t = [(0, 1)]) /\
  hrun hinit [HDo 0 0 0 0 false; HResult 0 0 0 1 RHold; HDo 0 0 0 0 true; HResult 0 0 0 2 RDiscard] = None /\
  (exists s, prun (pinit 1) [PTake {| pseq := 1; pkind := 0 |} 0; PDo {| pseq := 1; pkind := 0 |} 0 false;
                             PResult {| pseq := 1; pkind := 0 |} 0 RHold;
                             PTake {| pseq := 2; pkind := 0 |} 0; PDo {| pseq := 2; pkind := 0 |} 0 true;
                             PResult {| pseq := 2; pkind := 0 |} 0 RDiscard;
                             PTake {| pseq := 3; pkind := 0 |} 0] = Some s /\
             pstep s (PDo {| pseq := 3; pkind := 0 |} 0 false) = None).
Proof.
  split; [|split].
  - eexists. vm_compute. repeat split.
  - vm_compute. reflexivity.
  - eexists. split; vm_compute; reflexivity.
Qed.
