(* The heartbeat's life cycle (Model/Pool.v, section "the heartbeat's life cycle") on top of the two pool transition
   systems: a sleeping getter always has a RUNNING heartbeat (given the two facts the translator reads from the source:
   get() starts it on every path to Cond.Wait, and its loop has no way out), hence the wake-up theorems of PoolLm.v /
   PoolStd.v hold in the layered systems; under heartbeat fairness (the run contains heartbeat iterations) EVERY schedule
   wakes the sleeper; and with a heartbeat that may return, the lost wake-up is a reachable state with no step enabled. *)
From Verif Require Import Base.Sx Model.Pool Proofs.Pool Proofs.PoolLm Proofs.PoolStd.
From Coq Require Import Lia ZifyBool Bool List ZArith.
Import ListNotations.
Local Open Scope Z_scope.

(* ------------------------------------------------------------------------------------------- *)
(* the layer, for any base system                                                                *)
Section Layer.
  Context {St Lab : Type}.
  Variable step : St -> Lab -> option St.
  Variable is_start : Lab -> bool.
  Variable is_tick : Lab -> bool.
  Variable h : hcfg.

  Fixpoint brun (s : St) (ls : list Lab) : option St :=
    match ls with
    | [] => Some s
    | l :: r => match step s l with Some s' => brun s' r | None => None end
    end.

  Definition hproj (ls : list (hlab Lab)) : list Lab :=
    flat_map (fun l => match l with HL l0 => [l0] | HExit => [] end) ls.

  Notation hstep' := (hstep step is_start is_tick h).
  Notation hrun' := (hrun step is_start is_tick h).

  Lemma hrun_app ls1 ls2 s s1 s2 : hrun' s ls1 = Some s1 -> hrun' s1 ls2 = Some s2 -> hrun' s (ls1 ++ ls2) = Some s2.
  Proof.
    revert s. induction ls1 as [|l r IH]; intros s H1 H2; cbn [hrun app] in *.
    - inversion H1; subst. exact H2.
    - destruct (hstep' s l); [|discriminate]. exact (IH _ H1 H2).
  Qed.

  Lemma hrun_invariant (P : hst St -> Prop) :
    (forall s l s', P s -> hstep' s l = Some s' -> P s') -> forall ls s s', P s -> hrun' s ls = Some s' -> P s'.
  Proof.
    intros Hstep ls. induction ls as [|l r IH]; intros s s' Hs Hr; cbn [hrun] in Hr.
    - inversion Hr; subst; exact Hs.
    - destruct (hstep' s l) as [s1|] eqn:E; [|discriminate]. eapply IH; [eapply Hstep; eauto|exact Hr].
  Qed.

  (* the layer only removes behaviour: a layered run is a run of the base system *)
  Lemma hrun_proj ls : forall s s', hrun' s ls = Some s' -> brun (h_s s) (hproj ls) = Some (h_s s').
  Proof.
    induction ls as [|l r IH]; intros s s' H; cbn [hrun] in H.
    - inversion H; subst. reflexivity.
    - destruct (hstep' s l) as [s1|] eqn:E; [|discriminate]. specialize (IH s1 s' H).
      destruct l as [l0|]; cbn [hstep] in E.
      + destruct (is_tick l0 && negb (hb_running (h_hb s))); [discriminate|].
        destruct (step (h_s s) l0) as [b|] eqn:Eb; [|discriminate]. inversion E; subst.
        cbn [hproj flat_map app brun]. rewrite Eb. exact IH.
      + destruct (hb_running (h_hb s) && negb (hb_forever h)); [|discriminate]. inversion E; subst. exact IH.
  Qed.

  (* while the heartbeat runs the layer removes nothing: every run of the base system is a layered run *)
  Lemma hrun_lift ls : forall s b', h_hb s = HbRun -> brun (h_s s) ls = Some b' -> hrun' s (map HL ls) = Some (mk_hst HbRun b').
  Proof.
    induction ls as [|l r IH]; intros s b' Hh H; cbn [brun] in H; cbn [map hrun].
    - inversion H; subst. destruct s as [hb b]. cbn in Hh. subst. reflexivity.
    - destruct (step (h_s s) l) as [b1|] eqn:E; [|discriminate]. cbn [hstep]. rewrite Hh. cbn [hb_running negb].
      rewrite andb_false_r, E. cbn [hb_after]. apply (IH (mk_hst HbRun b1)); [reflexivity|exact H].
  Qed.

  (* a heartbeat whose loop has no way out never returns *)
  Lemma hb_never_gone ls s s' : hb_forever h = true -> h_hb s <> HbGone -> hrun' s ls = Some s' -> h_hb s' <> HbGone.
  Proof.
    intros Hf. revert ls s s'. apply (hrun_invariant (fun s => h_hb s <> HbGone)).
    intros s l s' Hs H. destruct l as [l0|]; cbn [hstep] in H.
    - destruct (is_tick l0 && negb (hb_running (h_hb s))); [discriminate|].
      destruct (step (h_s s) l0); [|discriminate]. inversion H; subst. cbn [h_hb]. unfold hb_after.
      destruct (h_hb s); [destruct (is_start l0 && hb_starts h); discriminate|discriminate|contradiction].
    - rewrite Hf, andb_false_r in H. discriminate.
  Qed.

  (* once gone, for ever gone, and nothing but the base system's non-tick steps remain *)
  Lemma hb_gone_stays s l s' : h_hb s = HbGone -> hstep' s l = Some s' -> h_hb s' = HbGone.
  Proof.
    intros Hg H. destruct l as [l0|]; cbn [hstep] in H.
    - destruct (is_tick l0 && negb (hb_running (h_hb s))); [discriminate|].
      destruct (step (h_s s) l0); [|discriminate]. inversion H; subst. cbn [h_hb hb_after]. rewrite Hg. reflexivity.
    - rewrite Hg in H. discriminate.
  Qed.
End Layer.

Lemma lrun_brun c ls : forall s, lrun c s ls = brun (lstep c) s ls.
Proof. induction ls as [|l r IH]; intros s; cbn [lrun brun]; [reflexivity|]. destruct (lstep c s l); [apply IH|reflexivity]. Qed.
Lemma srun_brun c ls : forall s, srun c s ls = brun (sstep c) s ls.
Proof. induction ls as [|l r IH]; intros s; cbn [srun brun]; [reflexivity|]. destruct (sstep c s l); [apply IH|reflexivity]. Qed.

(* ------------------------------------------------------------------------------------------- *)
(* low-memory pool                                                                               *)

(* program points of the slow path of get(), behind the Once *)
Definition in_slow (p : lpc) : bool := match p with LIdle | LIncd _ => false | _ => true end.
Lemma in_slow_lwake p : in_slow (lwake p) = in_slow p. Proof. destruct p; reflexivity. Qed.

Lemma lpc_fset (g : Z) (p : lpc) (g' : Z) (thr : list (Z * lpc)) :
  fget LIdle g' (fset g p thr) = if g' =? g then p else fget LIdle g' thr.
Proof. apply fget_fset. Qed.

Section LmHb.
  Variable c : pcfg.
  Variable h : hcfg.
  Hypothesis Hstarts : hb_starts h = true.

  Definition lm_started (s : hst lst) : Prop := h_hb s = HbNone -> forall g, in_slow (lpc_of (h_s s) g) = false.

  Lemma lm_started_init : lm_started lhinit.
  Proof. intros _ g. reflexivity. Qed.

  Lemma lm_started_step s l s' : lm_started s -> lhstep c h s l = Some s' -> lm_started s'.
  Proof.
    intros Hs H Hn. unfold lhstep in H. destruct l as [l0|]; cbn [hstep] in H.
    2:{ destruct (hb_running (h_hb s) && negb (hb_forever h)); [|discriminate]. inversion H; subst. discriminate Hn. }
    destruct (l_is_tick l0 && negb (hb_running (h_hb s))) eqn:Et; [discriminate|].
    destruct (lstep c (h_s s) l0) as [b|] eqn:E; [|discriminate]. inversion H; subst; clear H. cbn [h_hb h_s] in *.
    unfold hb_after in Hn. destruct (h_hb s) eqn:Eh; try discriminate Hn.
    specialize (Hs Eh).
    destruct l0; cbn [l_is_start andb] in Hn; try (rewrite Hstarts in Hn; discriminate Hn);
      try (cbn [l_is_tick hb_running negb andb] in Et; discriminate Et);
      unfold lstep in E;
      try (match type of E with context [lpc_of (h_s s) ?g0] => pose proof (Hs g0) as Hg0; destruct (lpc_of (h_s s) g0) eqn:Ep; try discriminate Hg0; try discriminate E end);
      step_split E; inversion E; subst; clear E; intros g'; unfold lpc_of; cbn [l_thr lupd lset_pc lbcast];
      rewrite ?lpc_fset; try (destruct (g' =? _); [reflexivity|]); try exact (Hs g').
    all: unfold lbroadcast; rewrite fget_fmapv by reflexivity; rewrite in_slow_lwake; exact (Hs g').
  Qed.

  Lemma lm_started_run ls s : lhrun c h lhinit ls = Some s -> lm_started s.
  Proof.
    unfold lhrun. apply (hrun_invariant (lstep c) l_is_start l_is_tick h lm_started); [|exact lm_started_init].
    intros s0 l s1. apply lm_started_step.
  Qed.

  (* a getter inside Cond.Wait() has a running heartbeat *)
  Lemma lm_sleeper_has_heartbeat ls s g :
    hb_forever h = true -> lhrun c h lhinit ls = Some s -> lpc_of (h_s s) g = LSleep -> h_hb s = HbRun.
  Proof.
    intros Hf Hr Hg. pose proof (lm_started_run ls s Hr) as Hs.
    pose proof (hb_never_gone (lstep c) l_is_start l_is_tick h ls lhinit s Hf) as Hng.
    destruct (h_hb s) eqn:Eh; [|reflexivity|].
    - specialize (Hs Eh g). rewrite Hg in Hs. discriminate.
    - exfalso. refine (Hng _ Hr eq_refl). discriminate.
  Qed.
End LmHb.

(* fairness: however the getters, the backers and the heartbeat are scheduled, a getter does not stay asleep across more
   than two heartbeat iterations that find capacity free (the first of them may have loaded the waiter count before the
   getter registered) *)
Section LmFair.
  Variable c : pcfg.
  Hypothesis Hcap : 0 <= cap c.
  Hypothesis Hfits : forall r, fits c r (cap c) = true -> r <= cap c.
  Hypothesis Htick : tickc c true true = true.

  Definition lbudget (t : tpc) : nat :=
    match t with
    | TIdle => 1
    | TW w => if 0 <? w then 1 else 2
    | TA w a => if tickc c (0 <? w) a then 0 else 1
    | TFired => 1
    end.

  Lemma lstep_nontick_tick s l s' : l_is_tick l = false -> lstep c s l = Some s' -> l_tick s' = l_tick s.
  Proof.
    intros Hl H. destruct l; try discriminate Hl; unfold lstep in H; step_split H; inversion H; subst; reflexivity.
  Qed.

  Lemma l_avail_ticks_cons l ls :
    l_avail_ticks (l :: ls) = ((match l with LmTickA true => 1 | _ => 0 end) + l_avail_ticks ls)%nat.
  Proof. unfold l_avail_ticks. cbn [filter]. destruct l; try reflexivity. destruct a; reflexivity. Qed.

  Lemma lm_asleep_budget g ls : forall s s',
    linv c s -> lpc_of s g = LSleep -> lrun_asleep c g s ls = Some s' -> (l_avail_ticks ls <= lbudget (l_tick s))%nat.
  Proof.
    induction ls as [|l r IH]; intros s s' Hinv Hg Hr; [cbn; lia|].
    cbn [lrun_asleep] in Hr. destruct (lstep c s l) as [s1|] eqn:E; [|discriminate].
    destruct (lpc_of s1 g) eqn:Eg1; try discriminate Hr.
    pose proof (linv_step c Hfits s l s1 Hinv E) as Hinv1.
    specialize (IH s1 s' Hinv1 Eg1 Hr). rewrite l_avail_ticks_cons.
    pose proof (lm_sleeper_counted c s g Hinv Hg) as Hw.
    destruct (l_is_tick l) eqn:Et.
    - destruct l; try discriminate Et; unfold lstep in E.
      + (* TickW *) destruct (l_tick s) eqn:Ets; try discriminate E. step_split E. inversion E; subst; clear E. bnorm. subst.
        cbn [l_tick lset_tick lupd lbudget] in IH |- *. replace (0 <? l_waiters s) with true in IH by lia. lia.
      + (* TickA *) destruct (l_tick s) eqn:Ets; try discriminate E. step_split E. inversion E; subst; clear E.
        cbn [l_tick lset_tick lupd lbudget] in IH |- *.
        destruct a.
        * destruct (0 <? w) eqn:Ew; [rewrite Htick in IH; lia|]. destruct (tickc c false true); lia.
        * destruct (tickc c (0 <? w) false); destruct (0 <? w); lia.
      + (* TickFire: the broadcast wakes g *)
        destruct (l_tick s) eqn:Ets; try discriminate E. step_split E. inversion E; subst; clear E.
        rewrite lpc_lset_tick, lpc_lbcast, Hg in Eg1. discriminate Eg1.
      + (* TickEnd *) destruct (l_tick s) eqn:Ets; try discriminate E.
        * step_split E. inversion E; subst; clear E. cbn [l_tick lset_tick lupd lbudget] in IH |- *.
          match goal with H : tickc c _ _ = false |- _ => rewrite H end. lia.
        * inversion E; subst; clear E. cbn [l_tick lset_tick lupd lbudget] in IH |- *. lia.
    - rewrite (lstep_nontick_tick s l s1 Et E) in IH. destruct l; try discriminate Et; lia.
  Qed.

  Lemma lm_fair_heartbeat_wakes g ls s ls' s' :
    lrun c linit ls = Some s -> lpc_of s g = LSleep -> lrun_asleep c g s ls' = Some s' -> (l_avail_ticks ls' <= 2)%nat.
  Proof.
    intros Hr Hg Ha.
    assert (Hinv : linv c s) by (apply (linv_run c Hfits ls linit s); [apply linv_init; exact Hcap|exact Hr]).
    pose proof (lm_asleep_budget g ls' s s' Hinv Hg Ha) as Hb.
    assert (lbudget (l_tick s) <= 2)%nat; [|lia].
    unfold lbudget. destruct (l_tick s) as [|w|w a|]; try lia; [destruct (0 <? w)|destruct (tickc c (0 <? w) a)]; lia.
  Qed.
End LmFair.

(* the wake-up theorem of PoolLm.v in the layered system: the heartbeat that performs the waking steps is running *)
Lemma lm_hb_no_stuck_waiter c h ls s g :
  0 <= cap c -> (forall r, fits c r (cap c) = true -> r <= cap c) -> tickc c true true = true ->
  hb_starts h = true -> hb_forever h = true ->
  lhrun c h lhinit ls = Some s -> lpc_of (h_s s) g = LSleep -> avail c (l_inuse (h_s s)) (cap c) = true ->
  h_hb s = HbRun /\
  exists ls' s', l_nonenv ls' /\ (l_ticks ls' <= 1)%nat /\ lhrun c h s (map HL ls') = Some s' /\ lpc_of (h_s s') g <> LSleep.
Proof.
  intros Hcap Hfits Htick Hst Hf Hr Hg Ha.
  pose proof (lm_sleeper_has_heartbeat c h Hst ls s g Hf Hr Hg) as Hrun. split; [exact Hrun|].
  pose proof (hrun_proj (lstep c) l_is_start l_is_tick h ls lhinit s Hr) as Hb. rewrite <- lrun_brun in Hb. cbn [lhinit h_s] in Hb.
  assert (Hinv : linv c (h_s s)) by (apply (linv_run c Hfits (hproj ls) linit); [apply linv_init; exact Hcap|exact Hb]).
  destruct (lm_no_stuck_waiter c Htick (h_s s) g Hg (lm_sleeper_counted c (h_s s) g Hinv Hg) Ha) as (ls' & b' & Hne & Hti & Hr' & Hp).
  exists ls', (mk_hst HbRun b'). repeat split; try assumption.
  unfold lhrun. apply hrun_lift; [exact Hrun|]. rewrite <- lrun_brun. exact Hr'.
Qed.

(* a heartbeat that has returned: the lost wake-up is final - NO step other than one of the environment is enabled *)
Section LmGone.
  Variable c : pcfg.
  Variable h : hcfg.

  Definition lm_gone_inv (g : Z) (s : hst lst) : Prop :=
    h_hb s = HbGone /\ lpc_of (h_s s) g = LSleep /\ l_bpend (h_s s) = [] /\ (forall g', g' <> g -> lpc_of (h_s s) g' = LIdle).

  Lemma lm_gone_no_step g s l : lm_gone_inv g s -> lh_env l = false -> lhstep c h s l = None.
  Proof.
    intros (Hh & Hg & Hb & Hoth) He. unfold lhstep. destruct l as [l0|]; cbn [hstep]; [|rewrite Hh; reflexivity].
    rewrite Hh. cbn [hb_running negb]. rewrite andb_true_r. destruct (l_is_tick l0) eqn:Et; [reflexivity|].
    assert (Hpc : forall g0, lpc_of (h_s s) g0 = LSleep \/ lpc_of (h_s s) g0 = LIdle).
    { intros g0. destruct (Z.eq_dec g0 g) as [->|Hne]; [left; exact Hg|right; exact (Hoth g0 Hne)]. }
    cbn [lh_env] in He.
    destruct l0; try discriminate He; try discriminate Et; unfold lstep;
      try (match goal with |- context [lpc_of (h_s s) ?g0] => destruct (Hpc g0) as [E|E]; rewrite E; reflexivity end).
    rewrite Hb. reflexivity.
  Qed.

  Lemma lm_gone_stuck g ls : forall s s', lm_gone_inv g s -> lh_nonenv ls -> lhrun c h s ls = Some s' -> s' = s.
  Proof.
    destruct ls as [|l r]; intros s s' Hs Hne Hr; cbn [lhrun hrun] in Hr; [inversion Hr; reflexivity|].
    unfold lh_nonenv in Hne. cbn [forallb] in Hne. apply andb_true_iff in Hne. destruct Hne as [Hl _].
    apply negb_true_iff in Hl. unfold lhrun in Hr. cbn [hrun] in Hr.
    pose proof (lm_gone_no_step g s l Hs Hl) as Hn. unfold lhstep in Hn. rewrite Hn in Hr. discriminate.
  Qed.
End LmGone.

(* ------------------------------------------------------------------------------------------- *)
(* standard pool                                                                                 *)

Lemma gpc_fset (g : Z) (p : gpc) (g' : Z) (thr : list (Z * gpc)) :
  fget GIdle g' (fset g p thr) = if g' =? g then p else fget GIdle g' thr.
Proof. apply fget_fset. Qed.

Section StdHb.
  Variable c : pcfg.
  Variable h : hcfg.
  Hypothesis Hstarts : hb_starts h = true.

  (* before the first get() no getter exists *)
  Definition std_started (s : hst sst) : Prop := h_hb s = HbNone -> forall g, gpc_of (h_s s) g = GIdle.

  Lemma std_started_init : std_started (shinit c).
  Proof. intros _ g. reflexivity. Qed.

  Lemma std_started_step s l s' : std_started s -> shstep c h s l = Some s' -> std_started s'.
  Proof.
    intros Hs H Hn. unfold shstep in H. destruct l as [l0|]; cbn [hstep] in H.
    2:{ destruct (hb_running (h_hb s) && negb (hb_forever h)); [|discriminate]. inversion H; subst. discriminate Hn. }
    destruct (s_is_tick l0 && negb (hb_running (h_hb s))) eqn:Et; [discriminate|].
    destruct (sstep c (h_s s) l0) as [b|] eqn:E; [|discriminate]. inversion H; subst; clear H. cbn [h_hb h_s] in *.
    unfold hb_after in Hn. destruct (h_hb s) eqn:Eh; try discriminate Hn.
    specialize (Hs Eh).
    destruct l0; cbn [s_is_start andb] in Hn; try (rewrite Hstarts in Hn; discriminate Hn);
      try (cbn [s_is_tick hb_running negb andb] in Et; discriminate Et);
      unfold sstep in E;
      try (match type of E with context [gpc_of (h_s s) ?g0] => rewrite (Hs g0) in E; discriminate E end);
      step_split E; inversion E; subst; clear E; intros g'; unfold gpc_of; sst_unfold; try exact (Hs g').
    all: rewrite fget_fmapv by reflexivity; pose proof (Hs g') as Hg'; unfold gpc_of in Hg'; rewrite Hg'; reflexivity.
  Qed.

  Lemma std_started_run ls s : shrun c h (shinit c) ls = Some s -> std_started s.
  Proof.
    unfold shrun. apply (hrun_invariant (sstep c) s_is_start s_is_tick h std_started); [|exact std_started_init].
    intros s0 l s1. apply std_started_step.
  Qed.

  Lemma std_sleeper_has_heartbeat ls s g x :
    hb_forever h = true -> shrun c h (shinit c) ls = Some s -> gpc_of (h_s s) g = GSleep x -> h_hb s = HbRun.
  Proof.
    intros Hf Hr Hg. pose proof (std_started_run ls s Hr) as Hs.
    pose proof (hb_never_gone (sstep c) s_is_start s_is_tick h ls (shinit c) s Hf) as Hng.
    destruct (h_hb s) eqn:Eh; [|reflexivity|].
    - specialize (Hs Eh g). rewrite Hg in Hs. discriminate.
    - exfalso. refine (Hng _ Hr eq_refl). discriminate.
  Qed.
End StdHb.

Lemma std_hb_no_stuck_waiter c h ls s g x :
  tickc c true true = true -> hb_starts h = true -> hb_forever h = true ->
  shrun c h (shinit c) ls = Some s -> gpc_of (h_s s) g = GSleep x -> avail c (s_inuse (h_s s)) (cap c) = true ->
  h_hb s = HbRun /\
  exists ls' s', s_nonenv ls' /\ (s_ticks ls' <= 1)%nat /\ shrun c h s (map HL ls') = Some s' /\ gpc_of (h_s s') g = GWoken x.
Proof.
  intros Htick Hst Hf Hr Hg Ha.
  pose proof (std_sleeper_has_heartbeat c h Hst ls s g x Hf Hr Hg) as Hrun. split; [exact Hrun|].
  pose proof (hrun_proj (sstep c) s_is_start s_is_tick h ls (shinit c) s Hr) as Hb. rewrite <- srun_brun in Hb. cbn [shinit h_s] in Hb.
  pose proof (sinv_reach c (hproj ls) (h_s s) Hb) as Hinv.
  destruct (std_no_stuck_waiter c Htick (h_s s) g x Hg (std_sleeper_counted c (h_s s) g x Hinv Hg) Ha) as (ls' & b' & Hne & Hti & Hr' & Hp).
  exists ls', (mk_hst HbRun b'). repeat split; try assumption.
  unfold shrun. apply hrun_lift; [exact Hrun|]. rewrite <- srun_brun. exact Hr'.
Qed.

Section StdFair.
  Variable c : pcfg.
  Hypothesis Htick : tickc c true true = true.

  Lemma sstep_nontick_tick s l s' : s_is_tick l = false -> sstep c s l = Some s' -> s_tick s' = s_tick s.
  Proof.
    intros Hl H. destruct l; try discriminate Hl; unfold sstep in H; step_split H; inversion H; subst; reflexivity.
  Qed.

  Lemma s_avail_ticks_cons l ls :
    s_avail_ticks (l :: ls) = ((match l with STickA true => 1 | _ => 0 end) + s_avail_ticks ls)%nat.
  Proof. unfold s_avail_ticks. cbn [filter]. destruct l; try reflexivity. destruct a; reflexivity. Qed.

  Lemma std_asleep_budget g ls : forall s s' x,
    sinv c s -> gpc_of s g = GSleep x -> srun_asleep c g s ls = Some s' -> (s_avail_ticks ls <= lbudget c (s_tick s))%nat.
  Proof.
    induction ls as [|l r IH]; intros s s' x Hinv Hg Hr; [cbn; lia|].
    cbn [srun_asleep] in Hr. destruct (sstep c s l) as [s1|] eqn:E; [|discriminate].
    destruct (gpc_of s1 g) eqn:Eg1; try discriminate Hr.
    pose proof (sinv_step c s l s1 Hinv E) as Hinv1.
    specialize (IH s1 s' _ Hinv1 Eg1 Hr). rewrite s_avail_ticks_cons.
    pose proof (std_sleeper_counted c s g x Hinv Hg) as Hw.
    destruct (s_is_tick l) eqn:Et.
    - destruct l; try discriminate Et; unfold sstep in E.
      + destruct (s_tick s) eqn:Ets; try discriminate E. step_split E. inversion E; subst; clear E. bnorm. subst.
        cbn [s_tick sset_tick supd lbudget] in IH |- *. replace (0 <? s_waiters s) with true in IH by lia. lia.
      + destruct (s_tick s) eqn:Ets; try discriminate E. step_split E. inversion E; subst; clear E.
        cbn [s_tick sset_tick supd lbudget] in IH |- *.
        destruct a.
        * destruct (0 <? w) eqn:Ew; [rewrite Htick in IH; lia|]. destruct (tickc c false true); lia.
        * destruct (tickc c (0 <? w) false); destruct (0 <? w); lia.
      + destruct (s_tick s) eqn:Ets; try discriminate E. step_split E. inversion E; subst; clear E.
        rewrite gpc_sset_tick, gpc_sbcast, Hg in Eg1. discriminate Eg1.
      + destruct (s_tick s) eqn:Ets; try discriminate E.
        * step_split E. inversion E; subst; clear E. cbn [s_tick sset_tick supd lbudget] in IH |- *.
          match goal with H : tickc c _ _ = false |- _ => rewrite H end. lia.
        * inversion E; subst; clear E. cbn [s_tick sset_tick supd lbudget] in IH |- *. lia.
    - rewrite (sstep_nontick_tick s l s1 Et E) in IH. destruct l; try discriminate Et; lia.
  Qed.

  Lemma std_fair_heartbeat_wakes g x ls s ls' s' :
    srun c (sinit c) ls = Some s -> gpc_of s g = GSleep x -> srun_asleep c g s ls' = Some s' -> (s_avail_ticks ls' <= 2)%nat.
  Proof.
    intros Hr Hg Ha.
    pose proof (std_asleep_budget g ls' s s' x (sinv_reach c ls s Hr) Hg Ha) as Hb.
    assert (lbudget c (s_tick s) <= 2)%nat; [|lia].
    unfold lbudget. destruct (s_tick s) as [|w|w a|]; try lia; [destruct (0 <? w)|destruct (tickc c (0 <? w) a)]; lia.
  Qed.
End StdFair.
