(* Proofs about Model/DoIf.v: the code's short-cuts compute the documented meaning. *)
From Verif Require Import Base.Sx Base.GoSem Base.Json Model.DoIf.
From Coq Require Import Lia ZifyBool Permutation.

(* ---- booleans over lists ----------------------------------------------------------------- *)
Lemma any_of_existsb {A} (f : A -> bool) l : any_of f l = existsb f l.
Proof. induction l as [|x r IH]; cbn [any_of existsb]; [reflexivity|]. rewrite IH. destruct (f x); reflexivity. Qed.

Lemma any_of_match {A} (f : A -> bool) l :
  match l with [] => false | c :: b => any_of f (c :: b) end = any_of f l.
Proof. destruct l; reflexivity. Qed.

Lemma existsb_filter {A} (p q : A -> bool) l :
  existsb p (filter q l) = existsb (fun c => q c && p c) l.
Proof.
  induction l as [|x r IH]; cbn [filter existsb]; [reflexivity|].
  destruct (q x); cbn [existsb andb]; rewrite IH; reflexivity.
Qed.

Lemma existsb_map' {A B} (p : B -> bool) (g : A -> B) l :
  existsb p (map g l) = existsb (fun x => p (g x)) l.
Proof. induction l as [|x r IH]; cbn [map existsb]; [reflexivity|]. rewrite IH. reflexivity. Qed.

Lemma existsb_ext_in {A} (p q : A -> bool) l :
  (forall x, In x l -> p x = q x) -> existsb p l = existsb q l.
Proof.
  induction l as [|x r IH]; intros H; cbn [existsb]; [reflexivity|].
  rewrite (H x (or_introl eq_refl)). rewrite IH; [reflexivity|].
  intros y Hy. apply H. right. exact Hy.
Qed.

Lemma forallb_ext_in {A} (p q : A -> bool) l :
  (forall x, In x l -> p x = q x) -> forallb p l = forallb q l.
Proof.
  induction l as [|x r IH]; intros H; cbn [forallb]; [reflexivity|].
  rewrite (H x (or_introl eq_refl)). rewrite IH; [reflexivity|].
  intros y Hy. apply H. right. exact Hy.
Qed.

Lemma existsb_false_in {A} (p : A -> bool) l :
  (forall x, In x l -> p x = false) -> existsb p l = false.
Proof.
  induction l as [|x r IH]; intros H; cbn [existsb]; [reflexivity|].
  rewrite (H x (or_introl eq_refl)). apply IH. intros y Hy. apply H. right. exact Hy.
Qed.

Lemma existsb_perm {A} (p : A -> bool) l l' : Permutation l l' -> existsb p l = existsb p l'.
Proof.
  induction 1 as [|x l l' _ IH|x y l|l l' l'' _ IH1 _ IH2]; cbn [existsb].
  - reflexivity.
  - rewrite IH. reflexivity.
  - destruct (p x), (p y); reflexivity.
  - rewrite IH1. exact IH2.
Qed.

Lemma forallb_perm {A} (p : A -> bool) l l' : Permutation l l' -> forallb p l = forallb p l'.
Proof.
  induction 1 as [|x l l' _ IH|x y l|l l' l'' _ IH1 _ IH2]; cbn [forallb].
  - reflexivity.
  - rewrite IH. reflexivity.
  - destruct (p x), (p y); reflexivity.
  - rewrite IH1. exact IH2.
Qed.

(* ---- byte strings ------------------------------------------------------------------------ *)
Lemma N_eqb_list_eq a : forall b, N_eqb_list a b = true <-> a = b.
Proof.
  induction a as [|x a IH]; intros [|y b]; cbn [N_eqb_list]; split; intros H; try reflexivity; try discriminate.
  - apply andb_true_iff in H. destruct H as [H1 H2]. apply N.eqb_eq in H1. apply IH in H2. subst. reflexivity.
  - injection H as -> ->. rewrite N.eqb_refl. cbn [andb]. apply IH. reflexivity.
Qed.

Lemma bytes_eqb_eq a b : bytes_eqb a b = true <-> a = b.
Proof. apply N_eqb_list_eq. Qed.

Lemma bytes_eqb_refl a : bytes_eqb a a = true.
Proof. apply bytes_eqb_eq. reflexivity. Qed.

Lemma len_nonneg {A} (l : list A) : 0 <= len l.
Proof. unfold len. lia. Qed.

Lemma len_nil_inv {A} (l : list A) : len l = 0 -> l = [].
Proof. unfold len. destruct l; cbn [length]; [reflexivity|lia]. Qed.

Lemma has_prefix_length l : forall p, has_prefix l p = true -> (length p <= length l)%nat.
Proof.
  induction l as [|b l IH]; intros [|a p] H; cbn [has_prefix length] in *; try lia; try discriminate.
  apply andb_true_iff in H. destruct H as [_ H]. apply IH in H. lia.
Qed.

Lemma has_prefix_firstn k : forall l p, (length p <= k)%nat -> has_prefix (firstn k l) p = has_prefix l p.
Proof.
  induction k as [|k IH]; intros l p Hk.
  - destruct p; [|cbn [length] in Hk; lia]. destruct l; reflexivity.
  - destruct p as [|a p]; [destruct l; reflexivity|].
    destruct l as [|b l]; [reflexivity|]. cbn [firstn has_prefix].
    rewrite IH; [reflexivity|]. cbn [length] in Hk. lia.
Qed.

Lemma has_suffix_length l s : has_suffix l s = true -> (length s <= length l)%nat.
Proof. unfold has_suffix. intros H. apply has_prefix_length in H. rewrite !rev_length in H. exact H. Qed.

Lemma rev_lastn {A} k (l : list A) : rev (lastn k l) = firstn k (rev l).
Proof. unfold lastn. rewrite firstn_rev. reflexivity. Qed.

Lemma has_suffix_lastn k l s : (length s <= k)%nat -> has_suffix (lastn k l) s = has_suffix l s.
Proof.
  intros Hk. unfold has_suffix. rewrite rev_lastn. apply has_prefix_firstn. rewrite rev_length. exact Hk.
Qed.

Lemma index_sub_from_length l needle : forall i, 0 <= i -> 0 <= index_sub_from l needle i ->
  (length needle <= length l)%nat.
Proof.
  induction l as [|x r IH]; intros i Hi H; cbn [index_sub_from] in H.
  - destruct (has_prefix [] needle) eqn:Hp; [apply has_prefix_length in Hp; exact Hp|lia].
  - destruct (has_prefix (x :: r) needle) eqn:Hp; [apply has_prefix_length in Hp; exact Hp|].
    cbn [length]. assert (length needle <= length r)%nat by (apply (IH (i + 1)); [lia|exact H]). lia.
Qed.

Lemma contains_length l needle : contains l needle = true -> (length needle <= length l)%nat.
Proof.
  unfold contains, index_sub. intros H. apply (index_sub_from_length l needle 0); lia.
Qed.

(* ---- minValLen / maxValLen ---------------------------------------------------------------- *)
Lemma fold_min_le (g : option bytes -> Z) l : forall a,
  fold_left (fun m x => Z.min m (g x)) l a <= a /\
  (forall x, In x l -> fold_left (fun m x => Z.min m (g x)) l a <= g x).
Proof.
  induction l as [|y r IH]; intros a; cbn [fold_left].
  - split; [lia|intros x []].
  - destruct (IH (Z.min a (g y))) as [H1 H2]. split; [lia|].
    intros x [->|Hx]; [lia|apply H2; exact Hx].
Qed.

Lemma fold_max_ge (g : option bytes -> Z) l : forall a,
  a <= fold_left (fun m x => Z.max m (g x)) l a /\
  (forall x, In x l -> g x <= fold_left (fun m x => Z.max m (g x)) l a).
Proof.
  induction l as [|y r IH]; intros a; cbn [fold_left].
  - split; [lia|intros x []].
  - destruct (IH (Z.max a (g y))) as [H1 H2]. split; [lia|].
    intros x [->|Hx]; [lia|apply H2; exact Hx].
Qed.

Lemma fold_min_in (g : option bytes -> Z) l : forall a,
  fold_left (fun m x => Z.min m (g x)) l a = a \/
  exists x, In x l /\ fold_left (fun m x => Z.min m (g x)) l a = g x.
Proof.
  induction l as [|y r IH]; intros a; cbn [fold_left]; [left; reflexivity|].
  destruct (IH (Z.min a (g y))) as [H|[x [Hx H]]].
  - destruct (Z.min_spec a (g y)) as [[_ E]|[_ E]].
    + left. rewrite H. exact E.
    + right. exists y. split; [left; reflexivity|]. rewrite H. exact E.
  - right. exists x. split; [right; exact Hx|exact H].
Qed.

Lemma fold_max_in (g : option bytes -> Z) l : forall a,
  fold_left (fun m x => Z.max m (g x)) l a = a \/
  exists x, In x l /\ fold_left (fun m x => Z.max m (g x)) l a = g x.
Proof.
  induction l as [|y r IH]; intros a; cbn [fold_left]; [left; reflexivity|].
  destruct (IH (Z.max a (g y))) as [H|[x [Hx H]]].
  - destruct (Z.max_spec a (g y)) as [[_ E]|[_ E]].
    + right. exists y. split; [left; reflexivity|]. rewrite H. exact E.
    + left. rewrite H. exact E.
  - right. exists x. split; [right; exact Hx|exact H].
Qed.

Lemma min_len_le v0 vr v : In v (v0 :: vr) -> min_len v0 vr <= vlen v.
Proof.
  unfold min_len. destruct (fold_min_le vlen vr (vlen v0)) as [H1 H2].
  intros [<-|Hv]; [exact H1|apply H2; exact Hv].
Qed.

Lemma max_len_ge v0 vr v : In v (v0 :: vr) -> vlen v <= max_len v0 vr.
Proof.
  unfold max_len. destruct (fold_max_ge vlen vr (vlen v0)) as [H1 H2].
  intros [<-|Hv]; [exact H1|apply H2; exact Hv].
Qed.

Lemma min_len_in v0 vr : exists v, In v (v0 :: vr) /\ min_len v0 vr = vlen v.
Proof.
  unfold min_len. destruct (fold_min_in vlen vr (vlen v0)) as [H|[x [Hx H]]].
  - exists v0. split; [left; reflexivity|exact H].
  - exists x. split; [right; exact Hx|exact H].
Qed.

Lemma max_len_in v0 vr : exists v, In v (v0 :: vr) /\ max_len v0 vr = vlen v.
Proof.
  unfold max_len. destruct (fold_max_in vlen vr (vlen v0)) as [H|[x [Hx H]]].
  - exists v0. split; [left; reflexivity|exact H].
  - exists x. split; [right; exact Hx|exact H].
Qed.

Lemma vlen_nonneg v : 0 <= vlen v.
Proof. unfold vlen. apply len_nonneg. Qed.

Lemma max_len_nonneg v0 vr : 0 <= max_len v0 vr.
Proof. pose proof (max_len_ge v0 vr v0 (or_introl eq_refl)). pose proof (vlen_nonneg v0). lia. Qed.

Lemma min_len_perm v0 vr w0 wr : Permutation (v0 :: vr) (w0 :: wr) -> min_len v0 vr = min_len w0 wr.
Proof.
  intros HP.
  destruct (min_len_in v0 vr) as [a [Ha Ea]]. destruct (min_len_in w0 wr) as [b [Hb Eb]].
  pose proof (min_len_le v0 vr b (Permutation_in _ (Permutation_sym HP) Hb)).
  pose proof (min_len_le w0 wr a (Permutation_in _ HP Ha)). lia.
Qed.

Lemma max_len_perm v0 vr w0 wr : Permutation (v0 :: vr) (w0 :: wr) -> max_len v0 vr = max_len w0 wr.
Proof.
  intros HP.
  destruct (max_len_in v0 vr) as [a [Ha Ea]]. destruct (max_len_in w0 wr) as [b [Hb Eb]].
  pose proof (max_len_ge v0 vr b (Permutation_in _ (Permutation_sym HP) Hb)).
  pose proof (max_len_ge w0 wr a (Permutation_in _ HP Ha)). lia.
Qed.

(* ---- induction over rule trees of any width ------------------------------------------------ *)
Section NodeInd.
  Variable P : node -> Prop.
  Hypothesis HField : forall op path cs v0 vr, P (NField op path cs v0 vr).
  Hypothesis HLen : forall op path c v, P (NLen op path c v).
  Hypothesis HTs : forall path format c mode shift, P (NTs path format c mode shift).
  Hypothesis HType : forall path types, P (NType path types).
  Hypothesis HAnd : forall ops, Forall P ops -> P (NAnd ops).
  Hypothesis HOr : forall ops, Forall P ops -> P (NOr ops).
  Hypothesis HNot : forall x, P x -> P (NNot x).
  Fixpoint node_ind' (n : node) : P n :=
    match n with
    | NField op path cs v0 vr => HField op path cs v0 vr
    | NLen op path c v => HLen op path c v
    | NTs path format c mode shift => HTs path format c mode shift
    | NType path types => HType path types
    | NAnd ops => HAnd ops ((fix go (l : list node) : Forall P l :=
                               match l with [] => Forall_nil P | x :: r => Forall_cons x (node_ind' x) (go r) end) ops)
    | NOr ops => HOr ops ((fix go (l : list node) : Forall P l :=
                             match l with [] => Forall_nil P | x :: r => Forall_cons x (node_ind' x) (go r) end) ops)
    | NNot x => HNot x (node_ind' x)
    end.
End NodeInd.

Section JsonInd.
  Variable P : json -> Prop.
  Hypothesis HNull : P JNull.
  Hypothesis HBool : forall b, P (JBool b).
  Hypothesis HNum : forall r, P (JNum r).
  Hypothesis HStr : forall s, P (JStr s).
  Hypothesis HArr : forall l, Forall P l -> P (JArr l).
  Hypothesis HObj : forall fs, Forall (fun kv => P (snd kv)) fs -> P (JObj fs).
  Fixpoint json_ind' (j : json) : P j :=
    match j with
    | JNull => HNull
    | JBool b => HBool b
    | JNum r => HNum r
    | JStr s => HStr s
    | JArr l => HArr l ((fix go (l : list json) : Forall P l :=
                           match l with [] => Forall_nil P | x :: r => Forall_cons x (json_ind' x) (go r) end) l)
    | JObj fs => HObj fs ((fix go (l : list (bytes * json)) : Forall (fun kv => P (snd kv)) l :=
                             match l with
                             | [] => Forall_nil _
                             | (k, v) :: r => Forall_cons (k, v) (json_ind' v) (go r)
                             end) fs)
    end.
End JsonInd.

(* ---- byte_len_cmp: the computed size is the length of the compact text -------------------- *)
Definition sum_len (l : list bytes) : Z := fold_right (fun x a => len x + a) 0 l.

Lemma len_app {A} (a b : list A) : len (a ++ b) = len a + len b.
Proof. unfold len. rewrite app_length. lia. Qed.

Lemma len_cons {A} (x : A) l : len (x :: l) = 1 + len l.
Proof. unfold len. cbn [length]. lia. Qed.

Lemma len_nil {A} : len (@nil A) = 0.
Proof. reflexivity. Qed.

Lemma join_comma_len l : len (join_comma l) = sum_len l + commas (len l).
Proof.
  induction l as [|x r IH]; [reflexivity|].
  destruct r as [|y r'].
  - cbn [join_comma sum_len fold_right]. change (len [x]) with 1. change (commas 1) with 0. lia.
  - change (join_comma (x :: y :: r')) with (x ++ 44%N :: join_comma (y :: r')).
    rewrite len_app, len_cons, IH. cbn [sum_len fold_right]. fold (sum_len (y :: r')).
    unfold commas. rewrite !len_cons. pose proof (len_nonneg r').
    destruct (1 + len r' =? 0) eqn:E1; [lia|]. destruct (1 + (1 + len r') =? 0) eqn:E2; lia.
Qed.

Theorem byte_size_spec : forall j, byte_size j = len (encode j).
Proof.
  induction j as [| b | r | s | l IH | fs IH] using json_ind'; try reflexivity.
  - (* string *) cbn [byte_size encode]. unfold quote. rewrite len_cons, len_app, len_cons, len_nil. lia.
  - (* array *)
    cbn [byte_size encode]. rewrite len_cons, len_app, join_comma_len.
    set (enc := (fix go (l : list json) : list bytes := match l with [] => [] | x :: r => encode x :: go r end)).
    set (sz := (fix go (l : list json) : Z := match l with [] => 0 | x :: r => byte_size x + go r end)).
    assert (H : sz l = sum_len (enc l) /\ len (enc l) = len l).
    { induction IH as [|x r Hx _ IHr]; [split; reflexivity|].
      destruct IHr as [E1 E2]. cbn [sz enc]. fold sz. fold enc. cbn [sum_len fold_right]. fold (sum_len (enc r)).
      rewrite !len_cons. split; lia. }
    destruct H as [E1 E2]. rewrite E1, E2, len_cons, len_nil. lia.
  - (* object *)
    cbn [byte_size encode]. rewrite len_cons, len_app, join_comma_len.
    set (enc := (fix go (fs : list (bytes * json)) : list bytes :=
                   match fs with [] => [] | (k, v) :: r => (quote k ++ 58%N :: encode v) :: go r end)).
    set (sz := (fix go (fs : list (bytes * json)) : Z :=
                  match fs with [] => 0 | (k, v) :: r => len k + 2 + 1 + byte_size v + go r end)).
    assert (H : sz fs = sum_len (enc fs) /\ len (enc fs) = len fs).
    { induction IH as [|[k v] r Hx _ IHr]; [split; reflexivity|].
      destruct IHr as [E1 E2]. cbn [sz enc]. fold sz. fold enc. cbn [sum_len fold_right]. fold (sum_len (enc r)).
      cbn [snd] in Hx. rewrite !len_cons, len_app, len_cons. unfold quote. rewrite len_cons, len_app, len_cons.
      rewrite len_nil. split; lia. }
    destruct H as [E1 E2]. rewrite E1, E2, len_cons, len_nil. lia.
Qed.

Definition fop_eq_dec (a b : fop) : {a = b} + {a <> b}.
Proof. decide equality. Defined.

Section Main.
  Variable lower : bytes -> bytes.
  Variable re_match : bytes -> bytes -> bool.
  Variable go_contains_any : bytes -> bytes -> bool.
  Variable parse_time : bytes -> bytes -> option Z.
  Variable as_int : bytes -> Z.
  Variable re_ok : bytes -> bool.

  Notation fcheck := (field_check lower re_match go_contains_any).
  Notation feval := (field_eval lower re_match go_contains_any).
  Notation checkM := (check lower re_match go_contains_any parse_time as_int).
  Notation evalM := (eval lower re_match go_contains_any parse_time as_int).

  Definition fd_of (d : option bytes) : fdata := match d with None => FAbsent | Some b => FBytes b end.

  (* per-value predicate the loops of fieldOpNode.Check test, as one existsb *)
  Definition Q (op : fop) (cs : bool) (m : Z) (d : option bytes) (v : option bytes) : bool :=
    let c := cval lower cs v in
    let x := bytes_of d in
    match op with
    | FEqual =>
        (vlen c =? vlen d)
        && opt_eqb (if cs then d else match d with Some y => Some (lower y) | None => None end) c
    | FContains => contains (low lower cs x) (bytes_of c)
    | FContainsAny => go_contains_any (low lower cs x) (bytes_of c)
    | FPrefix => has_prefix (low lower cs (if len x >? m then firstn (Z.to_nat m) x else x)) (bytes_of c)
    | FSuffix => has_suffix (low lower cs (if len x >? m then lastn (Z.to_nat m) x else x)) (bytes_of c)
    | FRegex => re_match (bytes_of v) x
    end.

  Lemma field_check_normal op cs v0 vr d :
    op <> FContainsAny ->
    fcheck op cs v0 vr d =
      if match op with FRegex => false | _ => vlen d <? min_len v0 vr end then false
      else existsb (Q op cs (max_len v0 vr) d) (v0 :: vr).
  Proof.
    intros Hop. unfold field_check.
    destruct op; try (exfalso; apply Hop; reflexivity); cbv beta iota zeta;
      try match goal with |- (if ?g then _ else _) = _ => destruct g; [reflexivity|] end.
    - (* equal *)
      rewrite (any_of_match (fun c => opt_eqb _ c)), any_of_existsb, existsb_filter, existsb_map'.
      reflexivity.
    - rewrite any_of_existsb, existsb_map'. reflexivity.
    - rewrite any_of_existsb, existsb_map'. reflexivity.
    - rewrite any_of_existsb, existsb_map'. reflexivity.
    - rewrite any_of_existsb. reflexivity.
  Qed.

  (* the field-operation leaf: buckets, minimum-length exit and truncation are sound *)
  Lemma field_core op cs v0 vr d :
    (op = FContainsAny -> vr = [] /\ exists b, v0 = Some b) ->
    fhyp lower op cs v0 vr (bytes_of d) = true ->
    fcheck op cs v0 vr d = feval op cs (v0 :: vr) (fd_of d).
  Proof.
    intros Hany Hh.
    unfold fhyp in Hh. apply andb_true_iff in Hh. destruct Hh as [Hh Ht].
    apply andb_true_iff in Hh. destruct Hh as [Hx Hv].
    apply Z.eqb_eq in Hx. rewrite forallb_forall in Hv.
    assert (Hv' : forall v, In v (v0 :: vr) -> len (low lower cs (bytes_of v)) = vlen v).
    { intros v Hin. apply Z.eqb_eq. apply Hv. exact Hin. }
    clear Hv.
    assert (Hbc : forall v, In v (v0 :: vr) -> bytes_of (cval lower cs v) = low lower cs (bytes_of v)).
    { intros [b|] Hin; [reflexivity|]. cbn [cval bytes_of]. symmetry. apply len_nil_inv.
      exact (Hv' None Hin). }
    assert (Hx' : bytes_of d = match fd_of d with FBytes b => b | _ => [] end) by (destruct d; reflexivity).
    assert (Hfd : fd_of d <> FContainer) by (destruct d; discriminate).
    destruct (fop_eq_dec op FContainsAny) as [->|Hop].
    - (* contains_any: exactly one value *)
      destruct (Hany eq_refl) as [-> [b ->]]. unfold field_check, field_eval.
      destruct d as [y|]; cbn [fd_of bytes_of cval existsb]; rewrite orb_false_r; reflexivity.
    - rewrite (field_check_normal op cs v0 vr d Hop).
      assert (Hguard : forall v, In v (v0 :: vr) -> Q op cs (max_len v0 vr) d v = true -> op <> FRegex ->
                                 min_len v0 vr <= vlen d).
      { intros v Hin HQ Hre. pose proof (min_len_le v0 vr v Hin) as Hmin.
        enough (vlen v <= vlen d) by lia.
        pose proof (max_len_ge v0 vr v Hin) as Hmax. pose proof (max_len_nonneg v0 vr) as Hm0.
        unfold Q in HQ. rewrite (Hbc v Hin) in HQ.
        assert (Hvl : vlen (cval lower cs v) = vlen v).
        { unfold vlen at 1. rewrite (Hbc v Hin). apply Hv'. exact Hin. }
        destruct op; try (exfalso; apply Hre; reflexivity); try (exfalso; apply Hop; reflexivity).
        - apply andb_true_iff in HQ. destruct HQ as [HQ _]. apply Z.eqb_eq in HQ. lia.
        - apply contains_length in HQ. rewrite <- (Hv' v Hin). unfold vlen. rewrite <- Hx. unfold len. lia.
        - apply has_prefix_length in HQ. rewrite <- (Hv' v Hin).
          destruct (len (bytes_of d) >? max_len v0 vr) eqn:Hc.
          + assert (Hl : len (low lower cs (firstn (Z.to_nat (max_len v0 vr)) (bytes_of d))) <= vlen d).
            { destruct cs; cbn [low].
              - unfold len, vlen, len. rewrite firstn_length. lia.
              - apply bytes_eqb_eq in Ht. cbn [low] in Ht. rewrite Ht. unfold len, vlen, len.
                rewrite firstn_length. cbn [low] in Hx. unfold len in Hx. lia. }
            unfold len in *. lia.
          + unfold vlen. rewrite <- Hx. unfold len. lia.
        - apply has_suffix_length in HQ. rewrite <- (Hv' v Hin).
          destruct (len (bytes_of d) >? max_len v0 vr) eqn:Hc.
          + assert (Hl : len (low lower cs (lastn (Z.to_nat (max_len v0 vr)) (bytes_of d))) <= vlen d).
            { destruct cs; cbn [low].
              - unfold len, vlen, len, lastn. rewrite skipn_length. lia.
              - apply bytes_eqb_eq in Ht. cbn [low] in Ht. rewrite Ht. unfold len, vlen, len, lastn.
                rewrite skipn_length. cbn [low] in Hx. unfold len in Hx. lia. }
            unfold len in *. lia.
          + unfold vlen. rewrite <- Hx. unfold len. lia. }
      (* the existsb of the code and the existsb of the documentation agree value by value *)
      assert (Hpoint : forall v, In v (v0 :: vr) ->
                Q op cs (max_len v0 vr) d v =
                match op with
                | FEqual => match fd_of d, v with
                            | FAbsent, None => true
                            | FBytes b, Some y => bytes_eqb (low lower cs b) (low lower cs y)
                            | _, _ => false
                            end
                | FContains => contains (low lower cs (bytes_of d)) (low lower cs (bytes_of v))
                | FContainsAny => go_contains_any (low lower cs (bytes_of d)) (low lower cs (bytes_of v))
                | FPrefix => has_prefix (low lower cs (bytes_of d)) (low lower cs (bytes_of v))
                | FSuffix => has_suffix (low lower cs (bytes_of d)) (low lower cs (bytes_of v))
                | FRegex => re_match (bytes_of v) (bytes_of d)
                end).
      { intros v Hin. unfold Q. rewrite (Hbc v Hin).
        pose proof (max_len_ge v0 vr v Hin) as Hmax. pose proof (max_len_nonneg v0 vr) as Hm0.
        pose proof (Hv' v Hin) as Hlv.
        destruct op; try reflexivity.
        - (* equal *)
          destruct d as [y|], v as [w|]; cbn [fd_of cval vlen bytes_of opt_eqb].
          + assert (E : (if cs then Some y else Some (lower y)) = Some (low lower cs y)) by (destruct cs; reflexivity).
            rewrite E. cbn [opt_eqb].
            destruct (bytes_eqb (low lower cs y) (low lower cs w)) eqn:Hb; [|apply andb_false_r].
            apply bytes_eqb_eq in Hb. unfold vlen. cbn [bytes_of] in Hx |- *.
            rewrite <- Hb, Hx, Z.eqb_refl. reflexivity.
          + destruct cs; cbn [opt_eqb]; apply andb_false_r.
          + destruct cs; cbn [opt_eqb]; apply andb_false_r.
          + destruct cs; reflexivity.
        - (* prefix *)
          destruct (len (bytes_of d) >? max_len v0 vr) eqn:Hc; [|reflexivity].
          assert (E : low lower cs (firstn (Z.to_nat (max_len v0 vr)) (bytes_of d))
                      = firstn (Z.to_nat (max_len v0 vr)) (low lower cs (bytes_of d))).
          { destruct cs; [reflexivity|]. apply bytes_eqb_eq. exact Ht. }
          rewrite E. apply has_prefix_firstn. unfold len in Hlv. lia.
        - (* suffix *)
          destruct (len (bytes_of d) >? max_len v0 vr) eqn:Hc; [|reflexivity].
          assert (E : low lower cs (lastn (Z.to_nat (max_len v0 vr)) (bytes_of d))
                      = lastn (Z.to_nat (max_len v0 vr)) (low lower cs (bytes_of d))).
          { destruct cs; [reflexivity|]. apply bytes_eqb_eq. exact Ht. }
          rewrite E. apply has_suffix_lastn. unfold len in Hlv. lia. }
      assert (Hev : feval op cs (v0 :: vr) (fd_of d) = existsb (Q op cs (max_len v0 vr) d) (v0 :: vr)).
      { unfold field_eval. destruct d as [y|]; cbn [fd_of bytes_of] in Hpoint |- *; symmetry;
          (destruct op; [| | exfalso; apply Hop; reflexivity | | |]);
          apply existsb_ext_in; intros v Hin; rewrite (Hpoint v Hin); reflexivity. }
      rewrite Hev.
      destruct (match op with FRegex => false | _ => vlen d <? min_len v0 vr end) eqn:Hg; [|reflexivity].
      symmetry. apply existsb_false_in. intros v Hin.
      destruct (Q op cs (max_len v0 vr) d v) eqn:HQ; [|reflexivity]. exfalso.
      assert (Hre : op <> FRegex) by (intros ->; discriminate).
      pose proof (Hguard v Hin HQ Hre). destruct op; try lia; try (apply Hre; reflexivity).
  Qed.

  Lemma get_fget e path :
    match fget e path with
    | FContainer => get e path = Some [0%N]
    | fd => fd = fd_of (get e path)
    end.
  Proof. unfold get, fget. destruct (jdig e path) as [[| b | r | s | l | fs]|]; reflexivity. Qed.

  (* the loops of logicalNode.Check *)
  Lemma check_and ops e now : checkM (NAnd ops) e now = forallb (fun x => checkM x e now) ops.
  Proof.
    cbn [check]. induction ops as [|x r IH]; [reflexivity|]. cbn [forallb]. rewrite <- IH.
    destruct (checkM x e now); reflexivity.
  Qed.

  Lemma check_or ops e now : checkM (NOr ops) e now = existsb (fun x => checkM x e now) ops.
  Proof.
    cbn [check]. induction ops as [|x r IH]; [reflexivity|]. cbn [existsb]. rewrite <- IH.
    destruct (checkM x e now); reflexivity.
  Qed.

  Lemma jtype_eqb_eq a b : jtype_eqb a b = true -> a = b.
  Proof. destruct a, b; cbn [jtype_eqb]; intros H; try reflexivity; discriminate. Qed.

  Lemma dedup_existsb (p : jtype -> bool) l : forall seen,
    existsb p (dedup seen l) || existsb p seen = existsb p l || existsb p seen.
  Proof.
    induction l as [|t r IH]; intros seen; cbn [dedup existsb]; [reflexivity|].
    destruct (existsb (jtype_eqb t) seen) eqn:Hs.
    - rewrite IH. destruct (p t) eqn:Hp; [|reflexivity].
      apply existsb_exists in Hs. destruct Hs as [s [Hin Hs]]. apply jtype_eqb_eq in Hs. subst s.
      assert (E : existsb p seen = true) by (apply existsb_exists; exists t; split; assumption).
      rewrite E, !orb_true_r. reflexivity.
    - cbn [existsb]. specialize (IH (t :: seen)). cbn [existsb] in IH.
      destruct (p t); [reflexivity|]. cbn [orb] in IH |- *. exact IH.
  Qed.

  Lemma dedup_existsb_nil (p : jtype -> bool) l : existsb p (dedup [] l) = existsb p l.
  Proof. pose proof (dedup_existsb p l []) as H. cbn [existsb] in H. rewrite !orb_false_r in H. exact H. Qed.

  Lemma wfb_ops ops : match ops with [] => false | _ :: _ => forallb (wfb re_ok) ops end = true ->
    forall x, In x ops -> wfb re_ok x = true.
  Proof. destruct ops; [discriminate|]. intros H. apply forallb_forall. exact H. Qed.

  (* THE refinement: for rule trees of any depth and width the decision computed with buckets,
     length exits, truncation-before-lower-casing, de-duplicated type lists and short-circuit loops
     is the documented one, provided [lower] behaves on the strings of this rule and event
     ([lower_hyp]) and no array/object field is matched through its placeholder ([cont_ok]). *)
  Theorem check_eq_eval : forall n e now,
    wfb re_ok n = true ->
    lower_hyp lower n e = true ->
    cont_ok lower re_match go_contains_any n e = true ->
    checkM n e now = evalM n e now.
  Proof.
    intros n e now. induction n as [op path cs v0 vr | op path c v | path format c mode shift | path types
                                    | ops IH | ops IH | x IH] using node_ind'; intros Hwf Hh Hc.
    - (* field operation *)
      cbn [check eval]. cbn [wfb] in Hwf. cbn [lower_hyp] in Hh. cbn [cont_ok] in Hc.
      assert (Hctor : op = FContainsAny -> vr = [] /\ exists b, v0 = Some b).
      { intros ->. destruct vr; [|discriminate]. destruct v0 as [[|b0 b]|]; try discriminate.
        split; [reflexivity|]. eexists. reflexivity. }
      pose proof (get_fget e path) as Hg.
      destruct (fget e path) as [|b|] eqn:Ef.
      + destruct (get e path) as [b|]; [discriminate Hg|].
        apply (field_core op cs v0 vr None Hctor). exact Hh.
      + destruct (get e path) as [b'|]; [|discriminate Hg]. cbn [fd_of] in Hg. injection Hg as ->.
        apply (field_core op cs v0 vr (Some b') Hctor). exact Hh.
      + rewrite Hg. cbn [field_eval]. apply negb_true_iff in Hc. exact Hc.
    - (* length / integer comparison *)
      cbn [check eval]. unfold len_check. f_equal. unfold len_value. destruct op; try reflexivity.
      destruct (jdig e path) as [[| b | r | s | l | fs]|]; try reflexivity; rewrite byte_size_spec; reflexivity.
    - reflexivity.
    - (* type check: duplicates in the list change nothing *)
      cbn [check eval]. rewrite any_of_existsb. apply dedup_existsb_nil.
    - rewrite check_and. cbn [eval]. cbn [wfb] in Hwf. cbn [lower_hyp] in Hh. cbn [cont_ok] in Hc.
      rewrite forallb_forall in Hh, Hc. rewrite Forall_forall in IH.
      apply forallb_ext_in. intros x Hx. apply IH; [exact Hx|apply (wfb_ops ops Hwf x Hx)|apply Hh; exact Hx|apply Hc; exact Hx].
    - rewrite check_or. cbn [eval]. cbn [wfb] in Hwf. cbn [lower_hyp] in Hh. cbn [cont_ok] in Hc.
      rewrite forallb_forall in Hh, Hc. rewrite Forall_forall in IH.
      apply existsb_ext_in. intros x Hx. apply IH; [exact Hx|apply (wfb_ops ops Hwf x Hx)|apply Hh; exact Hx|apply Hc; exact Hx].
    - cbn [check eval]. f_equal. apply IH; assumption.
  Qed.

  (* sufficient global conditions on [lower] (true of any byte-wise map) *)
  Section Global.
    Hypothesis lower_len : forall x, length (lower x) = length x.
    Hypothesis lower_firstn : forall k x, lower (firstn k x) = firstn k (lower x).
    Hypothesis lower_skipn : forall k x, lower (skipn k x) = skipn k (lower x).

    Lemma fhyp_global op cs v0 vr x : fhyp lower op cs v0 vr x = true.
    Proof.
      unfold fhyp. destruct cs; cbn [low].
      - rewrite Z.eqb_refl. cbn [andb].
        assert (E : forallb (fun v => len (bytes_of v) =? vlen v) (v0 :: vr) = true).
        { apply forallb_forall. intros v _. apply Z.eqb_refl. }
        rewrite E. destruct op; try reflexivity; apply bytes_eqb_refl.
      - assert (E1 : len (lower x) =? len x = true) by (apply Z.eqb_eq; unfold len; rewrite lower_len; reflexivity).
        assert (E2 : forallb (fun v => len (lower (bytes_of v)) =? vlen v) (v0 :: vr) = true).
        { apply forallb_forall. intros v _. apply Z.eqb_eq. unfold vlen, len. rewrite lower_len. reflexivity. }
        rewrite E1, E2. cbn [andb]. destruct op; try reflexivity.
        + rewrite lower_firstn. apply bytes_eqb_refl.
        + unfold lastn. rewrite lower_skipn, lower_len. apply bytes_eqb_refl.
    Qed.

    Lemma lower_hyp_global n e : lower_hyp lower n e = true.
    Proof.
      induction n as [op path cs v0 vr | op path c v | path format c mode shift | path types
                      | ops IH | ops IH | x IH] using node_ind'; cbn [lower_hyp]; try reflexivity.
      - destruct (fget e path); [apply fhyp_global|apply fhyp_global|reflexivity].
      - apply forallb_forall. rewrite Forall_forall in IH. exact IH.
      - apply forallb_forall. rewrite Forall_forall in IH. exact IH.
      - exact IH.
    Qed.

    Theorem check_eq_eval_global : forall n e now,
      wfb re_ok n = true -> cont_ok lower re_match go_contains_any n e = true ->
      checkM n e now = evalM n e now.
    Proof. intros n e now Hwf Hc. apply check_eq_eval; [exact Hwf|apply lower_hyp_global|exact Hc]. Qed.
  End Global.

  (* the decision does not depend on the order of operands or of values *)
  Theorem check_and_perm ops ops' e now :
    Permutation ops ops' -> checkM (NAnd ops) e now = checkM (NAnd ops') e now.
  Proof. intros HP. rewrite !check_and. apply forallb_perm. exact HP. Qed.

  Theorem check_or_perm ops ops' e now :
    Permutation ops ops' -> checkM (NOr ops) e now = checkM (NOr ops') e now.
  Proof. intros HP. rewrite !check_or. apply existsb_perm. exact HP. Qed.

  Theorem field_check_perm op cs v0 vr w0 wr d :
    op <> FContainsAny -> Permutation (v0 :: vr) (w0 :: wr) ->
    fcheck op cs v0 vr d = fcheck op cs w0 wr d.
  Proof.
    intros Hop HP. rewrite !field_check_normal by exact Hop.
    rewrite (min_len_perm v0 vr w0 wr HP), (max_len_perm v0 vr w0 wr HP).
    rewrite (existsb_perm _ _ _ HP). reflexivity.
  Qed.

  Theorem check_values_perm op path cs v0 vr w0 wr e now :
    op <> FContainsAny -> Permutation (v0 :: vr) (w0 :: wr) ->
    checkM (NField op path cs v0 vr) e now = checkM (NField op path cs w0 wr) e now.
  Proof. intros Hop HP. cbn [check]. apply field_check_perm; assumption. Qed.

  (* no state: the decision on an event is the same whatever was checked before or after it *)
  Theorem check_pure n pre post e now :
    nth_error (decisions lower re_match go_contains_any parse_time as_int n (pre ++ (e, now) :: post)) (length pre)
    = Some (checkM n e now).
  Proof.
    unfold decisions. rewrite map_app. cbn [map fst snd].
    rewrite nth_error_app2; rewrite map_length; [|lia]. rewrite Nat.sub_diag. reflexivity.
  Qed.
End Main.

(* ---- ASCII lower-casing satisfies the global conditions ------------------------------------ *)
Lemma ascii_lower_len x : length (ascii_lower x) = length x.
Proof. apply map_length. Qed.
Lemma ascii_lower_firstn k x : ascii_lower (firstn k x) = firstn k (ascii_lower x).
Proof. unfold ascii_lower. symmetry. apply firstn_map. Qed.
Lemma ascii_lower_skipn k x : ascii_lower (skipn k x) = skipn k (ascii_lower x).
Proof. unfold ascii_lower. symmetry. apply skipn_map. Qed.

Theorem check_eq_eval_ascii re_match go_contains_any parse_time as_int re_ok : forall n e now,
  wfb re_ok n = true -> cont_ok ascii_lower re_match go_contains_any n e = true ->
  check ascii_lower re_match go_contains_any parse_time as_int n e now
  = eval ascii_lower re_match go_contains_any parse_time as_int n e now.
Proof.
  apply check_eq_eval_global; [apply ascii_lower_len|apply ascii_lower_firstn|apply ascii_lower_skipn].
Qed.

(* ---- the side conditions cannot be dropped -------------------------------------------------- *)
(* a lower-casing that, like bytes.ToLower, maps the 3-byte KELVIN SIGN to "k" and the 2-byte
   LATIN CAPITAL I WITH DOT ABOVE to the 3 bytes "i" + COMBINING DOT ABOVE *)
Definition kelvin : bytes := [226; 132; 170]%N.
Definition idot : bytes := [196; 176]%N.
Definition fold_lower (x : bytes) : bytes :=
  if bytes_eqb x kelvin then [107]%N
  else if bytes_eqb x idot then [105; 204; 135]%N
  else ascii_lower x.
Definition no_re (_ _ : bytes) : bool := false.
Definition no_time (_ _ : bytes) : option Z := None.
Definition no_int (_ : bytes) : Z := 0.
Definition all_ok (_ : bytes) : bool := true.
Definition key_a : bytes := [97]%N.

Lemma unicode_refuted_equal_value :
  let n := NField FEqual [key_a] false (Some kelvin) [] in
  let e := JObj [(key_a, JStr [107]%N)] in
  wfb all_ok n = true /\ cont_ok fold_lower no_re no_re n e = true
  /\ check fold_lower no_re no_re no_time no_int n e 0 = false
  /\ eval fold_lower no_re no_re no_time no_int n e 0 = true.
Proof. vm_compute. repeat split. Qed.

Lemma unicode_refuted_equal_field :
  let n := NField FEqual [key_a] false (Some [107]%N) [] in
  let e := JObj [(key_a, JStr kelvin)] in
  wfb all_ok n = true /\ cont_ok fold_lower no_re no_re n e = true
  /\ check fold_lower no_re no_re no_time no_int n e 0 = false
  /\ eval fold_lower no_re no_re no_time no_int n e 0 = true.
Proof. vm_compute. repeat split. Qed.

Lemma unicode_refuted_suffix :
  let n := NField FSuffix [key_a] false (Some idot) [] in
  let e := JObj [(key_a, JStr [120; 105; 204; 135]%N)] in
  wfb all_ok n = true /\ cont_ok fold_lower no_re no_re n e = true
  /\ check fold_lower no_re no_re no_time no_int n e 0 = false
  /\ eval fold_lower no_re no_re no_time no_int n e 0 = true.
Proof. vm_compute. repeat split. Qed.

Lemma unicode_refuted_prefix :
  let n := NField FPrefix [key_a] false (Some [107; 97; 98]%N) [] in
  let e := JObj [(key_a, JStr (kelvin ++ [97; 98]%N))] in
  wfb all_ok n = true /\ cont_ok (fun x => if bytes_eqb x (kelvin ++ [97; 98]%N) then [107; 97; 98]%N else fold_lower x) no_re no_re n e = true
  /\ check (fun x => if bytes_eqb x (kelvin ++ [97; 98]%N) then [107; 97; 98]%N else fold_lower x) no_re no_re no_time no_int n e 0 = false
  /\ eval (fun x => if bytes_eqb x (kelvin ++ [97; 98]%N) then [107; 97; 98]%N else fold_lower x) no_re no_re no_time no_int n e 0 = true.
Proof. vm_compute. repeat split. Qed.

(* an object is matched through its one-byte placeholder by an empty needle *)
Lemma container_refuted :
  let n := NField FContains [key_a] true (Some []) [] in
  let e := JObj [(key_a, JObj [])] in
  wfb all_ok n = true /\ lower_hyp ascii_lower n e = true
  /\ check ascii_lower no_re no_re no_time no_int n e 0 = true
  /\ eval ascii_lower no_re no_re no_time no_int n e 0 = false.
Proof. vm_compute. repeat split. Qed.
