(* Proofs about Model/Payload.v (C19). *)
From Verif Require Import Base.Sx Base.GoSem Model.Payload.
From Coq Require Import Lia ZifyBool.

Local Open Scope Z_scope.

(* ==========================================================================================
   0. lists, len, buffers
   ========================================================================================== *)
Lemma len_nil {A} : len (@nil A) = 0.
Proof. reflexivity. Qed.

Lemma len_cons {A} (x : A) l : len (x :: l) = 1 + len l.
Proof. unfold len. cbn [length]. lia. Qed.

Lemma len_app {A} (a b : list A) : len (a ++ b) = len a + len b.
Proof. unfold len. rewrite app_length. lia. Qed.

Lemma len_nonneg {A} (l : list A) : 0 <= len l.
Proof. unfold len. lia. Qed.

Lemma rev_fast_rev {A} (l : list A) : rev_fast l = rev l.
Proof. unfold rev_fast. rewrite rev_append_rev. apply app_nil_r. Qed.

Lemma rev_append_app {A} (p s a : list A) : rev_append (p ++ s) a = rev_append s (rev_append p a).
Proof. revert a. induction p as [|x p IH]; intro a; cbn [app rev_append]; [reflexivity|apply IH]. Qed.

Lemma bbytes_bapp b x : bbytes (bapp b x) = bbytes b ++ x.
Proof.
  unfold bbytes, bapp. cbn [rb]. rewrite !rev_fast_rev, rev_append_rev, rev_app_distr, rev_involutive.
  reflexivity.
Qed.

Lemma bbytes_bpush b c : bbytes (bpush b c) = bbytes b ++ [c].
Proof. unfold bbytes, bpush. cbn [rb]. rewrite !rev_fast_rev. reflexivity. Qed.

Lemma bbytes_reset prev : bbytes (buf_reset prev) = [].
Proof. reflexivity. Qed.

Lemma blen_reset prev : blen (buf_reset prev) = 0.
Proof. reflexivity. Qed.

Lemma blen_bapp b x : blen (bapp b x) = blen b + len x.
Proof. reflexivity. Qed.

Lemma bapp_bapp b p s : bapp (bapp b p) s = bapp b (p ++ s).
Proof.
  unfold bapp. cbn [rb blen]. f_equal.
  - symmetry. apply rev_append_app.
  - rewrite len_app. lia.
Qed.

Lemma bpush_bapp b c : bpush b c = bapp b [c].
Proof. reflexivity. Qed.

Lemma bapp_nil b : bbytes (bapp b []) = bbytes b.
Proof. rewrite bbytes_bapp. apply app_nil_r. Qed.

(* ==========================================================================================
   1. Batch.ForEach
   ========================================================================================== *)
Lemma for_each_fold {A} (b : list ev) (cb : A -> ev -> A) (acc : A) :
  for_each b cb acc = fold_left cb (deliverable b) acc.
Proof.
  revert acc. induction b as [|e r IH]; intro acc; [reflexivity|].
  cbn [for_each deliverable filter]. destruct (is_parent e); cbn [negb fold_left]; apply IH.
Qed.

Lemma deliverable_in b e : In e (deliverable b) <-> In e b /\ is_parent e = false.
Proof.
  unfold deliverable. rewrite filter_In. split; intros [H1 H2]; split; auto.
  - destruct (is_parent e); [discriminate|reflexivity].
  - rewrite H2. reflexivity.
Qed.

Lemma deliverable_app a b : deliverable (a ++ b) = deliverable a ++ deliverable b.
Proof. apply filter_app. Qed.

Lemma deliverable_noparents b :
  forallb (fun e => negb (is_parent e)) b = true -> deliverable b = b.
Proof.
  induction b as [|e r IH]; [reflexivity|]. cbn [forallb deliverable filter]. intro H.
  apply andb_prop in H. destruct H as [H1 H2]. rewrite H1. f_equal. apply IH, H2.
Qed.

Lemma deliverable_idem b : deliverable (deliverable b) = deliverable b.
Proof.
  apply deliverable_noparents, forallb_forall. intros e He. apply deliverable_in in He.
  destruct He as [_ He]. rewrite He. reflexivity.
Qed.

Theorem foreach_skips_parents :
  forall (A : Type) (b : list ev) (cb : A -> ev -> A) (acc : A),
    for_each b cb acc = fold_left cb (deliverable b) acc
    /\ (forall e, In e (deliverable b) <-> In e b /\ is_parent e = false)
    /\ (forall b1 b2, b = b1 ++ b2 -> deliverable b = deliverable b1 ++ deliverable b2).
Proof.
  intros A b cb acc. split; [apply for_each_fold|]. split; [apply deliverable_in|].
  intros b1 b2 ->. apply deliverable_app.
Qed.

(* ==========================================================================================
   2. sinks that append one frame per event
   ========================================================================================== *)
Lemma fold_frames_bytes (frame : ev -> bytes) l b0 :
  bbytes (fold_left (fun b e => bapp b (frame e)) l b0) = bbytes b0 ++ concat (map frame l).
Proof.
  revert b0. induction l as [|e r IH]; intro b0; cbn [fold_left map concat].
  - symmetry. apply app_nil_r.
  - rewrite IH, bbytes_bapp, app_assoc. reflexivity.
Qed.

Theorem build_frames_spec (frame : ev -> bytes) batch prev :
  build_frames frame batch prev = concat (map frame (deliverable batch)).
Proof.
  unfold build_frames. rewrite for_each_fold, fold_frames_bytes, bbytes_reset. reflexivity.
Qed.

(* offsets of the frames inside their concatenation: the `begin` table *)
Fixpoint offsets (start : Z) (fs : list bytes) : list Z :=
  start :: match fs with [] => [] | f :: r => offsets (start + len f) r end.

Lemma http_fold raw l b rbeg n :
  let '(b', rbeg', n') := fold_left (http_cb raw) l (b, rbeg, n) in
  b' = bapp b (concat (map (frame_http raw) l))
  /\ rev rbeg' ++ [blen b'] = rev rbeg ++ offsets (blen b) (map (frame_http raw) l)
  /\ n' = n + len l.
Proof.
  revert b rbeg n. induction l as [|e r IH]; intros b rbeg n; cbn [fold_left map concat].
  - repeat split.
    + unfold bapp. destruct b as [rb0 bl0]. cbn [rb blen rev_append]. rewrite len_nil. f_equal. lia.
    + rewrite len_nil. lia.
  - cbn [http_cb].
    specialize (IH (bapp b (frame_http raw e)) (blen b :: rbeg) (n + 1)).
    destruct (fold_left (http_cb raw) r (bapp b (frame_http raw e), blen b :: rbeg, n + 1)) as [[b' rbeg'] n'].
    destruct IH as (Hb & Hr & Hn). repeat split.
    + rewrite Hb. apply bapp_bapp.
    + rewrite Hr. cbn [rev offsets]. rewrite blen_bapp, <- app_assoc. reflexivity.
    + rewrite Hn, len_cons. lia.
Qed.

Theorem http_build_spec raw batch prev :
  let fs := map (frame_http raw) (deliverable batch) in
  http_build raw batch prev = (concat fs, offsets 0 fs, len fs).
Proof.
  cbn zeta. unfold http_build. rewrite for_each_fold.
  pose proof (http_fold raw (deliverable batch) (buf_reset prev) [] 0) as H.
  destruct (fold_left (http_cb raw) (deliverable batch) (buf_reset prev, [], 0)) as [[b' rbeg'] n'].
  destruct H as (Hb & Hr & Hn). rewrite rev_fast_rev. cbn [rev]. rewrite Hr, Hb.
  rewrite bbytes_bapp, bbytes_reset, blen_reset. cbn [rev app]. rewrite Hn.
  unfold len. rewrite map_length. reflexivity.
Qed.

(* ==========================================================================================
   3. slices of a concatenation of frames
   ========================================================================================== *)
Lemma slice_app_mid {A} (a m z : list A) :
  slice (a ++ m ++ z) (len a) (len a + len m) = Ok m.
Proof.
  unfold slice. pose proof (len_nonneg a). pose proof (len_nonneg m). pose proof (len_nonneg z).
  rewrite !len_app.
  destruct ((0 <=? len a) && (len a <=? len a + len m) && (len a + len m <=? len a + (len m + len z))) eqn:E; [|lia].
  f_equal. replace (len a + len m - len a) with (len m) by lia.
  unfold len. rewrite !Nat2Z.id.
  rewrite skipn_app, skipn_all, Nat.sub_diag. cbn [skipn app].
  rewrite firstn_app, firstn_all, Nat.sub_diag. cbn [firstn]. apply app_nil_r.
Qed.

(* the frames l .. r-1 *)
Definition frames_range (fs : list bytes) (l r : Z) : bytes :=
  concat (firstn (Z.to_nat (r - l)) (skipn (Z.to_nat l) fs)).

Lemma offsets_len fs : forall start, len (offsets start fs) = 1 + len fs.
Proof.
  induction fs as [|f r IH]; intro start.
  - reflexivity.
  - change (offsets start (f :: r)) with (start :: offsets (start + len f) r).
    rewrite !len_cons, IH. reflexivity.
Qed.

Lemma offsets_nth fs : forall start (i : nat), (i <= length fs)%nat ->
  nth_error (offsets start fs) i = Some (start + len (concat (firstn i fs))).
Proof.
  induction fs as [|f r IH]; intros start i Hi.
  - cbn [length] in Hi. replace i with O by lia. cbn. f_equal. lia.
  - change (offsets start (f :: r)) with (start :: offsets (start + len f) r).
    destruct i as [|i].
    + cbn. f_equal. lia.
    + cbn [length] in Hi. cbn [nth_error firstn concat]. rewrite IH by lia.
      rewrite len_app. f_equal. lia.
Qed.

Lemma offsets_idx fs : forall start i, 0 <= i <= len fs ->
  idx (offsets start fs) i = Ok (start + len (concat (firstn (Z.to_nat i) fs))).
Proof.
  intros start i Hi. unfold idx. rewrite offsets_len.
  destruct ((0 <=? i) && (i <? 1 + len fs)) eqn:E; [|lia].
  rewrite offsets_nth; [reflexivity|]. unfold len in Hi. lia.
Qed.

Lemma firstn_plus {A} (a b : nat) (l : list A) :
  firstn (a + b) l = firstn a l ++ firstn b (skipn a l).
Proof.
  revert l. induction a as [|a IH]; intro l; [reflexivity|].
  destruct l as [|x l]; cbn [Nat.add firstn skipn app].
  - destruct b; reflexivity.
  - f_equal. apply IH.
Qed.

Lemma skipn_plus {A} (a b : nat) (l : list A) : skipn b (skipn a l) = skipn (a + b) l.
Proof.
  revert l. induction a as [|a IH]; intro l; [reflexivity|].
  destruct l as [|x l]; cbn [Nat.add skipn].
  - destruct b; reflexivity.
  - apply IH.
Qed.

Lemma concat_firstn_skipn (fs : list bytes) (a b : nat) :
  concat fs = concat (firstn a fs) ++ concat (firstn b (skipn a fs)) ++ concat (skipn b (skipn a fs)).
Proof.
  rewrite <- concat_app, <- concat_app, firstn_skipn, firstn_skipn. reflexivity.
Qed.

Lemma slice_frames fs l r : 0 <= l -> l <= r -> r <= len fs ->
  slice (concat fs) (len (concat (firstn (Z.to_nat l) fs))) (len (concat (firstn (Z.to_nat r) fs)))
  = Ok (frames_range fs l r).
Proof.
  intros H0 Hlr Hr. unfold frames_range.
  rewrite (concat_firstn_skipn fs (Z.to_nat l) (Z.to_nat (r - l))) at 1.
  assert (Hsplit : firstn (Z.to_nat r) fs = firstn (Z.to_nat l) fs ++ firstn (Z.to_nat (r - l)) (skipn (Z.to_nat l) fs)).
  { replace (Z.to_nat r) with (Z.to_nat l + Z.to_nat (r - l))%nat by lia.
    rewrite firstn_plus. reflexivity. }
  rewrite Hsplit, concat_app, len_app. apply slice_app_mid.
Qed.

Lemma frames_range_split fs l m r : 0 <= l -> l <= m -> m <= r -> r <= len fs ->
  frames_range fs l r = frames_range fs l m ++ frames_range fs m r.
Proof.
  intros H0 H1 H2 H3. unfold frames_range. rewrite <- concat_app. f_equal.
  replace (Z.to_nat (r - l)) with (Z.to_nat (m - l) + Z.to_nat (r - m))%nat by lia.
  rewrite firstn_plus. f_equal. rewrite skipn_plus.
  replace (Z.to_nat l + Z.to_nat (m - l))%nat with (Z.to_nat m) by lia. reflexivity.
Qed.

Lemma frames_range_all fs : frames_range fs 0 (len fs) = concat fs.
Proof.
  unfold frames_range. rewrite Z.sub_0_r. cbn [Z.to_nat skipn]. unfold len. rewrite Nat2Z.id, firstn_all.
  reflexivity.
Qed.

Lemma frames_range_empty fs l : frames_range fs l l = [].
Proof. unfold frames_range. rewrite Z.sub_diag. reflexivity. Qed.

(* ==========================================================================================
   4. sendSplit
   ========================================================================================== *)
Definition ok_ranges (log : list sreq) : list (Z * Z) :=
  map (fun q => (rq_l q, rq_r q)) (filter (fun q => is_ok_status (rq_status q)) log).

(* rs tiles [a, b) from left to right *)
Fixpoint chain (a b : Z) (rs : list (Z * Z)) : Prop :=
  match rs with
  | [] => a = b
  | (l, r) :: rs' => l = a /\ l <= r /\ chain r b rs'
  end.

Lemma chain_app a m b rs1 rs2 : chain a m rs1 -> chain m b rs2 -> chain a b (rs1 ++ rs2).
Proof.
  revert a. induction rs1 as [|[l r] rs1 IH]; intros a H1 H2; cbn [chain app] in *.
  - subst. exact H2.
  - destruct H1 as (-> & Hle & Hc). repeat split; auto.
Qed.

Lemma chain_le a b rs : chain a b rs -> a <= b.
Proof.
  revert a. induction rs as [|[l r] rs IH]; intros a H; cbn [chain] in H.
  - lia.
  - destruct H as (-> & Hle & Hc). apply IH in Hc. lia.
Qed.

Lemma ok_ranges_app l1 l2 : ok_ranges (l1 ++ l2) = ok_ranges l1 ++ ok_ranges l2.
Proof. unfold ok_ranges. rewrite filter_app, map_app. reflexivity. Qed.

(* what a request log must look like: every request carries exactly the frames of its range *)
Definition req_ok (fs : list bytes) (lo hi : Z) (q : sreq) : Prop :=
  lo <= rq_l q /\ rq_l q < rq_r q /\ rq_r q <= hi /\ rq_body q = frames_range fs (rq_l q) (rq_r q).

Lemma req_ok_widen fs lo hi lo' hi' q : lo' <= lo -> hi <= hi' -> req_ok fs lo hi q -> req_ok fs lo' hi' q.
Proof. unfold req_ok. intros; intuition lia. Qed.

Lemma next_status_cases script : exists st s', next_status script = (st, s').
Proof. destruct script; cbn; eauto. Qed.

Lemma split_step_body fs l r : 0 <= l -> l < r -> r <= len fs ->
  (bl <- idx (offsets 0 fs) l ;; br <- idx (offsets 0 fs) r ;; slice (concat fs) bl br)
  = Ok (frames_range fs l r).
Proof.
  intros H0 H1 H2. rewrite (offsets_idx fs 0 l) by lia. cbn [bind].
  rewrite (offsets_idx fs 0 r) by lia. cbn [bind]. rewrite !Z.add_0_l.
  apply slice_frames; [exact H0|apply Z.lt_le_incl, H1|exact H2].
Qed.

Lemma mid_bounds l r : l + 2 <= r -> l < (l + r) / 2 /\ (l + r) / 2 < r.
Proof.
  intro H. pose proof (Z.div_mod (l + r) 2 ltac:(lia)). pose proof (Z.mod_pos_bound (l + r) 2 ltac:(lia)).
  split; lia.
Qed.

Theorem send_split_spec (fs : list bytes) :
  forall (fuel : nat) (script : list Z) (l r : Z),
    0 <= l -> l <= r -> r <= len fs -> r - l <= Z.of_nat fuel ->
    exists log script' st err,
      send_split fuel script l r (offsets 0 fs) (concat fs) = Ok (log, script', st, err)
      /\ Forall (req_ok fs l r) log
      /\ (err = false -> st = 200 /\ chain l r (ok_ranges log)).
Proof.
  induction fuel as [|f IH]; intros script l r H0 Hlr Hr Hfuel.
  - assert (l = r) by lia. subst r. cbn [send_split]. rewrite Z.eqb_refl.
    exists [], script, 200, false. repeat split; constructor.
  - cbn [send_split]. destruct (Z.eqb_spec l r) as [->|Hne].
    + exists [], script, 200, false. repeat split; constructor.
    + assert (Hlt : l < r) by lia.
      pose proof (split_step_body fs l r H0 Hlt Hr) as Hbody.
      destruct (idx (offsets 0 fs) l) as [bl| |]; cbn [bind] in Hbody |- *; try discriminate.
      destruct (idx (offsets 0 fs) r) as [br| |]; cbn [bind] in Hbody |- *; try discriminate.
      rewrite Hbody. cbn [bind].
      destruct (next_status_cases script) as (st & s' & Hns). rewrite Hns.
      set (rq := mkReq l r (frames_range fs l r) st).
      assert (Hrq : req_ok fs l r rq) by (unfold req_ok, rq; cbn; repeat split; lia).
      destruct (is_ok_status st) eqn:Hok.
      * exists [rq], s', 200, false. repeat split; [constructor; [exact Hrq|constructor]|].
        unfold ok_ranges. cbn [filter rq_status rq]. rewrite Hok. cbn. repeat split; lia.
      * destruct (Z.eqb_spec st 413) as [->|H413].
        -- destruct (Z.eqb_spec (r - l) 1) as [H1|H1].
           ++ exists [rq], s', 413, true. repeat split; [constructor; [exact Hrq|constructor]|discriminate|discriminate].
           ++ pose proof (mid_bounds l r ltac:(lia)) as [Hm1 Hm2].
              set (m := (l + r) / 2) in *.
              destruct (IH s' l m ltac:(lia) ltac:(lia) ltac:(lia) ltac:(lia)) as (log1 & sc1 & st1 & err1 & E1 & F1 & C1).
              rewrite E1. cbn [bind]. destruct err1.
              ** exists (rq :: log1), sc1, st1, true. repeat split; try discriminate.
                 constructor; [exact Hrq|]. eapply Forall_impl; [|exact F1].
                 intros q. apply req_ok_widen; lia.
              ** destruct (IH sc1 m r ltac:(lia) ltac:(lia) ltac:(lia) ltac:(lia)) as (log2 & sc2 & st2 & err2 & E2 & F2 & C2).
                 rewrite E2. cbn [bind].
                 exists (rq :: log1 ++ log2), sc2, st2, err2. split; [reflexivity|]. split.
                 --- constructor; [exact Hrq|]. apply Forall_app. split.
                     +++ eapply Forall_impl; [|exact F1]. intros q. apply req_ok_widen; lia.
                     +++ eapply Forall_impl; [|exact F2]. intros q. apply req_ok_widen; lia.
                 --- intros ->. destruct (C1 eq_refl) as [_ Hc1]. destruct (C2 eq_refl) as [-> Hc2].
                     split; [reflexivity|].
                     unfold ok_ranges. cbn [filter rq_status rq].
                     change (is_ok_status 413) with false. cbv iota.
                     fold (ok_ranges (log1 ++ log2)). rewrite ok_ranges_app.
                     eapply chain_app; eassumption.
        -- exists [rq], s', st, true. repeat split; [constructor; [exact Hrq|constructor]|discriminate|discriminate].
Qed.

(* the bodies of a tiling put together are the frames of the whole range *)
Lemma chain_bodies fs : forall rs l r, 0 <= l -> r <= len fs -> chain l r rs ->
  concat (map (fun ab => frames_range fs (fst ab) (snd ab)) rs) = frames_range fs l r.
Proof.
  induction rs as [|[a b] rs IH]; intros l r H0 Hr Hc; cbn [chain map concat fst snd] in *.
  - subst. symmetry. apply frames_range_empty.
  - destruct Hc as (-> & Hab & Hc). pose proof (chain_le _ _ _ Hc).
    rewrite (IH b r) by (auto; lia). symmetry. apply frames_range_split; lia.
Qed.

Lemma ok_bodies fs lo hi log : Forall (req_ok fs lo hi) log ->
  concat (map rq_body (filter (fun q => is_ok_status (rq_status q)) log))
  = concat (map (fun ab => frames_range fs (fst ab) (snd ab)) (ok_ranges log)).
Proof.
  intro F. unfold ok_ranges. rewrite map_map. cbn [fst snd]. f_equal.
  induction F as [|q log Hq F IH]; [reflexivity|]. cbn [filter].
  destruct (is_ok_status (rq_status q)); cbn [map]; [|exact IH].
  f_equal; [|exact IH]. apply Hq.
Qed.

(* whenever sendSplit returns OK the successfully sent ranges partition [0,n) in order, for every
   pattern of answers; each request carries exactly the frames of its range; no slice panics *)
Theorem split_covers_once (fs : list bytes) (script : list Z) :
  let n := len fs in
  exists log script' st err,
    send_split (Z.to_nat n) script 0 n (offsets 0 fs) (concat fs) = Ok (log, script', st, err)
    /\ Forall (req_ok fs 0 n) log
    /\ (err = false ->
        chain 0 n (ok_ranges log)
        /\ Forall (fun ab => fst ab < snd ab) (ok_ranges log)
        /\ concat (map rq_body (filter (fun q => is_ok_status (rq_status q)) log)) = concat fs).
Proof.
  cbn zeta. pose proof (len_nonneg fs) as Hn.
  destruct (send_split_spec fs (Z.to_nat (len fs)) script 0 (len fs) ltac:(lia) ltac:(lia) ltac:(lia) ltac:(lia))
    as (log & sc & st & err & E & F & C).
  exists log, sc, st, err. repeat split; auto.
  - apply C, H.
  - unfold ok_ranges. apply Forall_forall. intros ab Hin. apply in_map_iff in Hin.
    destruct Hin as (q & <- & Hq). apply filter_In in Hq. destruct Hq as [Hq _].
    rewrite Forall_forall in F. apply F in Hq. cbn [fst snd]. unfold req_ok in Hq. lia.
  - rewrite (ok_bodies fs 0 (len fs) log F). destruct (C H) as [_ Hc].
    rewrite (chain_bodies fs _ 0 (len fs)); auto; try lia. apply frames_range_all.
Qed.

(* ==========================================================================================
   5. Elasticsearch: the action line, the frames, the begin table
   ========================================================================================== *)
(* appendIndexName's loop as a pure function of the event *)
Fixpoint es_name_spec (fmt : bytes) (vals : list ival) (k : nat) (time : bytes) (e : ev) : res bytes :=
  match fmt with
  | [] => Ok []
  | c :: r =>
      if N.eqb c PERCENT then
        match vals with
        | [] => Panic 3
        | v :: vals' => s <- es_name_spec r vals' (S k) time e ;; Ok (es_piece v time e k ++ s)
        end
      else s <- es_name_spec r vals k time e ;; Ok (c :: s)
  end.

Lemma es_name_ok fmt : forall vals k time e acc,
  es_name fmt vals k time e acc = (s <- es_name_spec fmt vals k time e ;; Ok (bapp acc s)).
Proof.
  induction fmt as [|c r IH]; intros vals k time e acc; cbn [es_name es_name_spec bind].
  - f_equal. unfold bapp. destruct acc as [rb0 bl0]. cbn [rb blen rev_append]. rewrite len_nil. f_equal. lia.
  - destruct (N.eqb c PERCENT).
    + destruct vals as [|v vals']; [reflexivity|]. rewrite IH.
      destruct (es_name_spec r vals' (S k) time e); cbn [bind]; try reflexivity.
      f_equal. apply bapp_bapp.
    + rewrite IH. destruct (es_name_spec r vals k time e); cbn [bind]; try reflexivity.
      f_equal. rewrite bpush_bapp. apply bapp_bapp.
Qed.

Fixpoint count_pct (fmt : bytes) : nat :=
  match fmt with [] => O | c :: r => if N.eqb c PERCENT then S (count_pct r) else count_pct r end.

(* the configuration check that file.d leaves to a Fatal at run time *)
Definition es_cfg_ok (c : es_cfg) : Prop := (count_pct (es_fmt c) <= length (es_vals c))%nat.

Lemma es_name_spec_total fmt : forall vals k time e,
  (count_pct fmt <= length vals)%nat -> exists s, es_name_spec fmt vals k time e = Ok s.
Proof.
  induction fmt as [|c r IH]; intros vals k time e H; cbn [es_name_spec count_pct] in *.
  - eauto.
  - destruct (N.eqb c PERCENT).
    + destruct vals as [|v vals']; cbn [length] in H; [lia|].
      destruct (IH vals' (S k) time e ltac:(lia)) as [s ->]. cbn [bind]. eauto.
    + destruct (IH vals k time e H) as [s ->]. cbn [bind]. eauto.
Qed.

(* the index name / action line / frame of an event as total functions (under es_cfg_ok) *)
Definition es_name_of (c : es_cfg) (e : ev) : bytes :=
  match es_name_spec (es_fmt c) (es_vals c) 0 (es_time c) e with Ok s => s | _ => [] end.
Definition es_header_of (c : es_cfg) (e : ev) : bytes := es_prefix (es_op c) ++ es_name_of c e ++ es_suffix.
Definition es_frame_of (c : es_cfg) (e : ev) : bytes := es_header_of c e ++ [NL] ++ enc e ++ [NL].

Lemma es_append_index_name_ok c e acc : es_cfg_ok c ->
  es_append_index_name c e acc = Ok (bapp acc (es_header_of c e)).
Proof.
  intro Hc. unfold es_append_index_name, es_header_of, es_name_of. rewrite es_name_ok.
  destruct (es_name_spec_total (es_fmt c) (es_vals c) 0 (es_time c) e Hc) as [s ->].
  cbn [bind]. f_equal. rewrite !bapp_bapp. reflexivity.
Qed.

Lemma es_header_ok c e : es_cfg_ok c -> es_header c e = Ok (es_header_of c e).
Proof.
  intro Hc. unfold es_header. rewrite es_append_index_name_ok by exact Hc. cbn [bind].
  rewrite bbytes_bapp. reflexivity.
Qed.

Lemma es_frame_shape c e : es_cfg_ok c ->
  es_header c e = Ok (es_header_of c e)
  /\ es_frame_of c e = es_header_of c e ++ [NL] ++ enc e ++ [NL].
Proof. intro Hc. split; [exact (es_header_ok c e Hc)|reflexivity]. Qed.

Lemma es_append_event_ok c e acc : es_cfg_ok c ->
  es_append_event c e acc = Ok (bapp acc (es_frame_of c e)).
Proof.
  intro Hc. unfold es_append_event. rewrite es_append_index_name_ok by exact Hc. cbn [bind].
  f_equal. rewrite !bpush_bapp, !bapp_bapp. unfold es_frame_of. reflexivity.
Qed.

Lemma es_fold c l : es_cfg_ok c -> forall b rbeg n,
  exists b' rbeg',
    fold_left (es_cb c) l (Ok (b, rbeg, n)) = Ok (b', rbeg', n + len l)
    /\ b' = bapp b (concat (map (es_frame_of c) l))
    /\ rev rbeg' ++ [blen b'] = rev rbeg ++ offsets (blen b) (map (es_frame_of c) l).
Proof.
  intro Hc. induction l as [|e r IH]; intros b rbeg n; cbn [fold_left map concat].
  - exists b, rbeg. repeat split.
    + rewrite len_nil. do 2 f_equal. lia.
    + unfold bapp. destruct b as [rb0 bl0]. cbn [rb blen rev_append]. rewrite len_nil. f_equal. lia.
  - cbn [es_cb bind]. rewrite es_append_event_ok by exact Hc. cbn [bind].
    destruct (IH (bapp b (es_frame_of c e)) (blen b :: rbeg) (n + 1)) as (b' & rbeg' & E & Hb & Hr).
    exists b', rbeg'. repeat split.
    + rewrite E, len_cons. do 2 f_equal. lia.
    + rewrite Hb. apply bapp_bapp.
    + rewrite Hr. cbn [rev offsets]. rewrite blen_bapp, <- app_assoc. reflexivity.
Qed.

(* the payload of a batch: one frame per deliverable event, in batch order, whatever the buffer held *)
Theorem es_build_spec c batch prev : es_cfg_ok c ->
  let fs := map (es_frame_of c) (deliverable batch) in
  es_build c batch prev = Ok (concat fs, offsets 0 fs, len fs).
Proof.
  intro Hc. cbn zeta. unfold es_build. rewrite for_each_fold.
  destruct (es_fold c (deliverable batch) Hc (buf_reset prev) [] 0) as (b' & rbeg' & E & Hb & Hr).
  rewrite E. cbn [bind]. rewrite rev_fast_rev. cbn [rev]. rewrite Hr, Hb.
  rewrite bbytes_bapp, bbytes_reset, blen_reset. cbn [rev app].
  unfold len. rewrite map_length. reflexivity.
Qed.

(* ==========================================================================================
   6. Kafka
   ========================================================================================== *)
Fixpoint k_recs (c : k_cfg) (start : Z) (evs : list ev) : list krec :=
  match evs with
  | [] => []
  | e :: r => mkRec (k_topic c e) start (start + len (enc e)) :: k_recs c (start + len (enc e)) r
  end.

Lemma k_fold c l : forall b rrecs i,
  0 <= i -> i + len l <= k_batch_size c ->
  exists b' rrecs',
    fold_left (k_cb c) l (Ok (b, rrecs, i)) = Ok (b', rrecs', i + len l)
    /\ b' = bapp b (concat (map enc l))
    /\ rev rrecs' = rev rrecs ++ k_recs c (blen b) l.
Proof.
  induction l as [|e r IH]; intros b rrecs i Hi Hbs; cbn [fold_left map concat k_recs].
  - exists b, rrecs. repeat split.
    + rewrite len_nil. do 2 f_equal. lia.
    + unfold bapp. destruct b as [rb0 bl0]. cbn [rb blen rev_append]. rewrite len_nil. f_equal. lia.
    + symmetry. apply app_nil_r.
  - rewrite len_cons in Hbs. pose proof (len_nonneg r).
    cbn [k_cb bind]. destruct ((0 <=? i) && (i <? k_batch_size c)) eqn:E; [|lia].
    destruct (IH (bapp b (enc e)) (mkRec (k_topic c e) (blen b) (blen (bapp b (enc e))) :: rrecs) (i + 1) ltac:(lia) ltac:(lia))
      as (b' & rrecs' & E' & Hb & Hr).
    exists b', rrecs'. repeat split.
    + rewrite E', len_cons. do 2 f_equal. lia.
    + rewrite Hb. apply bapp_bapp.
    + rewrite Hr. cbn [rev]. rewrite blen_bapp, <- app_assoc. reflexivity.
Qed.

Theorem kafka_build_spec c batch prev :
  len (deliverable batch) <= k_batch_size c ->
  kafka_build c batch prev = Ok (concat (map enc (deliverable batch)), k_recs c 0 (deliverable batch)).
Proof.
  intro Hbs. unfold kafka_build. rewrite for_each_fold.
  destruct (k_fold c (deliverable batch) (buf_reset prev) [] 0 ltac:(lia) ltac:(lia)) as (b' & rrecs' & E & Hb & Hr).
  rewrite E. cbn [bind]. rewrite rev_fast_rev, Hr, Hb, bbytes_bapp, bbytes_reset, blen_reset. reflexivity.
Qed.

(* record i carries exactly the encoding of the i-th deliverable event, and the slices tile the buffer *)
Lemma k_recs_values c : forall evs pre,
  Forall2 (fun r e => k_value (pre ++ concat (map enc evs)) r = Ok (enc e) /\ kr_topic r = k_topic c e)
          (k_recs c (len pre) evs) evs.
Proof.
  induction evs as [|e r IH]; intro pre; cbn [k_recs map concat]; constructor.
  - split; [|reflexivity]. unfold k_value. cbn [kr_start kr_end]. apply slice_app_mid.
  - specialize (IH (pre ++ enc e)). rewrite len_app, <- app_assoc in IH. exact IH.
Qed.

Lemma k_recs_chain c : forall evs start,
  chain start (start + len (concat (map enc evs))) (map (fun r => (kr_start r, kr_end r)) (k_recs c start evs)).
Proof.
  induction evs as [|e r IH]; intro start; cbn [k_recs map concat chain kr_start kr_end].
  - rewrite len_nil. lia.
  - pose proof (len_nonneg (enc e)). repeat split; [lia|]. rewrite len_app, Z.add_assoc. apply IH.
Qed.

Theorem kafka_records c batch prev :
  len (deliverable batch) <= k_batch_size c ->
  exists data recs,
    kafka_build c batch prev = Ok (data, recs)
    /\ Forall2 (fun r e => k_value data r = Ok (enc e) /\ kr_topic r = k_topic c e) recs (deliverable batch)
    /\ chain 0 (len data) (map (fun r => (kr_start r, kr_end r)) recs).
Proof.
  intro Hbs. eexists _, _. split; [apply kafka_build_spec, Hbs|]. split.
  - apply (k_recs_values c (deliverable batch) []).
  - apply (k_recs_chain c (deliverable batch) 0).
Qed.

(* ==========================================================================================
   7. JSON text
   ========================================================================================== *)
Lemma jrun_app s a b : jrun s (a ++ b) = match jrun s a with Some s' => jrun s' b | None => None end.
Proof.
  revert s. induction a as [|c a IH]; intro s; cbn [app jrun]; [reflexivity|].
  destruct (jstep s c); [apply IH|reflexivity].
Qed.

(* induction on the length, for functions that consume several bytes at a time *)
Lemma bytes_len_ind (P : list N -> Prop) :
  (forall s : list N, (forall t : list N, (length t < length s)%nat -> P t) -> P s) -> forall s : list N, P s.
Proof.
  intros H s. remember (length s) as n eqn:E. revert s E.
  induction n as [n IH] using lt_wf_ind. intros s ->. apply H. intros t Ht. eapply IH; [exact Ht|reflexivity].
Qed.

(* a string body keeps the automaton inside the string and brings it back to the string state *)
Lemma jrun_str_body k stk : forall s, str_body_ok s = true -> jrun (JStr k, stk) s = Some (JStr k, stk).
Proof.
  induction s as [s IH] using bytes_len_ind. intro H. destruct s as [|c r]; [reflexivity|].
  cbn [str_body_ok] in H. cbn [jrun jstep].
  destruct (N.eqb c QUOTE); [discriminate|]. destruct (N.ltb c 32); [discriminate|].
  destruct (N.eqb c BSLASH).
  - destruct r as [|e r']; [discriminate|]. cbn [jrun jstep].
    destruct (is_simple_esc e).
    + apply IH; [cbn [length]; lia|exact H].
    + destruct (N.eqb e 117); [|discriminate].
      destruct r' as [|h1 [|h2 [|h3 [|h4 r4]]]]; try discriminate.
      destruct (is_hex h1) eqn:E1; [|discriminate]. destruct (is_hex h2) eqn:E2; [|discriminate].
      destruct (is_hex h3) eqn:E3; [|discriminate]. destruct (is_hex h4) eqn:E4; [|discriminate].
      cbn [andb] in H. cbn [jrun jstep]. rewrite E1. cbn [jrun jstep]. rewrite E2. cbn [jrun jstep].
      rewrite E3. cbn [jrun jstep]. rewrite E4. apply IH; [cbn [length]; lia|exact H].
  - apply IH; [cbn [length]; lia|exact H].
Qed.

Lemma str_body_ok_app : forall a b, str_body_ok a = true -> str_body_ok b = true -> str_body_ok (a ++ b) = true.
Proof.
  induction a as [a IH] using bytes_len_ind. intros b Ha Hb. destruct a as [|c r]; [exact Hb|].
  cbn [app str_body_ok] in *.
  destruct (N.eqb c QUOTE); [discriminate|]. destruct (N.ltb c 32); [discriminate|].
  destruct (N.eqb c BSLASH).
  - destruct r as [|e r']; [discriminate|]. cbn [app].
    destruct (is_simple_esc e).
    + apply IH; auto. cbn [length]; lia.
    + destruct (N.eqb e 117); [|discriminate].
      destruct r' as [|h1 [|h2 [|h3 [|h4 r4]]]]; try discriminate. cbn [app].
      destruct (is_hex h1 && is_hex h2 && is_hex h3 && is_hex h4); [|discriminate].
      apply IH; auto. cbn [length]; lia.
  - apply IH; auto.
Qed.

Lemma str_body_plain s : forallb is_plain s = true -> str_body_ok s = true.
Proof.
  induction s as [|c r IH]; [reflexivity|]. cbn [forallb str_body_ok]. intro H.
  apply andb_prop in H. destruct H as [Hc Hr]. unfold is_plain in Hc.
  destruct (N.eqb c QUOTE); [discriminate|]. destruct (N.eqb c BSLASH); [discriminate|].
  destruct (N.ltb c 32); [discriminate|]. apply IH, Hr.
Qed.

(* no raw control character (newline, NUL, ...) inside a string body *)
Lemma str_body_no_ctl : forall s, str_body_ok s = true -> forall c, In c s -> (32 <= c)%N.
Proof.
  induction s as [s IH] using bytes_len_ind. intros H c Hin. destruct s as [|x r]; [destruct Hin|].
  cbn [str_body_ok] in H.
  destruct (N.eqb x QUOTE); [discriminate|]. destruct (N.ltb_spec x 32) as [|Hx]; [discriminate|].
  destruct (N.eqb_spec x BSLASH) as [->|Hnb].
  - destruct r as [|e r']; [discriminate|].
    destruct Hin as [<-|Hin]; [unfold BSLASH; lia|].
    destruct (is_simple_esc e) eqn:Ee.
    + destruct Hin as [<-|Hin].
      * unfold is_simple_esc in Ee. lia.
      * eapply (IH r'); eauto. cbn [length]; lia.
    + destruct (N.eqb_spec e 117) as [->|]; [|discriminate].
      destruct r' as [|h1 [|h2 [|h3 [|h4 r4]]]]; try discriminate.
      destruct (is_hex h1) eqn:E1; [|discriminate]. destruct (is_hex h2) eqn:E2; [|discriminate].
      destruct (is_hex h3) eqn:E3; [|discriminate]. destruct (is_hex h4) eqn:E4; [|discriminate].
      cbn [andb] in H. unfold is_hex, is_digit in *.
      destruct Hin as [<-|[<-|[<-|[<-|[<-|Hin]]]]]; try lia.
      eapply (IH r4); eauto. cbn [length]; lia.
  - destruct Hin as [<-|Hin]; [lia|]. eapply (IH r); eauto.
Qed.

Lemma str_body_no_nl s : str_body_ok s = true -> has_nl s = false.
Proof.
  intro H. unfold has_nl. destruct (existsb (N.eqb NL) s) eqn:E; [|reflexivity].
  apply existsb_exists in E. destruct E as (c & Hin & Hc). apply N.eqb_eq in Hc. subst c.
  pose proof (str_body_no_ctl s H NL Hin). unfold NL in *. lia.
Qed.

(* the scanner consumes at least the closing quote *)
Lemma scan_str_shorter : forall s r, scan_str s = Some r -> (length r < length s)%nat.
Proof.
  induction s as [s IH] using bytes_len_ind. intros r H. destruct s as [|c t]; [discriminate|].
  cbn [scan_str] in H. cbn [length].
  destruct (N.eqb c QUOTE); [inversion H; lia|]. destruct (N.ltb c 32); [discriminate|].
  destruct (N.eqb c BSLASH).
  - destruct t as [|e t']; [discriminate|]. cbn [length].
    destruct (is_simple_esc e).
    + apply IH in H; cbn [length]; lia.
    + destruct (N.eqb e 117); [|discriminate].
      destruct t' as [|h1 [|h2 [|h3 [|h4 t4]]]]; try discriminate.
      destruct (is_hex h1 && is_hex h2 && is_hex h3 && is_hex h4); [|discriminate].
      apply IH in H; cbn [length] in *; lia.
  - apply IH in H; cbn [length]; lia.
Qed.

Lemma quote_not_hex : is_hex QUOTE = false.
Proof. reflexivity. Qed.

(* the string literal that starts at the index name closes exactly at the intended quote
   iff the spliced text is JSON-string-safe *)
Theorem scan_str_exact : forall s rest,
  scan_str (s ++ QUOTE :: rest) = Some rest <-> str_body_ok s = true.
Proof.
  induction s as [s IH] using bytes_len_ind. intro rest. destruct s as [|c t].
  - cbn. split; reflexivity.
  - cbn [app scan_str str_body_ok].
    destruct (N.eqb c QUOTE).
    + split; [|discriminate]. intro H. inversion H as [H1].
      apply (f_equal (@length byte)) in H1. rewrite app_length in H1. cbn [length] in H1. lia.
    + destruct (N.ltb c 32); [split; discriminate|].
      destruct (N.eqb c BSLASH); [|apply IH; cbn [length]; lia].
      destruct t as [|e t'].
      * cbn [app]. change (is_simple_esc QUOTE) with true. cbv iota. split; [|discriminate].
        intro H. apply scan_str_shorter in H. lia.
      * cbn [app]. destruct (is_simple_esc e); [apply IH; cbn [length]; lia|].
        destruct (N.eqb e 117); [|split; discriminate].
        destruct t' as [|h1 [|h2 [|h3 [|h4 t4]]]]; cbn [app].
        -- change (is_hex QUOTE) with false. destruct rest as [|? [|? [|? ?]]]; cbn [andb]; split; discriminate.
        -- change (is_hex QUOTE) with false. destruct rest as [|? [|? ?]]; rewrite ?andb_false_r; cbn [andb]; split; discriminate.
        -- change (is_hex QUOTE) with false. destruct rest as [|? ?]; rewrite ?andb_false_r; cbn [andb]; split; discriminate.
        -- change (is_hex QUOTE) with false. rewrite ?andb_false_r. split; discriminate.
        -- destruct (is_hex h1 && is_hex h2 && is_hex h3 && is_hex h4); [|split; discriminate].
           apply IH. cbn [length]; lia.
Qed.

(* ---- the ES action line ------------------------------------------------------------------- *)
(* configuration texts must themselves be plain (a quote in index_format is a configuration error) *)
Definition es_cfg_plain (c : es_cfg) : Prop :=
  forallb is_plain (es_op c) = true /\ forallb is_plain (es_fmt c) = true /\ str_body_ok (es_time c) = true.
(* oracle hypothesis on the escaper (checked each run with encoding/json.Valid) *)
Definition esc_safe (e : ev) : Prop := Forall (fun x => str_body_ok x = true) (ev_esc e).

Lemma oracle_at_ok l k : Forall (fun x => str_body_ok x = true) l -> str_body_ok (oracle_at l k) = true.
Proof.
  intro F. unfold oracle_at. destruct (nth_in_or_default k l []) as [Hin | ->]; [|reflexivity].
  rewrite Forall_forall in F. apply F, Hin.
Qed.

Lemma es_piece_ok v time e k : str_body_ok time = true -> esc_safe e -> str_body_ok (es_piece v time e k) = true.
Proof.
  intros Ht He. destruct v; cbn [es_piece]; [exact Ht|].
  destruct (is_nil (oracle_at (ev_raw e) k)); [reflexivity|apply oracle_at_ok, He].
Qed.

Lemma es_name_spec_safe fmt : forall vals k time e s,
  forallb is_plain fmt = true -> str_body_ok time = true -> esc_safe e ->
  es_name_spec fmt vals k time e = Ok s -> str_body_ok s = true.
Proof.
  induction fmt as [|c r IH]; intros vals k time e s Hp Ht He H; cbn [es_name_spec forallb] in *.
  - inversion H. reflexivity.
  - apply andb_prop in Hp. destruct Hp as [Hc Hr]. destruct (N.eqb c PERCENT).
    + destruct vals as [|v vals']; [discriminate|].
      destruct (es_name_spec r vals' (S k) time e) as [s'| |] eqn:E; cbn [bind] in H; try discriminate.
      inversion H. apply str_body_ok_app; [apply es_piece_ok; auto|eapply IH; eauto].
    + destruct (es_name_spec r vals k time e) as [s'| |] eqn:E; cbn [bind] in H; try discriminate.
      inversion H. change (c :: s') with ([c] ++ s'). apply str_body_ok_app; [|eapply IH; eauto].
      apply str_body_plain. cbn [forallb]. rewrite Hc. reflexivity.
Qed.

Lemma es_name_of_safe c e : es_cfg_ok c -> es_cfg_plain c -> esc_safe e -> str_body_ok (es_name_of c e) = true.
Proof.
  intros Hc (Hop & Hfmt & Ht) He. unfold es_name_of.
  destruct (es_name_spec_total (es_fmt c) (es_vals c) 0 (es_time c) e Hc) as [s Hs]. rewrite Hs.
  eapply es_name_spec_safe; eauto.
Qed.

(* any text between the template's quotes: valid as soon as it is string-safe *)
Lemma jrun_seq s a b s1 r : jrun s a = Some s1 -> jrun s1 b = r -> jrun s (a ++ b) = r.
Proof. intros H1 H2. rewrite jrun_app, H1. exact H2. Qed.

Lemma es_template_valid op s : str_body_ok op = true -> str_body_ok s = true ->
  json_valid (es_prefix op ++ s ++ es_suffix) = true.
Proof.
  intros Hop Hs.
  assert (H : jrun (JVal, []) (es_prefix op ++ s ++ es_suffix) = Some (JEnd, [])).
  { unfold es_prefix. rewrite <- !app_assoc.
    apply (jrun_seq _ _ _ (JStr true, [CObj])); [reflexivity|].
    apply (jrun_seq _ _ _ (JStr true, [CObj])); [apply jrun_str_body, Hop|].
    apply (jrun_seq _ _ _ (JStr false, [CObj; CObj])); [reflexivity|].
    apply (jrun_seq _ _ _ (JStr false, [CObj; CObj])); [apply jrun_str_body, Hs|].
    reflexivity. }
  unfold json_valid. rewrite H. reflexivity.
Qed.

Lemma has_nl_app a b : has_nl (a ++ b) = has_nl a || has_nl b.
Proof. apply existsb_app. Qed.

Theorem es_header_valid c e hdr :
  es_cfg_ok c -> es_cfg_plain c -> esc_safe e ->
  es_header c e = Ok hdr ->
  json_valid hdr = true /\ has_nl hdr = false
  /\ exists name, hdr = es_prefix (es_op c) ++ name ++ es_suffix /\ str_body_ok name = true
                  /\ scan_str (name ++ es_suffix) = Some [125; 125]%N.
Proof.
  intros Hc Hp He H. rewrite (es_header_ok c e Hc) in H. inversion H. subst hdr. clear H.
  pose proof (es_name_of_safe c e Hc Hp He) as Hn. destruct Hp as (Hop & _ & _).
  apply str_body_plain in Hop. unfold es_header_of. repeat split.
  - apply es_template_valid; assumption.
  - unfold es_prefix. rewrite !has_nl_app, (str_body_no_nl _ Hop), (str_body_no_nl _ Hn). reflexivity.
  - exists (es_name_of c e). repeat split; [exact Hn|].
    unfold es_suffix. change ([34; 125; 125]%N) with (QUOTE :: [125; 125]%N). apply scan_str_exact, Hn.
Qed.

(* why the values must be escaped: the template with a raw quote or newline is not a JSON line *)
Lemma es_header_needs_escape :
  json_valid (es_prefix [105]%N ++ [97; 34; 98]%N ++ es_suffix) = false
  /\ has_nl (es_prefix [105]%N ++ [97; 10; 98]%N ++ es_suffix) = true
  /\ json_valid (es_prefix [105]%N ++ [97; 10; 98]%N ++ es_suffix) = false.
Proof. repeat split; vm_compute; reflexivity. Qed.

(* ---- newline / NUL delimited payloads decompose uniquely -------------------------------- *)
Lemma split_tail_frames sep : forall xs,
  Forall (fun x => existsb (N.eqb sep) x = false) xs ->
  split_tail sep (concat (map (fun x => x ++ [sep]) xs)) = (xs, []).
Proof.
  induction xs as [|x xs IH]; intro F; [reflexivity|].
  inversion F as [|? ? Hx Fx]; subst. specialize (IH Fx). cbn [map concat]. clear F Fx.
  rewrite <- app_assoc.
  assert (Hrest : split_tail sep ([sep] ++ concat (map (fun x => x ++ [sep]) xs)) = ([] :: xs, [])).
  { cbn [app split_tail]. rewrite IH, N.eqb_refl. reflexivity. }
  revert Hrest. generalize ([sep] ++ concat (map (fun x => x ++ [sep]) xs)) as rest. intros rest Hrest.
  induction x as [|c x IHx]; cbn [app split_tail].
  - exact Hrest.
  - cbn [existsb] in Hx. apply orb_false_iff in Hx. destruct Hx as [Hc Hx].
    rewrite (IHx Hx). rewrite N.eqb_sym, Hc. reflexivity.
Qed.

(* ==========================================================================================
   8. what one call of out() sends, for every previous buffer content and every answer script
   ========================================================================================== *)
Definition ok_req (q : sreq) : bool := is_ok_status (rq_status q).

(* the exchange part shared by ES and http *)
Lemma exchange_spec (split : bool) (fs : list bytes) (script : list Z) :
  exists log script' st err,
    (if split then send_split (Z.to_nat (len fs)) script 0 (len fs) (offsets 0 fs) (concat fs)
     else Ok (send_whole script (len fs) (concat fs))) = Ok (log, script', st, err)
    /\ (split = false -> log = [mkReq 0 (len fs) (concat fs) (fst (next_status script))])
    /\ Forall (fun q => 0 <= rq_l q /\ rq_r q <= len fs /\ rq_body q = frames_range fs (rq_l q) (rq_r q)) log
    /\ (err = false ->
        chain 0 (len fs) (ok_ranges log) /\ concat (map rq_body (filter ok_req log)) = concat fs).
Proof.
  destruct split.
  - destruct (split_covers_once fs script) as (log & sc & st & err & E & F & C).
    exists log, sc, st, err. repeat split; auto; try discriminate.
    + eapply Forall_impl; [|exact F]. unfold req_ok. intros q Hq. intuition lia.
    + apply C, H.
    + apply C, H.
  - unfold send_whole. destruct (next_status script) as [st sc] eqn:Hns. cbn [fst].
    pose proof (len_nonneg fs).
    eexists _, _, _, _. split; [reflexivity|]. repeat split.
    + constructor; [|constructor]. cbn [rq_l rq_r rq_body]. repeat split; try lia.
      symmetry. apply frames_range_all.
    + unfold ok_ranges. cbn [filter rq_status]. destruct (is_ok_status st); [|discriminate].
      cbn. repeat split; lia.
    + unfold ok_req. cbn [filter rq_status]. destruct (is_ok_status st); [|discriminate].
      cbn. apply app_nil_r.
Qed.

Theorem es_out_spec c batch prev script : es_cfg_ok c ->
  let fs := map (es_frame_of c) (deliverable batch) in
  exists a, es_out c batch prev script = Ok a
    /\ at_buf a = concat fs
    /\ (es_split c = false -> at_reqs a = [mkReq 0 (len fs) (concat fs) (fst (next_status script))])
    /\ Forall (fun q => 0 <= rq_l q /\ rq_r q <= len fs /\ rq_body q = frames_range fs (rq_l q) (rq_r q)) (at_reqs a)
    /\ (at_err a = false ->
        chain 0 (len fs) (ok_ranges (at_reqs a)) /\ concat (map rq_body (filter ok_req (at_reqs a))) = concat fs).
Proof.
  intro Hc. cbn zeta. unfold es_out. rewrite (es_build_spec c batch prev Hc). cbn [bind].
  destruct (exchange_spec (es_split c) (map (es_frame_of c) (deliverable batch)) script)
    as (log & sc & st & err & E & Hw & F & C).
  rewrite E. cbn [bind]. eexists. split; [reflexivity|]. cbn [at_buf at_reqs at_err]. auto.
Qed.

Theorem http_out_spec raw split batch prev script :
  let fs := map (frame_http raw) (deliverable batch) in
  exists a, http_out raw split batch prev script = Ok a
    /\ at_buf a = concat fs
    /\ (split = false -> at_reqs a = [mkReq 0 (len fs) (concat fs) (fst (next_status script))])
    /\ Forall (fun q => 0 <= rq_l q /\ rq_r q <= len fs /\ rq_body q = frames_range fs (rq_l q) (rq_r q)) (at_reqs a)
    /\ (at_err a = false ->
        chain 0 (len fs) (ok_ranges (at_reqs a)) /\ concat (map rq_body (filter ok_req (at_reqs a))) = concat fs).
Proof.
  cbn zeta. unfold http_out. rewrite (http_build_spec raw batch prev).
  destruct (exchange_spec split (map (frame_http raw) (deliverable batch)) script)
    as (log & sc & st & err & E & Hw & F & C).
  rewrite E. cbn [bind]. eexists. split; [reflexivity|]. cbn [at_buf at_reqs at_err]. auto.
Qed.

Theorem file_out_spec batch prev script :
  exists a, file_out batch prev script = Ok a
    /\ at_buf a = concat (map frame_file (deliverable batch))
    /\ map rq_body (at_reqs a) = [concat (map frame_file (deliverable batch))].
Proof.
  unfold file_out. rewrite build_frames_spec. eexists. split; [reflexivity|]. split; reflexivity.
Qed.

Theorem splunk_out_spec cfg batch prev script :
  exists a, splunk_out cfg batch prev script = Ok a
    /\ at_buf a = concat (map (envelope cfg) (deliverable batch))
    /\ map rq_body (at_reqs a) = [concat (map (envelope cfg) (deliverable batch))].
Proof.
  unfold splunk_out, send_whole. rewrite build_frames_spec. destruct (next_status script) as [st sc].
  eexists. split; [reflexivity|]. split; reflexivity.
Qed.

(* ---- splunk copy_fields: the envelope ------------------------------------------------------ *)
(* without copy_fields the envelope is {"event":<the event>} *)
Lemma envelope_nil e : envelope [] e = frame_splunk e.
Proof. reflexivity. Qed.

Theorem splunk_out_nocopy_spec batch prev script :
  exists a, splunk_out [] batch prev script = Ok a
    /\ at_buf a = concat (map frame_splunk (deliverable batch))
    /\ map rq_body (at_reqs a) = [concat (map frame_splunk (deliverable batch))].
Proof.
  destruct (splunk_out_spec [] batch prev script) as (a & E & B & R). exists a.
  rewrite (map_ext _ _ envelope_nil) in B, R. auto.
Qed.

(* the payload of a batch: the envelopes of its deliverable events, in order *)
Definition splunk_payload (cfg : list cp_entry) (batch : list ev) : bytes :=
  concat (map (envelope cfg) (deliverable batch)).

Lemma splunk_payload_mid cfg pre e post : is_parent e = false ->
  splunk_payload cfg (pre ++ e :: post) = splunk_payload cfg pre ++ envelope cfg e ++ splunk_payload cfg post.
Proof.
  intro Hp. unfold splunk_payload. rewrite deliverable_app. cbn [deliverable filter]. rewrite Hp. cbn [negb].
  rewrite map_app, concat_app. reflexivity.
Qed.

(* envelope independence / no cross-event leakage: whatever the other events of the batch are — any
   events before, any events after, any previous buffer content, any answers — the bytes the batch's
   request carries for a deliverable event e are [envelope cfg e], a function of e and the configuration
   alone; so permuting, replacing or removing OTHER events never changes e's envelope *)
Theorem splunk_envelope_independent cfg e pre post prev script :
  is_parent e = false ->
  exists a, splunk_out cfg (pre ++ e :: post) prev script = Ok a
    /\ map rq_body (at_reqs a) = [at_buf a]
    /\ at_buf a = splunk_payload cfg pre ++ envelope cfg e ++ splunk_payload cfg post
    /\ slice (at_buf a) (len (splunk_payload cfg pre)) (len (splunk_payload cfg pre) + len (envelope cfg e))
       = Ok (envelope cfg e).
Proof.
  intro Hp. destruct (splunk_out_spec cfg (pre ++ e :: post) prev script) as (a & E & B & R).
  exists a. split; [exact E|]. fold (splunk_payload cfg (pre ++ e :: post)) in B, R.
  rewrite (splunk_payload_mid cfg pre e post Hp) in B, R.
  split; [rewrite R, B; reflexivity|]. split; [exact B|]. rewrite B. apply slice_app_mid.
Qed.

Theorem splunk_no_cross_event_leak cfg e pre1 post1 pre2 post2 p1 s1 p2 s2 :
  is_parent e = false ->
  exists a1 a2,
    splunk_out cfg (pre1 ++ e :: post1) p1 s1 = Ok a1 /\ splunk_out cfg (pre2 ++ e :: post2) p2 s2 = Ok a2
    /\ slice (at_buf a1) (len (splunk_payload cfg pre1)) (len (splunk_payload cfg pre1) + len (envelope cfg e))
       = slice (at_buf a2) (len (splunk_payload cfg pre2)) (len (splunk_payload cfg pre2) + len (envelope cfg e))
    /\ slice (at_buf a1) (len (splunk_payload cfg pre1)) (len (splunk_payload cfg pre1) + len (envelope cfg e))
       = Ok (envelope cfg e).
Proof.
  intro Hp.
  destruct (splunk_envelope_independent cfg e pre1 post1 p1 s1 Hp) as (a1 & E1 & _ & _ & S1).
  destruct (splunk_envelope_independent cfg e pre2 post2 p2 s2 Hp) as (a2 & E2 & _ & _ & S2).
  exists a1, a2. rewrite S1, S2. auto.
Qed.

(* the envelope reads nothing of the event but its encoding and its copied values *)
Theorem envelope_local cfg e1 e2 :
  enc e1 = enc e2 -> ev_copy e1 = ev_copy e2 -> envelope cfg e1 = envelope cfg e2.
Proof. unfold envelope. intros -> ->. reflexivity. Qed.

(* an event that has none of the source fields gets the bare envelope, whatever is configured *)
Lemma apply_copies_none cfg : forall vals fs,
  Forall (fun v => v = None) vals -> apply_copies cfg vals fs = fs.
Proof.
  induction cfg as [|c r IH]; intros vals fs Hv; cbn [apply_copies]; [reflexivity|].
  destruct vals as [|v vs].
  - cbn [tl]. destruct (splunk_keep (cp_to_raw c)); apply IH; constructor.
  - inversion Hv as [|? ? Hv1 Hv2]; subst. cbn [tl]. destruct (splunk_keep (cp_to_raw c)); apply IH; exact Hv2.
Qed.

Theorem envelope_no_sources cfg e :
  Forall (fun v => v = None) (ev_copy e) -> envelope cfg e = frame_splunk e.
Proof. intro H. unfold envelope. rewrite apply_copies_none by exact H. reflexivity. Qed.

(* a configuration as Start() leaves it: a kept entry has a non-empty target path that does not
   start at the "event" key (the glue rejects every other case) *)
Definition cp_ok (c : cp_entry) : Prop :=
  splunk_keep (cp_to_raw c) = true ->
  match cp_to c with [] => False | (k, _) :: _ => bytes_eqb EVENT_KEY k = false end.

Lemma cp_entry_of_sx_ok s c : cp_entry_of_sx s = Some c -> cp_ok c.
Proof.
  unfold cp_entry_of_sx, cp_ok.
  destruct s as [| |l]; try discriminate.
  destruct l as [|[| |] l]; try discriminate.
  destruct l as [|[|to|] l]; try discriminate.
  destruct l as [|[| |fl] l]; try discriminate.
  destruct l as [|segs l]; try discriminate.
  destruct l; try discriminate.
  destruct (as_list seg_of_sx segs) as [p|]; try discriminate.
  destruct (splunk_keep to) eqn:K.
  - destruct p as [|[k esc] p']; try discriminate.
    destruct (bytes_eqb EVENT_KEY k) eqn:Ek; try discriminate.
    intro H. injection H as <-. cbn [cp_to_raw cp_to]. intros _. exact Ek.
  - intro H. injection H as <-. cbn [cp_to_raw]. rewrite K. discriminate.
Qed.

Lemma upsert_other k esc f k0 e0 x0 r :
  bytes_eqb k0 k = false -> upsert k esc f ((k0, e0, x0) :: r) = (k0, e0, x0) :: upsert k esc f r.
Proof. intro H. cbn [upsert]. rewrite H. reflexivity. Qed.

Lemma set_path_keeps_head path v k0 e0 x0 r :
  match path with [] => True | (k, _) :: _ => bytes_eqb k0 k = false end ->
  exists r', set_path path v ((k0, e0, x0) :: r) = (k0, e0, x0) :: r'.
Proof.
  destruct path as [|[k esc] rest]; intro H; cbn [set_path].
  - eexists. reflexivity.
  - destruct rest; rewrite upsert_other by exact H; eexists; reflexivity.
Qed.

Lemma apply_copies_keeps_event cfg : Forall cp_ok cfg -> forall vals x0 r,
  exists r', apply_copies cfg vals ((EVENT_KEY, EVENT_ESC, x0) :: r) = (EVENT_KEY, EVENT_ESC, x0) :: r'.
Proof.
  induction 1 as [|c cfg Hc _ IH]; intros vals x0 r; cbn [apply_copies].
  - eexists. reflexivity.
  - destruct (splunk_keep (cp_to_raw c)) eqn:K; [|apply IH].
    destruct vals as [|[x|] vs]; cbn [tl]; try apply IH.
    specialize (Hc K).
    destruct (set_path_keeps_head (cp_to c) x EVENT_KEY EVENT_ESC x0 r) as (r1 & E1).
    { destruct (cp_to c) as [|[k esc] rest]; [exact I|exact Hc]. }
    rewrite E1. apply IH.
Qed.

(* every envelope starts with {"event":<the event's encoding> — the event is carried whole and first —
   and goes on with the closing brace or with a comma and the copied fields *)
Theorem envelope_carries_event cfg e : Forall cp_ok cfg ->
  exists tail, envelope cfg e = SPLUNK_PRE ++ enc e ++ tail
    /\ (tail = [125]%N \/ exists t, tail = 44%N :: t).
Proof.
  intro Hc. unfold envelope.
  destruct (apply_copies_keeps_event cfg Hc (ev_copy e) (OV (enc e)) []) as (r' & E). rewrite E.
  destruct r' as [|[[k1 e1] x1] r''].
  - exists [125]%N. split; [reflexivity|left; reflexivity].
  - eexists. split; [cbn [oenc]; reflexivity|]. right. eexists. reflexivity.
Qed.

Theorem gelf_out_spec batch prev script :
  exists a, gelf_out batch prev script = Ok a
    /\ at_buf a = concat (map frame_gelf (deliverable batch))
    /\ map rq_body (at_reqs a) = [concat (map frame_gelf (deliverable batch))].
Proof.
  unfold gelf_out. rewrite build_frames_spec. destruct (next_status script) as [st sc].
  eexists. split; [reflexivity|]. split; reflexivity.
Qed.

(* buffer reuse and retries: the payload of a batch does not depend on what the worker's buffer held
   nor on how earlier requests were answered — a second attempt re-sends the same bytes *)
Theorem payload_independent batch :
  (forall c, es_cfg_ok c -> forall p1 s1 p2 s2 a1 a2,
      es_out c batch p1 s1 = Ok a1 -> es_out c batch p2 s2 = Ok a2 -> at_buf a1 = at_buf a2)
  /\ (forall raw sp p1 s1 p2 s2 a1 a2,
      http_out raw sp batch p1 s1 = Ok a1 -> http_out raw sp batch p2 s2 = Ok a2 -> at_buf a1 = at_buf a2)
  /\ (forall p1 s1 p2 s2 a1 a2,
      file_out batch p1 s1 = Ok a1 -> file_out batch p2 s2 = Ok a2 -> at_buf a1 = at_buf a2)
  /\ (forall cfg p1 s1 p2 s2 a1 a2,
      splunk_out cfg batch p1 s1 = Ok a1 -> splunk_out cfg batch p2 s2 = Ok a2 -> at_buf a1 = at_buf a2)
  /\ (forall p1 s1 p2 s2 a1 a2,
      gelf_out batch p1 s1 = Ok a1 -> gelf_out batch p2 s2 = Ok a2 -> at_buf a1 = at_buf a2)
  /\ (forall c p1 p2, len (deliverable batch) <= k_batch_size c -> kafka_build c batch p1 = kafka_build c batch p2).
Proof.
  split; [|split; [|split; [|split; [|split]]]].
  - intros c Hc p1 s1 p2 s2 a1 a2 H1 H2.
    destruct (es_out_spec c batch p1 s1 Hc) as (b1 & E1 & B1 & _).
    destruct (es_out_spec c batch p2 s2 Hc) as (b2 & E2 & B2 & _). congruence.
  - intros raw sp p1 s1 p2 s2 a1 a2 H1 H2.
    destruct (http_out_spec raw sp batch p1 s1) as (b1 & E1 & B1 & _).
    destruct (http_out_spec raw sp batch p2 s2) as (b2 & E2 & B2 & _). congruence.
  - intros p1 s1 p2 s2 a1 a2 H1 H2.
    destruct (file_out_spec batch p1 s1) as (b1 & E1 & B1 & _).
    destruct (file_out_spec batch p2 s2) as (b2 & E2 & B2 & _). congruence.
  - intros cfg p1 s1 p2 s2 a1 a2 H1 H2.
    destruct (splunk_out_spec cfg batch p1 s1) as (b1 & E1 & B1 & _).
    destruct (splunk_out_spec cfg batch p2 s2) as (b2 & E2 & B2 & _). congruence.
  - intros p1 s1 p2 s2 a1 a2 H1 H2.
    destruct (gelf_out_spec batch p1 s1) as (b1 & E1 & B1 & _).
    destruct (gelf_out_spec batch p2 s2) as (b2 & E2 & B2 & _). congruence.
  - intros c p1 p2 H. rewrite !kafka_build_spec by exact H. reflexivity.
Qed.

(* ==========================================================================================
   9. well-formedness of the line-oriented payloads (under the enc oracle hypotheses)
   ========================================================================================== *)
Definition enc_valid (e : ev) : Prop := json_valid (enc e) = true.
Definition enc_line_safe (e : ev) : Prop := has_nl (enc e) = false.

Lemma es_frames_as_lines c evs :
  concat (map (es_frame_of c) evs)
  = concat (map (fun x => x ++ [NL]) (flat_map (fun e => [es_header_of c e; enc e]) evs)).
Proof.
  induction evs as [|e r IH]; [reflexivity|]. cbn [map concat flat_map app]. rewrite IH.
  unfold es_frame_of. rewrite <- !app_assoc. reflexivity.
Qed.

(* the ES bulk body is exactly 2n lines: action line, document, action line, document, ...;
   every line is one valid JSON document *)
Theorem es_payload_lines c batch prev :
  es_cfg_ok c -> es_cfg_plain c ->
  Forall esc_safe (deliverable batch) -> Forall enc_line_safe (deliverable batch) -> Forall enc_valid (deliverable batch) ->
  exists data begin n,
    es_build c batch prev = Ok (data, begin, n)
    /\ lines_tail data = (flat_map (fun e => [es_header_of c e; enc e]) (deliverable batch), [])
    /\ Forall (fun l => json_valid l = true) (flat_map (fun e => [es_header_of c e; enc e]) (deliverable batch)).
Proof.
  intros Hc Hp He Hl Hv. eexists _, _, _. split; [apply es_build_spec, Hc|].
  assert (Hhdr : forall e, In e (deliverable batch) ->
            json_valid (es_header_of c e) = true /\ has_nl (es_header_of c e) = false).
  { intros e Hin. rewrite Forall_forall in He.
    destruct (es_header_valid c e (es_header_of c e) Hc Hp (He e Hin) (es_header_ok c e Hc)) as (H1 & H2 & _).
    auto. }
  split.
  - rewrite es_frames_as_lines. unfold lines_tail. apply split_tail_frames.
    apply Forall_forall. intros l Hin. apply in_flat_map in Hin. destruct Hin as (e & He' & Hin).
    destruct Hin as [<-|[<-|[]]].
    + apply Hhdr, He'.
    + rewrite Forall_forall in Hl. apply Hl, He'.
  - apply Forall_forall. intros l Hin. apply in_flat_map in Hin. destruct Hin as (e & He' & Hin).
    destruct Hin as [<-|[<-|[]]].
    + apply Hhdr, He'.
    + rewrite Forall_forall in Hv. apply Hv, He'.
Qed.

(* file and http (json encoder): the lines of the payload are the events' documents *)
Theorem ndjson_payload_lines batch prev :
  Forall enc_line_safe (deliverable batch) ->
  lines_tail (build_frames frame_file batch prev) = (map enc (deliverable batch), []).
Proof.
  intro Hl. rewrite build_frames_spec. unfold lines_tail, frame_file.
  rewrite <- (map_map enc (fun x => x ++ [NL])). apply split_tail_frames.
  apply Forall_forall. intros l Hin. apply in_map_iff in Hin. destruct Hin as (e & <- & He).
  rewrite Forall_forall in Hl. apply Hl, He.
Qed.

(* ==========================================================================================
   10. a concrete instance of the hypotheses (used by the non-vacuity example)
   ========================================================================================== *)
Definition ex_cfg : es_cfg := mkEs [105]%N [120; 45; 37]%N [IField] [116]%N true.
Definition ex_e1 : ev := mkEv 0 [123; 49; 125]%N [[97; 34; 98]%N] [[97; 92; 34; 98]%N] [] None [].
Definition ex_e2 : ev := mkEv 2 [123; 50; 125]%N [[]] [[]] [] None [].
Definition ex_e3 : ev := mkEv 0 [123; 51; 125]%N [[]] [[]] [] None [].
Lemma ex_hyps_ok : es_cfg_ok ex_cfg /\ es_cfg_plain ex_cfg /\ esc_safe ex_e1.
Proof.
  split; [unfold es_cfg_ok; cbn; lia|]. split; [repeat split; reflexivity|].
  unfold esc_safe. cbn. repeat constructor.
Qed.

(* the splunk instance: ts -> time, service -> fields.service_name, and an entry to event.x that Start() drops *)
Definition ex_scfg : list cp_entry := [mkCp [116; 105; 109; 101]%N [([116; 105; 109; 101]%N, [34; 116; 105; 109; 101; 34]%N)]; mkCp [102; 105; 101; 108; 100; 115; 46; 115; 101; 114; 118; 105; 99; 101; 95; 110; 97; 109; 101]%N [([102; 105; 101; 108; 100; 115]%N, [34; 102; 105; 101; 108; 100; 115; 34]%N); ([115; 101; 114; 118; 105; 99; 101; 95; 110; 97; 109; 101]%N, [34; 115; 101; 114; 118; 105; 99; 101; 95; 110; 97; 109; 101; 34]%N)]; mkCp [101; 118; 101; 110; 116; 46; 120]%N [([101; 118; 101; 110; 116]%N, [34; 101; 118; 101; 110; 116; 34]%N); ([120]%N, [34; 120; 34]%N)]].
Definition ex_s1 : ev := mkEv 0 [123; 34; 109; 115; 103; 34; 58; 34; 102; 105; 114; 115; 116; 34; 44; 34; 116; 115; 34; 58; 34; 49; 55; 34; 44; 34; 115; 101; 114; 118; 105; 99; 101; 34; 58; 34; 97; 34; 125]%N [] [] [] None [Some (OV [34; 49; 55; 34]%N); Some (OV [34; 97; 34]%N); Some (OV [34; 102; 105; 114; 115; 116; 34]%N)].
Definition ex_s2 : ev := mkEv 0 [123; 34; 109; 115; 103; 34; 58; 34; 115; 101; 99; 111; 110; 100; 34; 125]%N [] [] [] None [None; None; Some (OV [34; 115; 101; 99; 111; 110; 100; 34]%N)].
Definition ex_s3 : ev := mkEv 0 [123; 34; 109; 115; 103; 34; 58; 34; 116; 104; 105; 114; 100; 34; 44; 34; 115; 101; 114; 118; 105; 99; 101; 34; 58; 34; 99; 34; 125]%N [] [] [] None [None; Some (OV [34; 99; 34]%N); Some (OV [34; 116; 104; 105; 114; 100; 34]%N)].
Lemma ex_scfg_ok : Forall cp_ok ex_scfg.
Proof. repeat constructor; unfold cp_ok; cbn; try discriminate; intros _; reflexivity. Qed.

(* ==========================================================================================
   11. splunk envelopes are valid JSON documents, and the body of a batch is cut into exactly them
   ========================================================================================== *)
(* the automaton only looks at the top of its stack: a run that succeeds on a stack succeeds on
   every extension of that stack, with the same states *)
Lemma jstep_frame base st s c st' s' :
  jstep (st, s) c = Some (st', s') -> jstep (st, s ++ base) c = Some (st', s' ++ base).
Proof.
  unfold jstep, j_val, j_end.
  destruct st; intros H;
  repeat match type of H with
         | context [if ?b then _ else _] => destruct b
         | context [match ?l with [] => _ | _ :: _ => _ end] => destruct l
         | context [match ?x with CObj => _ | CArr => _ end] => destruct x
         | context [match ?n with O => _ | S _ => _ end] => destruct n
         end;
  try discriminate; try (injection H as <- <-; reflexivity).
Qed.

Lemma jrun_frame base : forall l st s st' s',
  jrun (st, s) l = Some (st', s') -> jrun (st, s ++ base) l = Some (st', s' ++ base).
Proof.
  induction l as [|c l IH]; intros st s st' s' H; cbn [jrun] in *.
  - injection H as <- <-. reflexivity.
  - destruct (jstep (st, s) c) as [[st1 s1]|] eqn:E; [|discriminate].
    rewrite (jstep_frame base _ _ _ _ _ E). apply IH, H.
Qed.

(* states in which a JSON value is complete: the next byte is a separator *)
Definition term_state (st : jst) : bool :=
  match st with JEnd | JZero | JInt | JFrac | JExpDig => true | _ => false end.

(* a byte sequence that is one JSON value wherever a value is expected *)
Definition value_ok (d : bytes) : Prop :=
  forall stk, exists st, jrun (JVal, stk) d = Some (st, stk) /\ term_state st = true.

Lemma json_valid_value_ok d : json_valid d = true -> value_ok d.
Proof.
  unfold json_valid. intros H stk.
  destruct (jrun (JVal, []) d) as [[st s]|] eqn:E; [|discriminate].
  assert (s = [] /\ term_state st = true) as [-> Ht].
  { destruct st; cbn in H; try discriminate; destruct s; try discriminate; split; reflexivity. }
  exists st. split; [|exact Ht]. apply (jrun_frame stk) in E. exact E.
Qed.

Lemma term_comma st stk : term_state st = true -> jstep (st, CObj :: stk) 44%N = Some (JKey, CObj :: stk).
Proof. destruct st; try discriminate; reflexivity. Qed.
Lemma term_close st stk : term_state st = true -> jstep (st, CObj :: stk) 125%N = Some (JEnd, stk).
Proof. destruct st; try discriminate; reflexivity. Qed.

(* a JSON string literal with a string-safe body *)
Definition lit_ok (esc : bytes) : Prop := exists body, esc = QUOTE :: body ++ [QUOTE] /\ str_body_ok body = true.

Lemma jrun_key esc stk st0 : lit_ok esc -> (st0 = JKey \/ st0 = JKeyOrEnd) ->
  jrun (st0, stk) (esc ++ [58]%N) = Some (JVal, stk).
Proof.
  intros (body & -> & Hb) Hst. cbn [app].
  assert (E : jstep (st0, stk) QUOTE = Some (JStr true, stk)) by (destruct Hst as [-> | ->]; reflexivity).
  cbn [jrun]. rewrite E. rewrite <- app_assoc.
  apply (jrun_seq _ _ _ (JStr true, stk)); [apply jrun_str_body, Hb|]. reflexivity.
Qed.

(* well-formed oracle trees: leaves are JSON documents, key literals are string literals *)
Fixpoint owf (v : oval) : Prop :=
  match v with
  | OV r => json_valid r = true
  | OO fs => (fix go (fs : list ofield) : Prop :=
                match fs with
                | [] => True
                | (_, esc, x) :: r => lit_ok esc /\ owf x /\ go r
                end) fs
  end.
Definition fields_wf (fs : list ofield) : Prop := owf (OO fs).

Lemma fields_wf_cons k esc x r : fields_wf ((k, esc, x) :: r) <-> lit_ok esc /\ owf x /\ fields_wf r.
Proof. reflexivity. Qed.

Fixpoint odepth (v : oval) : nat :=
  match v with
  | OV _ => O
  | OO fs => S ((fix go (fs : list ofield) : nat :=
                   match fs with [] => O | (_, _, x) :: r => Nat.max (odepth x) (go r) end) fs)
  end.
Definition fields_depth (fs : list ofield) : nat :=
  (fix go (fs : list ofield) : nat := match fs with [] => O | (_, _, x) :: r => Nat.max (odepth x) (go r) end) fs.
Lemma odepth_OO fs : odepth (OO fs) = S (fields_depth fs).
Proof. reflexivity. Qed.
Lemma fields_depth_cons k esc x r : fields_depth ((k, esc, x) :: r) = Nat.max (odepth x) (fields_depth r).
Proof. reflexivity. Qed.

(* the tail of an object's encoding after a field value *)
Definition ogo := (fix go (fs : list ofield) (first : bool) : bytes :=
                  match fs with
                  | [] => [125]%N
                  | (_, esc, x) :: r => (if first then [] else [44]%N) ++ esc ++ 58%N :: oenc x ++ go r false
                  end).
Lemma oenc_OO fs : oenc (OO fs) = 123%N :: ogo fs true.
Proof. reflexivity. Qed.
Lemma ogo_cons k esc x r first :
  ogo ((k, esc, x) :: r) first = (if first then [] else [44]%N) ++ (esc ++ [58]%N) ++ oenc x ++ ogo r false.
Proof. cbn [ogo]. rewrite <- !app_assoc. reflexivity. Qed.

Lemma oenc_value_ok : forall n v, (odepth v <= n)%nat -> owf v -> value_ok (oenc v).
Proof.
  induction n as [|n IH]; intros v Hd Hw.
  - destruct v as [r|fs]; [apply json_valid_value_ok, Hw|]. rewrite odepth_OO in Hd. lia.
  - destruct v as [r|fs]; [apply json_valid_value_ok, Hw|].
    rewrite odepth_OO in Hd. apply le_S_n in Hd. fold (fields_wf fs) in Hw.
    (* the rest of the fields, from the state after a value *)
    assert (Hrest : forall fs, (fields_depth fs <= n)%nat -> fields_wf fs -> forall st stk, term_state st = true ->
              jrun (st, CObj :: stk) (ogo fs false) = Some (JEnd, stk)).
    { clear fs Hd Hw. induction fs as [|[[k esc] x] r IHr]; intros Hd Hw st stk Ht.
      - cbn [ogo jrun]. rewrite (term_close st stk Ht). reflexivity.
      - rewrite fields_depth_cons in Hd. apply (proj1 (fields_wf_cons _ _ _ _)) in Hw. destruct Hw as (Hl & Hx & Hr).
        rewrite ogo_cons. cbn [app jrun]. rewrite (term_comma st stk Ht).
        apply (jrun_seq _ _ _ (JVal, CObj :: stk)); [apply jrun_key; auto|].
        destruct (IH x ltac:(lia) Hx (CObj :: stk)) as (st1 & E1 & T1).
        apply (jrun_seq _ _ _ (st1, CObj :: stk)); [exact E1|].
        apply IHr; [lia|exact Hr|exact T1]. }
    intro stk. exists JEnd. split; [|reflexivity]. rewrite oenc_OO. cbn [jrun jstep]. 
    change (jstep (JVal, stk) 123%N) with (Some (JKeyOrEnd, CObj :: stk)).
    destruct fs as [|[[k esc] x] r].
    + reflexivity.
    + rewrite fields_depth_cons in Hd. apply (proj1 (fields_wf_cons _ _ _ _)) in Hw. destruct Hw as (Hl & Hx & Hr).
      rewrite ogo_cons. cbn [app].
      apply (jrun_seq _ _ _ (JVal, CObj :: stk)); [apply jrun_key; auto|].
      destruct (IH x ltac:(lia) Hx (CObj :: stk)) as (st1 & E1 & T1).
      apply (jrun_seq _ _ _ (st1, CObj :: stk)); [exact E1|].
      apply Hrest; [lia|exact Hr|exact T1].
Qed.

Lemma value_ok_json_valid d : value_ok d -> json_valid d = true.
Proof.
  intro H. destruct (H []) as (st & E & T). unfold json_valid. rewrite E.
  destruct st; try discriminate; reflexivity.
Qed.

Definition opt_wf (o : option oval) : Prop := match o with Some x => owf x | None => True end.

Lemma fields_of_wf o : opt_wf o -> fields_wf (fields_of o).
Proof. destruct o as [[r|fs]|]; intro H; try exact I. exact H. Qed.

Lemma upsert_wf k esc f : lit_ok esc -> (forall o, opt_wf o -> owf (f o)) ->
  forall fs, fields_wf fs -> fields_wf (upsert k esc f fs).
Proof.
  intros Hl Hf. induction fs as [|[[k' e'] x] r IH]; intro Hw; cbn [upsert].
  - apply fields_wf_cons. split; [exact Hl|]. split; [apply Hf; exact I|exact I].
  - apply (proj1 (fields_wf_cons _ _ _ _)) in Hw. destruct Hw as (Hl' & Hx & Hr).
    destruct (bytes_eqb k' k); apply fields_wf_cons.
    + split; [exact Hl'|]. split; [apply Hf; exact Hx|exact Hr].
    + split; [exact Hl'|]. split; [exact Hx|apply IH, Hr].
Qed.

Lemma set_path_wf v : owf v -> forall path, Forall (fun p => lit_ok (snd p)) path ->
  forall fs, fields_wf fs -> fields_wf (set_path path v fs).
Proof.
  intro Hv. induction path as [|[k esc] rest IH]; intros Hp fs Hw; cbn [set_path]; [exact Hw|].
  inversion Hp as [|? ? Hl Hrest]; subst. cbn [snd] in Hl.
  destruct rest as [|q rest'].
  - apply upsert_wf; [exact Hl| |exact Hw]. intros o _. exact Hv.
  - apply upsert_wf; [exact Hl| |exact Hw]. intros o Ho.
    change (fields_wf (set_path (q :: rest') v (fields_of o))). apply IH; [exact Hrest|apply fields_of_wf, Ho].
Qed.

(* a configuration whose target key literals are JSON string literals (the harness takes them from
   insane-json's escaper; hypothesis esc_safe, checked on every run) *)
Definition cp_lits_ok (c : cp_entry) : Prop := Forall (fun p => lit_ok (snd p)) (cp_to c).

Lemma apply_copies_wf cfg : Forall cp_lits_ok cfg -> forall vals fs,
  Forall opt_wf vals -> fields_wf fs -> fields_wf (apply_copies cfg vals fs).
Proof.
  induction 1 as [|c cfg Hc _ IH]; intros vals fs Hv Hw; cbn [apply_copies]; [exact Hw|].
  assert (Htl : Forall opt_wf (tl vals)) by (destruct vals; [constructor|inversion Hv; assumption]).
  apply IH; [exact Htl|].
  destruct (splunk_keep (cp_to_raw c)); [|exact Hw].
  destruct vals as [|[x|] vs]; try exact Hw.
  inversion Hv as [|? ? Hx _]; subst. apply set_path_wf; [exact Hx|exact Hc|exact Hw].
Qed.

Lemma event_lit_ok : lit_ok EVENT_ESC.
Proof. exists EVENT_KEY. split; reflexivity. Qed.

(* the envelope of an event is one valid JSON document (an object), whatever the configuration copies
   where, as long as the event's encoding and the copied values are JSON documents (oracle hypotheses
   enc_valid / copy_faithful) and the key literals are string literals *)
Theorem envelope_valid cfg e :
  Forall cp_lits_ok cfg -> json_valid (enc e) = true -> Forall opt_wf (ev_copy e) ->
  json_valid (envelope cfg e) = true /\ exists rest, envelope cfg e = 123%N :: rest.
Proof.
  intros Hc He Hv. split; [|eexists; unfold envelope; rewrite oenc_OO; reflexivity].
  apply value_ok_json_valid. unfold envelope. eapply oenc_value_ok; [apply le_n|].
  change (fields_wf (apply_copies cfg (ev_copy e) [(EVENT_KEY, EVENT_ESC, OV (enc e))])).
  apply apply_copies_wf; [exact Hc|exact Hv|].
  apply fields_wf_cons. split; [exact event_lit_ok|]. split; [exact He|exact I].
Qed.

(* ---- cutting a row of envelopes: split_docs finds exactly the envelopes ---------------------- *)
(* a run that succeeds on its own stack never brings the automaton to depth 0 when it happens above a
   non-empty base: split_docs does not cut inside it *)
Lemma split_docs_lift b base : forall l st s st' s' rc rest,
  jrun (st, s) l = Some (st', s') ->
  split_docs (st, s ++ b :: base) rc (l ++ rest) = split_docs (st', s' ++ b :: base) (rev_append l rc) rest.
Proof.
  induction l as [|c l IH]; intros st s st' s' rc rest H; cbn [jrun] in H.
  - injection H as <- <-. reflexivity.
  - destruct (jstep (st, s) c) as [[st1 s1]|] eqn:E; [|discriminate].
    cbn [app split_docs rev_append]. rewrite (jstep_frame (b :: base) _ _ _ _ _ E).
    rewrite <- (IH _ _ _ _ (c :: rc) rest H).
    destruct st1; try reflexivity. destruct s1; reflexivity.
Qed.

Lemma split_docs_step st stk c st' b stk' rc l :
  jstep (st, stk) c = Some (st', b :: stk') ->
  split_docs (st, stk) rc (c :: l) = split_docs (st', b :: stk') (c :: rc) l.
Proof. intro E. cbn [split_docs]. rewrite E. destruct st'; reflexivity. Qed.

Lemma ogo_cons_rest k esc x r first rest :
  ogo ((k, esc, x) :: r) first ++ rest
  = (if first then [] else [44]%N) ++ (esc ++ [58]%N) ++ oenc x ++ (ogo r false ++ rest).
Proof. rewrite ogo_cons. repeat rewrite <- app_assoc. reflexivity. Qed.

Lemma split_fields_rest : forall fs, fields_wf fs -> forall st rc rest, term_state st = true ->
  split_docs (st, [CObj]) rc (ogo fs false ++ rest)
  = match split_docs (JVal, []) [] rest with
    | Some ds => Some ((rev rc ++ ogo fs false) :: ds)
    | None => None
    end.
Proof.
  induction fs as [|[[k esc] x] r IH]; intros Hw st rc rest Ht.
  - cbn [ogo app split_docs]. rewrite (term_close st [] Ht).
    destruct (split_docs (JVal, []) [] rest); [|reflexivity].
    unfold rev_fast. rewrite rev_append_rev, app_nil_r. cbn [rev]. reflexivity.
  - apply (proj1 (fields_wf_cons _ _ _ _)) in Hw. destruct Hw as (Hl & Hx & Hr).
    rewrite ogo_cons_rest. cbn [app]. rewrite (split_docs_step _ _ _ JKey CObj []) by (apply term_comma, Ht).
    rewrite (split_docs_lift CObj [] _ JKey [] JVal []) by (apply jrun_key; auto).
    destruct (oenc_value_ok _ x (le_n _) Hx []) as (st1 & E1 & T1).
    rewrite (split_docs_lift CObj [] _ JVal [] st1 [] _ _ E1). cbn [app].
    rewrite (IH Hr st1 _ rest T1).
    destruct (split_docs (JVal, []) [] rest); [|reflexivity].
    rewrite !rev_append_rev, !rev_app_distr, !rev_involutive. cbn [rev app]. rewrite <- !app_assoc. reflexivity.
Qed.

Lemma split_object fs rest : fields_wf fs ->
  split_docs (JVal, []) [] (oenc (OO fs) ++ rest)
  = match split_docs (JVal, []) [] rest with
    | Some ds => Some (oenc (OO fs) :: ds)
    | None => None
    end.
Proof.
  intro Hw. rewrite oenc_OO. cbn [app].
  rewrite (split_docs_step _ _ _ JKeyOrEnd CObj []) by reflexivity.
  destruct fs as [|[[k esc] x] r].
  - cbn [ogo app split_docs jstep]. destruct (split_docs (JVal, []) [] rest); reflexivity.
  - apply (proj1 (fields_wf_cons _ _ _ _)) in Hw. destruct Hw as (Hl & Hx & Hr).
    rewrite ogo_cons_rest. cbn [app].
    rewrite (split_docs_lift CObj [] _ JKeyOrEnd [] JVal []) by (apply jrun_key; auto).
    destruct (oenc_value_ok _ x (le_n _) Hx []) as (st1 & E1 & T1).
    rewrite (split_docs_lift CObj [] _ JVal [] st1 [] _ _ E1). cbn [app].
    rewrite (split_fields_rest r Hr st1 _ rest T1).
    destruct (split_docs (JVal, []) [] rest); [|reflexivity].
    rewrite !rev_append_rev, !rev_app_distr, !rev_involutive. cbn [rev app]. rewrite <- !app_assoc. reflexivity.
Qed.

Definition ev_copy_ok (e : ev) : Prop := json_valid (enc e) = true /\ Forall opt_wf (ev_copy e).

(* the request body of a batch is cut by the predicate's own cutter into exactly the envelopes of
   the deliverable events: one document per event, in order, nothing else *)
Theorem splunk_payload_docs cfg batch prev script :
  Forall cp_lits_ok cfg -> Forall ev_copy_ok (deliverable batch) ->
  exists a, splunk_out cfg batch prev script = Ok a
    /\ (forall cfgsx, splunk_cfg_of_sx cfgsx = Some cfg ->
        Forall (fun q => docs_of_body 4 cfgsx (rq_body q) = Some (expected_docs 4 cfgsx batch)) (at_reqs a))
    /\ Forall (fun d => json_valid d = true) (map (envelope cfg) (deliverable batch)).
Proof.
  intros Hc He. destruct (splunk_out_spec cfg batch prev script) as (a & E & _ & R).
  exists a. split; [exact E|].
  assert (Hs : forall evs, Forall ev_copy_ok evs ->
            split_docs (JVal, []) [] (concat (map (envelope cfg) evs)) = Some (map (envelope cfg) evs)).
  { induction evs as [|e r IH]; intro H; [reflexivity|].
    inversion H as [|? ? (H1 & H2) Hr]; subst. cbn [map concat]. unfold envelope at 1.
    rewrite split_object.
    - rewrite (IH Hr). reflexivity.
    - apply apply_copies_wf; [exact Hc|exact H2|].
      apply fields_wf_cons. split; [exact event_lit_ok|]. split; [exact H1|exact I]. }
  split.
  - intros cfgsx Hcfg. destruct (at_reqs a) as [|q [|q2 qs]]; try discriminate. injection R as R.
    constructor; [|constructor]. unfold expected_docs. rewrite Hcfg. cbn [docs_of_body]. rewrite R. apply Hs, He.
  - apply Forall_forall. intros d Hin. apply in_map_iff in Hin. destruct Hin as (e & <- & Hin).
    rewrite Forall_forall in He. destruct (He e Hin) as (H1 & H2). apply envelope_valid; assumption.
Qed.

(* the hypotheses hold of the splunk instance *)
Lemma lit_ok_intro body : str_body_ok body = true -> lit_ok (QUOTE :: body ++ [QUOTE]).
Proof. intro H. exists body. split; [reflexivity|exact H]. Qed.

Lemma ex_scopy_ok : Forall cp_lits_ok ex_scfg /\ Forall ev_copy_ok [ex_s1; ex_s2; ex_s3].
Proof.
  split.
  - repeat constructor; cbn [cp_to snd].
    + exact (lit_ok_intro [116; 105; 109; 101]%N eq_refl).
    + exact (lit_ok_intro [102; 105; 101; 108; 100; 115]%N eq_refl).
    + exact (lit_ok_intro [115; 101; 114; 118; 105; 99; 101; 95; 110; 97; 109; 101]%N eq_refl).
    + exact (lit_ok_intro [101; 118; 101; 110; 116]%N eq_refl).
    + exact (lit_ok_intro [120]%N eq_refl).
  - repeat constructor; cbn; reflexivity.
Qed.

(* ==========================================================================================
   Coverage round: answers with other bodies, retries of a batch, the plugin behind its own batcher,
   Start()'s default index value
   ========================================================================================== *)

(* ---- the answers a sink takes for success: 200..202 with the plain body (kind 0) or with a body its
   response reader accepts (the odd kinds); every other answer — also a 2xx one whose body the reader
   rejects (the even kinds) — is an error of the request *)
Lemma is_ok_status_spec st :
  is_ok_status st = true <->
  exists k s, st = 1000 * k + s /\ 200 <= s <= 202 /\ (k = 0 \/ k = 1 \/ k = 3 \/ k = 5 \/ k = 7).
Proof.
  unfold is_ok_status, answer_status, answer_kind. split.
  - intro H.
    assert (Hdm := Z.div_mod st 1000 ltac:(lia)).
    assert (Hm := Z.mod_pos_bound st 1000 ltac:(lia)).
    exists (st / 1000), (st mod 1000).
    destruct (0 <=? st) eqn:H0; [|discriminate H].
    destruct (st <? 8000) eqn:H8; [|discriminate H].
    destruct (200 <=? st mod 1000) eqn:H2; [|discriminate H].
    destruct (st mod 1000 <=? 202) eqn:H3; [|discriminate H].
    cbn [andb] in H.
    split; [lia|]. split; [lia|].
    assert (Hk : 0 <= st / 1000 <= 7) by lia.
    assert (Hc : st / 1000 = 0 \/ st / 1000 = 1 \/ st / 1000 = 2 \/ st / 1000 = 3 \/ st / 1000 = 4
                 \/ st / 1000 = 5 \/ st / 1000 = 6 \/ st / 1000 = 7) by lia.
    destruct Hc as [E|[E|[E|[E|[E|[E|[E|E]]]]]]]; rewrite E in H; cbn in H; try discriminate H; lia.
  - intros (k & s & -> & Hs & Hk).
    assert (Hc : s = 200 \/ s = 201 \/ s = 202) by lia.
    destruct Hk as [->|[->|[->|[->| ->]]]]; destruct Hc as [->|[->| ->]]; reflexivity.
Qed.

Lemma rejected_answers_fail k s :
  200 <= s <= 202 -> (k = 2 \/ k = 4 \/ k = 6) -> is_ok_status (1000 * k + s) = false.
Proof.
  intros Hs Hk. assert (Hc : s = 200 \/ s = 201 \/ s = 202) by lia.
  destruct Hk as [->|[->| ->]]; destruct Hc as [->|[->| ->]]; reflexivity.
Qed.

Lemma answer_kinds :
  (forall st, is_ok_status st = true <->
     exists k s, st = 1000 * k + s /\ 200 <= s <= 202 /\ (k = 0 \/ k = 1 \/ k = 3 \/ k = 5 \/ k = 7))
  /\ (forall k s, 200 <= s <= 202 -> (k = 2 \/ k = 4 \/ k = 6) -> is_ok_status (1000 * k + s) = false)
  /\ is_ok_status 413 = false /\ is_ok_status 400 = false /\ is_ok_status 204 = false /\ is_ok_status 199 = false.
Proof. split; [exact is_ok_status_spec|]. split; [exact rejected_answers_fail|]. repeat split; reflexivity. Qed.

(* a rejected 2xx answer makes ES / http out() return the error (the batch is offered again) and splunk
   as well; the same answer accepted ends the exchange *)
Lemma rejected_answer_is_retried k s :
  200 <= s <= 202 -> (k = 2 \/ k = 4 \/ k = 6) ->
  out_ret_es (1000 * k + s) true = 1 /\ out_ret_splunk (1000 * k + s) true = 1.
Proof.
  intros Hs Hk. assert (Hc : s = 200 \/ s = 201 \/ s = 202) by lia.
  destruct Hk as [->|[->| ->]]; destruct Hc as [->|[->| ->]]; split; reflexivity.
Qed.

(* ---- a batch that is offered again: every attempt carries the same payload ---------------------- *)
(* a sink that sends the whole payload of the batch in one request, whatever the buffer held before and
   whatever the answers are *)
Definition sends_whole (out : out_fn) (payload : list ev -> bytes) : Prop :=
  forall batch prev script, exists a, out batch prev script = Ok a
    /\ at_buf a = payload batch /\ map rq_body (at_reqs a) = [payload batch].

(* what the retrying batcher's calls look like *)
Definition retried (out : out_fn) (payload : list ev -> bytes) (tries : nat) (batch : list ev) (prev : bytes)
  (script : list Z) : Prop :=
  let '(atts, p, s, ok) := attempts out tries batch prev script in
  ok = true
  /\ Forall (fun r => exists a, r = Ok a /\ map rq_body (at_reqs a) = [payload batch]) atts
  /\ (tries <> O -> atts <> [] /\ p = payload batch)
  /\ (length atts <= tries)%nat.

Lemma attempts_same_payload out payload (H : sends_whole out payload) :
  forall tries batch prev script, retried out payload tries batch prev script.
Proof.
  unfold retried. induction tries as [|t IH]; intros batch prev script; cbn [attempts].
  - split; [reflexivity|]. split; [constructor|]. split; [intro C; exfalso; apply C; reflexivity|cbn [length]; lia].
  - destruct (H batch prev script) as (a & Ha & Hbuf & Hreq). rewrite Ha.
    destruct (Z.eqb (at_ret a) 1).
    + specialize (IH batch (at_buf a) (at_script a)).
      destruct (attempts out t batch (at_buf a) (at_script a)) as [[[rest p] s] ok] eqn:E.
      destruct IH as (Hok & Hall & Hp & Hlen).
      split; [exact Hok|]. split.
      * constructor; [exists a; split; [reflexivity|exact Hreq]|exact Hall].
      * split.
        -- intros _. split; [discriminate|].
           destruct t as [|t'].
           ++ cbn [attempts] in E. injection E as _ Ep _ _. rewrite <- Ep. exact Hbuf.
           ++ apply Hp. discriminate.
        -- cbn [length]. lia.
    + split; [reflexivity|]. split.
      * constructor; [exists a; split; [reflexivity|exact Hreq]|constructor].
      * split; [intros _; split; [discriminate|exact Hbuf]|cbn [length]; lia].
Qed.

Lemma es_sends_whole c : es_cfg_ok c -> es_split c = false ->
  sends_whole (es_out c) (fun b => concat (map (es_frame_of c) (deliverable b))).
Proof.
  intros Hc Hs batch prev script.
  destruct (es_out_spec c batch prev script Hc) as (a & E & B & R & _). exists a.
  split; [exact E|]. split; [exact B|]. rewrite (R Hs). reflexivity.
Qed.

Lemma http_sends_whole raw :
  sends_whole (http_out raw false) (fun b => concat (map (frame_http raw) (deliverable b))).
Proof.
  intros batch prev script.
  destruct (http_out_spec raw false batch prev script) as (a & E & B & R & _). exists a.
  split; [exact E|]. split; [exact B|]. rewrite (R eq_refl). reflexivity.
Qed.

Lemma file_sends_whole : sends_whole file_out (fun b => concat (map frame_file (deliverable b))).
Proof. intros batch prev script. exact (file_out_spec batch prev script). Qed.

Lemma splunk_sends_whole cfg : sends_whole (splunk_out cfg) (fun b => concat (map (envelope cfg) (deliverable b))).
Proof. intros batch prev script. exact (splunk_out_spec cfg batch prev script). Qed.

Lemma gelf_sends_whole : sends_whole gelf_out (fun b => concat (map frame_gelf (deliverable b))).
Proof. intros batch prev script. exact (gelf_out_spec batch prev script). Qed.

Theorem retried_batch_same_payload :
  forall tries batch prev script,
  (forall c, es_cfg_ok c -> es_split c = false ->
     retried (es_out c) (fun b => concat (map (es_frame_of c) (deliverable b))) tries batch prev script)
  /\ (forall raw, retried (http_out raw false) (fun b => concat (map (frame_http raw) (deliverable b))) tries batch prev script)
  /\ retried file_out (fun b => concat (map frame_file (deliverable b))) tries batch prev script
  /\ (forall cfg, retried (splunk_out cfg) (fun b => concat (map (envelope cfg) (deliverable b))) tries batch prev script)
  /\ retried gelf_out (fun b => concat (map frame_gelf (deliverable b))) tries batch prev script.
Proof.
  intros tries batch prev script. repeat split.
  - intros c Hc Hs. apply attempts_same_payload, es_sends_whole; assumption.
  - intro raw. apply attempts_same_payload, http_sends_whole.
  - apply attempts_same_payload, file_sends_whole.
  - intro cfg. apply attempts_same_payload, splunk_sends_whole.
  - apply attempts_same_payload, gelf_sends_whole.
Qed.

(* ---- the plugin behind its own batcher ---------------------------------------------------------- *)
Lemma is_nil_true {A} (l : list A) : is_nil l = true <-> l = [].
Proof. destruct l; cbn; split; intro H; try reflexivity; discriminate. Qed.

Lemma via_out_spec out batch prev script :
  (deliverable batch = [] -> via_out out batch prev script = Ok (mkAtt [] false 0 prev script))
  /\ (deliverable batch <> [] -> via_out out batch prev script = out batch prev script).
Proof.
  unfold via_out. split; intro H.
  - rewrite H. reflexivity.
  - destruct (deliverable batch); [exfalso; apply H; reflexivity|reflexivity].
Qed.

Lemma via_attempts out : forall tries batch prev script,
  (deliverable batch <> [] -> attempts (via_out out) tries batch prev script = attempts out tries batch prev script)
  /\ (deliverable batch = [] -> tries <> O ->
      attempts (via_out out) tries batch prev script = ([Ok (mkAtt [] false 0 prev script)], prev, script, true)).
Proof.
  induction tries as [|t IH]; intros batch prev script; split; intro H.
  - reflexivity.
  - intro C. exfalso. apply C. reflexivity.
  - cbn [attempts]. rewrite (proj2 (via_out_spec out batch prev script) H).
    destruct (out batch prev script) as [a| |]; try reflexivity.
    destruct (Z.eqb (at_ret a) 1); [|reflexivity].
    rewrite (proj1 (IH batch (at_buf a) (at_script a)) H). reflexivity.
  - intros _. cbn [attempts]. rewrite (proj1 (via_out_spec out batch prev script) H). reflexivity.
Qed.

(* through the batcher: a batch without a deliverable event makes no request and leaves the worker's buffer
   and the answers alone; any other batch is offered to out() exactly as in the direct drive, so every attempt
   carries the payload of the batch *)
Theorem via_batcher :
  forall out payload, sends_whole out payload ->
  forall tries batch prev script,
  (deliverable batch = [] -> tries <> O ->
     attempts (via_out out) tries batch prev script = ([Ok (mkAtt [] false 0 prev script)], prev, script, true))
  /\ (deliverable batch <> [] ->
      attempts (via_out out) tries batch prev script = attempts out tries batch prev script
      /\ retried out payload tries batch prev script).
Proof.
  intros out payload H tries batch prev script. split.
  - apply via_attempts.
  - intro Hd. split; [apply via_attempts; exact Hd|apply attempts_same_payload; exact H].
Qed.

(* ---- Start(): an empty index_values list is ["@time"] ------------------------------------------- *)
Lemma es_name_time_only fmt : forall vals k time e1 e2 acc,
  Forall (fun v => v = ITime) vals -> es_name fmt vals k time e1 acc = es_name fmt vals k time e2 acc.
Proof.
  induction fmt as [|c r IH]; intros vals k time e1 e2 acc Hv; cbn [es_name]; [reflexivity|].
  destruct (N.eqb c PERCENT).
  - destruct vals as [|v vals']; [reflexivity|].
    inversion Hv as [|? ? Hv1 Hv2]; subst. cbn [es_piece]. apply IH. exact Hv2.
  - apply IH. exact Hv.
Qed.

Theorem es_default_index_value op fmt time sp :
  let c := mkEs op fmt (es_default_vals []) time sp in
  es_vals c = [ITime]
  /\ ((count_pct fmt <= 1)%nat <-> es_cfg_ok c)
  /\ forall e1 e2, es_header c e1 = es_header c e2.
Proof.
  cbn zeta. split; [reflexivity|]. split.
  - unfold es_cfg_ok. cbn [es_fmt es_vals es_default_vals is_nil length]. reflexivity.
  - intros e1 e2. unfold es_header, es_append_index_name. cbn [es_fmt es_vals es_time es_op es_default_vals is_nil].
    rewrite (es_name_time_only fmt [ITime] 0 time e1 e2); [reflexivity|]. constructor; [reflexivity|constructor].
Qed.

(* ==========================================================================================
   13. routing: the value a sink derives from an event to direct its document
   ========================================================================================== *)
Lemma bytes_eqb_iff a : forall b, bytes_eqb a b = true <-> a = b.
Proof.
  unfold bytes_eqb.
  induction a as [|x a IH]; intros [|y b]; cbn [N_eqb_list]; split; intros H; try reflexivity; try discriminate.
  - apply andb_true_iff in H. destruct H as [H1 H2]. apply N.eqb_eq in H1. apply IH in H2. subst. reflexivity.
  - injection H as -> ->. rewrite N.eqb_refl. cbn [andb]. apply IH. reflexivity.
Qed.

Lemma routed_eqb_iff x y : routed_eqb x y = true <-> x = y.
Proof.
  destruct x as [a b], y as [c d]. unfold routed_eqb. cbn [fst snd]. rewrite andb_true_iff, !bytes_eqb_iff.
  split; [intros [-> ->]; reflexivity|intro H; injection H as -> ->; auto].
Qed.

Lemma routed_list_eqb_iff xs : forall ys, routed_list_eqb xs ys = true <-> xs = ys.
Proof.
  induction xs as [|x xs IH]; intros [|y ys]; cbn [routed_list_eqb]; split; intro H; try reflexivity; try discriminate.
  - apply andb_true_iff in H. destruct H as [H1 H2]. apply routed_eqb_iff in H1. apply IH in H2. subst. reflexivity.
  - injection H as -> ->. apply andb_true_iff. split; [apply routed_eqb_iff|apply IH]; reflexivity.
Qed.

Lemma routed_subseq_refl xs : routed_subseq xs xs = true.
Proof.
  induction xs as [|x xs IH]; [reflexivity|]. cbn [routed_subseq].
  replace (routed_eqb x x) with true by (symmetry; apply routed_eqb_iff; reflexivity). exact IH.
Qed.

Lemma routed_subseq_nil ys : routed_subseq [] ys = true.
Proof. destruct ys; reflexivity. Qed.

(* ---- kafka ------------------------------------------------------------------------------------- *)
(* the topic is a function of the event's own topic value and the configuration *)
Theorem k_topic_spec c e :
  (k_use_field c = true -> ev_topic e <> [] -> k_topic c e = ev_topic e)
  /\ (k_use_field c = false \/ ev_topic e = [] -> k_topic c e = k_default c)
  /\ (forall e2, ev_topic e2 = ev_topic e -> k_topic c e2 = k_topic c e).
Proof.
  unfold k_topic. split; [|split].
  - intros -> Hne. destruct (ev_topic e); [congruence|reflexivity].
  - intros [->| ->]; [reflexivity|]. destruct (k_use_field c); reflexivity.
  - intros e2 ->. reflexivity.
Qed.

(* what the producer is handed for a list of events: per record its topic (reported with status -1) and
   its value (reported with the answer) *)
Definition k_obs (c : k_cfg) (st : Z) (evs : list ev) : list (bytes * Z) :=
  flat_map (fun e => [(k_topic c e, -1); (enc e, st)]) evs.
Definition req_obs (q : sreq) : bytes * Z := (rq_body q, rq_status q).

Lemma k_reqs_spec c st : forall evs pre,
  exists reqs, k_reqs (pre ++ concat (map enc evs)) (k_recs c (len pre) evs) st = Ok reqs
    /\ map req_obs reqs = k_obs c st evs.
Proof.
  induction evs as [|e r IH]; intro pre; cbn [k_recs map concat k_reqs].
  - eexists. split; reflexivity.
  - unfold k_value at 1. cbn [kr_start kr_end kr_topic]. rewrite slice_app_mid. cbn [bind].
    destruct (IH (pre ++ enc e)) as (reqs & E & M). rewrite len_app, <- app_assoc in E. rewrite E. cbn [bind].
    eexists. split; [reflexivity|]. cbn [map req_obs rq_body rq_status]. unfold k_obs in *. cbn [flat_map app].
    rewrite M. reflexivity.
Qed.

(* one call of out(): whatever the worker's buffer and records held before and whatever the answer is,
   record i carries the topic and the encoding of the i-th deliverable event of THIS batch *)
Theorem kafka_out_routing c batch prev script :
  len (deliverable batch) <= k_batch_size c ->
  exists a, kafka_out c batch prev script = Ok a
    /\ map req_obs (at_reqs a) = k_obs c (fst (next_status script)) (deliverable batch)
    /\ at_buf a = concat (map enc (deliverable batch)).
Proof.
  intro Hbs. unfold kafka_out. rewrite (kafka_build_spec c batch prev Hbs). cbn [bind].
  destruct (next_status script) as [st sc]. cbn [fst].
  destruct (k_reqs_spec c st (deliverable batch) []) as (reqs & E & M). cbn [app len] in E.
  change (len (@nil byte)) with 0 in E. rewrite E. cbn [bind].
  eexists. split; [reflexivity|]. cbn [at_reqs at_buf]. auto.
Qed.

Lemma k_obs_app c st a b : k_obs c st (a ++ b) = k_obs c st a ++ k_obs c st b.
Proof. unfold k_obs. apply flat_map_app. Qed.

(* topic independence / no cross-event leakage: inside ANY batch that contains the deliverable event e —
   any events before it, any after it, any history of the worker's buffer and records, any answer — the
   record at e's place carries [k_topic c e], a function of e and the configuration alone *)
Theorem kafka_topic_independent c e pre post prev script :
  is_parent e = false -> len (deliverable (pre ++ e :: post)) <= k_batch_size c ->
  exists a, kafka_out c (pre ++ e :: post) prev script = Ok a
    /\ map req_obs (at_reqs a)
       = k_obs c (fst (next_status script)) (deliverable pre)
         ++ [(k_topic c e, -1); (enc e, fst (next_status script))]
         ++ k_obs c (fst (next_status script)) (deliverable post).
Proof.
  intros Hp Hbs. destruct (kafka_out_routing c (pre ++ e :: post) prev script Hbs) as (a & E & M & _).
  exists a. split; [exact E|]. rewrite M, deliverable_app. cbn [deliverable filter]. rewrite Hp. cbn [negb].
  rewrite k_obs_app. reflexivity.
Qed.

Theorem kafka_no_cross_event_leak c e pre1 post1 pre2 post2 p1 s1 p2 s2 :
  is_parent e = false ->
  len (deliverable (pre1 ++ e :: post1)) <= k_batch_size c ->
  len (deliverable (pre2 ++ e :: post2)) <= k_batch_size c ->
  exists a1 a2,
    kafka_out c (pre1 ++ e :: post1) p1 s1 = Ok a1 /\ kafka_out c (pre2 ++ e :: post2) p2 s2 = Ok a2
    /\ nth_error (map rq_body (at_reqs a1)) (2 * length (deliverable pre1)) = Some (k_topic c e)
    /\ nth_error (map rq_body (at_reqs a2)) (2 * length (deliverable pre2)) = Some (k_topic c e)
    /\ nth_error (map rq_body (at_reqs a1)) (S (2 * length (deliverable pre1))) = Some (enc e)
    /\ nth_error (map rq_body (at_reqs a2)) (S (2 * length (deliverable pre2))) = Some (enc e).
Proof.
  intros Hp H1 H2.
  assert (Hlen : forall st l, length (k_obs c st l) = (2 * length l)%nat).
  { intros st l. unfold k_obs. induction l as [|x l IH]; [reflexivity|]. cbn [flat_map app length]. rewrite IH. lia. }
  assert (Hnth : forall pre post p s a, kafka_out c (pre ++ e :: post) p s = Ok a ->
            len (deliverable (pre ++ e :: post)) <= k_batch_size c ->
            nth_error (map rq_body (at_reqs a)) (2 * length (deliverable pre)) = Some (k_topic c e)
            /\ nth_error (map rq_body (at_reqs a)) (S (2 * length (deliverable pre))) = Some (enc e)).
  { intros pre post p s a Ea Hb.
    destruct (kafka_topic_independent c e pre post p s Hp Hb) as (a' & E' & M). rewrite Ea in E'. injection E' as <-.
    replace (map rq_body (at_reqs a)) with (map fst (map req_obs (at_reqs a)))
      by (rewrite map_map; apply map_ext; reflexivity).
    rewrite M, map_app. split.
    - rewrite nth_error_app2; rewrite map_length, Hlen; [|lia]. rewrite Nat.sub_diag. reflexivity.
    - rewrite nth_error_app2; rewrite map_length, Hlen; [|lia].
      replace (S (2 * length (deliverable pre)) - 2 * length (deliverable pre))%nat with 1%nat by lia. reflexivity. }
  destruct (kafka_out_routing c _ p1 s1 H1) as (a1 & E1 & _).
  destruct (kafka_out_routing c _ p2 s2 H2) as (a2 & E2 & _).
  exists a1, a2. split; [exact E1|]. split; [exact E2|].
  destruct (Hnth pre1 post1 p1 s1 a1 E1 H1) as [T1 V1]. destruct (Hnth pre2 post2 p2 s2 a2 E2 H2) as [T2 V2]. auto.
Qed.

(* no cross-batch / cross-attempt leakage: through ANY history of batches on one worker (buffer and
   records reused, failed attempts offered again, any answers) every call of out() hands the producer,
   per record, the topic and the value of the events of the batch it was called with *)
Definition k_att_ok (c : k_cfg) (b : list ev) (r : res attempt) : Prop :=
  exists a st, r = Ok a /\ map req_obs (at_reqs a) = k_obs c st (deliverable b).

Lemma kafka_attempts_routing c b : len (deliverable b) <= k_batch_size c ->
  forall tries prev script,
  let '(atts, p, s, ok) := attempts (kafka_out c) tries b prev script in
  ok = true /\ Forall (k_att_ok c b) atts.
Proof.
  intro Hb. induction tries as [|t IH]; intros prev script; cbn [attempts].
  - split; [reflexivity|constructor].
  - destruct (kafka_out_routing c b prev script Hb) as (a & E & M & _). rewrite E.
    assert (Ha : k_att_ok c b (Ok a)) by (exists a, (fst (next_status script)); auto).
    destruct (Z.eqb (at_ret a) 1).
    + specialize (IH (at_buf a) (at_script a)).
      destruct (attempts (kafka_out c) t b (at_buf a) (at_script a)) as [[[rest p] s] ok].
      destruct IH as [Hok Hall]. split; [exact Hok|constructor; assumption].
    + split; [reflexivity|constructor; [exact Ha|constructor]].
Qed.

Lemma kafka_attempts_nonempty c b : len (deliverable b) <= k_batch_size c ->
  forall tries prev script, tries <> O ->
  fst (fst (fst (attempts (kafka_out c) tries b prev script))) <> [].
Proof.
  intros Hb [|t] prev script Ht; [congruence|]. cbn [attempts].
  destruct (kafka_out_routing c b prev script Hb) as (a & E & _). rewrite E.
  destruct (Z.eqb (at_ret a) 1).
  - destruct (attempts (kafka_out c) t b (at_buf a) (at_script a)) as [[[rest p] s] ok]. cbn [fst]. discriminate.
  - cbn [fst]. discriminate.
Qed.

Theorem kafka_history_routing c : forall batches prev script,
  Forall (fun b => len (deliverable b) <= k_batch_size c) batches ->
  Forall (fun ba => k_att_ok c (fst ba) (snd ba)) (run_batches (kafka_out c) batches prev script)
  /\ (forall b, In b batches -> In b (map fst (run_batches (kafka_out c) batches prev script))).
Proof.
  induction batches as [|b bs IH]; intros prev script HF; cbn [run_batches].
  - split; [constructor|intros b []].
  - inversion HF as [|? ? Hb Hbs]; subst.
    pose proof (kafka_attempts_routing c b Hb 3 prev script) as Hatt.
    pose proof (kafka_attempts_nonempty c b Hb 3 prev script ltac:(discriminate)) as Hne.
    destruct (attempts (kafka_out c) 3 b prev script) as [[[atts p] s] ok]. cbn [fst] in Hne.
    destruct Hatt as [-> Hall]. destruct (IH p s Hbs) as [IH1 IH2]. split.
    + apply Forall_app. split; [|exact IH1].
      apply Forall_forall. intros ba Hin. apply in_map_iff in Hin. destruct Hin as (r & <- & Hr). cbn [fst snd].
      rewrite Forall_forall in Hall. apply Hall, Hr.
    + intros b' [<-|Hin]; rewrite map_app; apply in_or_app.
      * left. rewrite map_map. cbn [fst]. destruct atts as [|r rest]; [congruence|]. left. reflexivity.
      * right. apply IH2, Hin.
Qed.

(* ---- the predicate's routing clause for kafka: it holds of an observation exactly when the observed
   records are, in order, (k_topic c e, enc e) for the deliverable events of the batch *)
Lemma kafka_pairs_obs c st : st <> -1 -> forall evs reqs,
  map req_obs reqs = k_obs c st evs ->
  kafka_pairs (map sx_of_req reqs) = Some (map (k_routed c) evs).
Proof.
  intros Hst. induction evs as [|e r IH]; intros reqs M.
  - destruct reqs; [reflexivity|discriminate].
  - unfold k_obs in M. cbn [flat_map app] in M.
    destruct reqs as [|q1 [|q2 reqs]]; try discriminate.
    cbn [map] in M. unfold req_obs at 1 2 in M. injection M as B1 S1 B2 S2 M3.
    cbn [map sx_of_req kafka_pairs]. rewrite S1, S2, B1, B2.
    replace (st =? -1) with false by lia. cbn [Z.eqb andb negb].
    rewrite (IH reqs M3). reflexivity.
Qed.

Theorem kafka_route_pred_iff cfgsx c batch m reqs ret :
  kafka_of_sx cfgsx = Some c ->
  route_pred 3 cfgsx batch m (SL [SZ 0; SL reqs; SZ ret]) = true
  <-> kafka_pairs reqs = Some (map (k_routed c) (deliverable batch)).
Proof.
  intro Hc. unfold route_pred, expected_routed, carried_pairs, complete. rewrite Hc. cbn [Z.eqb Pos.eqb orb].
  destruct (kafka_pairs reqs) as [ps|]; [|split; discriminate]. rewrite andb_true_r.
  split.
  - intro H. apply andb_true_iff in H. destruct H as [_ H]. apply routed_list_eqb_iff in H. rewrite H. reflexivity.
  - intro H. injection H as ->. rewrite routed_subseq_refl. apply routed_list_eqb_iff. reflexivity.
Qed.

(* ... and the model's own observation satisfies it, for every buffer history and every answer *)
Theorem kafka_model_routes cfgsx c batch prev script :
  kafka_of_sx cfgsx = Some c -> len (deliverable batch) <= k_batch_size c -> fst (next_status script) <> -1 ->
  route_pred 3 cfgsx batch (kafka_out c batch prev script) (sx_flat (kafka_out c batch prev script)) = true.
Proof.
  intros Hc Hbs Hst. destruct (kafka_out_routing c batch prev script Hbs) as (a & E & M & _). rewrite E.
  cbn [sx_flat]. apply (kafka_route_pred_iff cfgsx c batch (Ok a) _ _ Hc).
  apply (kafka_pairs_obs c _ Hst), M.
Qed.

(* ---- elasticsearch: the action line ------------------------------------------------------------ *)
(* the action line reads nothing of the event but its index values *)
Lemma es_name_spec_local fmt : forall vals k time e1 e2,
  ev_raw e1 = ev_raw e2 -> ev_esc e1 = ev_esc e2 ->
  es_name_spec fmt vals k time e1 = es_name_spec fmt vals k time e2.
Proof.
  induction fmt as [|ch r IH]; intros vals k time e1 e2 Hr He; cbn [es_name_spec]; [reflexivity|].
  destruct (N.eqb ch PERCENT).
  - destruct vals as [|v vals']; [reflexivity|]. rewrite (IH vals' (S k) time e1 e2 Hr He).
    unfold es_piece. rewrite Hr, He. reflexivity.
  - rewrite (IH vals k time e1 e2 Hr He). reflexivity.
Qed.

Theorem es_header_local c e1 e2 :
  ev_raw e1 = ev_raw e2 -> ev_esc e1 = ev_esc e2 -> es_header_of c e1 = es_header_of c e2.
Proof.
  intros Hr He. unfold es_header_of, es_name_of. rewrite (es_name_spec_local _ _ _ _ e1 e2 Hr He). reflexivity.
Qed.

Lemma es_route_ok c e : es_cfg_ok c -> es_route c e = es_header_of c e.
Proof. intro Hc. unfold es_route. rewrite (es_header_ok c e Hc). reflexivity. Qed.

Definition es_payload (c : es_cfg) (batch : list ev) : bytes := concat (map (es_frame_of c) (deliverable batch)).

(* action-line independence: inside the payload of ANY batch that contains the deliverable event e the
   bytes at e's place are its own action line and its own document *)
Theorem es_action_line_independent c e pre post prev script :
  es_cfg_ok c -> is_parent e = false ->
  exists a, es_out c (pre ++ e :: post) prev script = Ok a
    /\ at_buf a = es_payload c pre ++ (es_header_of c e ++ [NL] ++ enc e ++ [NL]) ++ es_payload c post
    /\ slice (at_buf a) (len (es_payload c pre)) (len (es_payload c pre) + len (es_header_of c e))
       = Ok (es_header_of c e).
Proof.
  intros Hc Hp. destruct (es_out_spec c (pre ++ e :: post) prev script Hc) as (a & E & B & _).
  exists a. split; [exact E|].
  assert (B' : at_buf a = es_payload c pre ++ (es_header_of c e ++ [NL] ++ enc e ++ [NL]) ++ es_payload c post).
  { rewrite B. unfold es_payload. rewrite deliverable_app. cbn [deliverable filter]. rewrite Hp. cbn [negb].
    rewrite map_app, concat_app. reflexivity. }
  split; [exact B'|]. rewrite B', <- !app_assoc. apply slice_app_mid.
Qed.

(* the predicate's cutter (es_pairs) reads from the frames of any events exactly their (action line,
   document) pairs — under the oracle hypotheses that make the lines lines *)
Lemma unpair_flat {A} (f g : A -> bytes) : forall l,
  unpair (flat_map (fun e => [f e; g e]) l) = Some (map f l, map g l).
Proof.
  induction l as [|x l IH]; [reflexivity|]. cbn [flat_map app unpair map]. rewrite IH. reflexivity.
Qed.

Lemma combine_map {A B C} (f : A -> B) (g : A -> C) : forall l, combine (map f l) (map g l) = map (fun x => (f x, g x)) l.
Proof. induction l as [|x l IH]; [reflexivity|]. cbn [map combine]. rewrite IH. reflexivity. Qed.

Theorem es_pairs_frames c evs :
  es_cfg_ok c -> es_cfg_plain c -> Forall esc_safe evs -> Forall enc_line_safe evs ->
  es_pairs (concat (map (es_frame_of c) evs)) = Some (map (es_routed c) evs).
Proof.
  intros Hc Hp He Hl. unfold es_pairs. rewrite es_frames_as_lines. unfold lines_tail.
  rewrite split_tail_frames.
  - cbn [is_nil negb]. rewrite unpair_flat, combine_map. f_equal. apply map_ext. intro e.
    unfold es_routed. rewrite (es_route_ok c e Hc). reflexivity.
  - apply Forall_forall. intros l Hin. apply in_flat_map in Hin. destruct Hin as (e & He' & Hin).
    rewrite Forall_forall in He, Hl.
    destruct Hin as [<-|[<-|[]]].
    + destruct (es_header_valid c e (es_header_of c e) Hc Hp (He e He') (es_header_ok c e Hc)) as (_ & H2 & _). exact H2.
    + apply Hl, He'.
Qed.

(* the model's own observation satisfies the routing clause (one request per call: without split_batch),
   for every buffer history and every answer *)
Theorem es_model_routes cfgsx c pr batch prev script :
  es_of_sx cfgsx = Some (c, pr) -> es_cfg_ok c -> es_cfg_plain c -> es_split c = false ->
  Forall esc_safe (deliverable batch) -> Forall enc_line_safe (deliverable batch) ->
  route_pred 0 cfgsx batch (es_out c batch prev script) (sx_flat (es_out c batch prev script)) = true.
Proof.
  intros Hcfg Hc Hp Hs He Hl. unfold es_out. rewrite (es_build_spec c batch prev Hc). cbn [bind]. rewrite Hs.
  unfold send_whole. destruct (next_status script) as [st sc]. cbn [bind sx_flat at_reqs map sx_of_req rq_body rq_status].
  unfold route_pred, expected_routed. rewrite Hcfg. unfold carried_pairs. cbn [Z.eqb es_carried_pairs].
  unfold sx_of_req. cbn [rq_body rq_status]. rewrite (es_pairs_frames c (deliverable batch) Hc Hp He Hl).
  cbn [es_all_routed]. rewrite (es_pairs_frames c (deliverable batch) Hc Hp He Hl), routed_subseq_refl.
  unfold complete. cbn [Z.eqb orb at_err andb]. destruct (is_ok_status st); cbn [negb].
  - rewrite app_nil_r, routed_subseq_refl, andb_true_r. cbn [andb]. apply routed_list_eqb_iff. reflexivity.
  - rewrite routed_subseq_nil. reflexivity.
Qed.

(* ---- a concrete instance ------------------------------------------------------------------------ *)
(* kafka with use_topic_field: [topic "a"; parent; no topic] then, on the same worker, [no topic; topic "b"]:
   the records of the second batch carry default / "b", nothing of the first batch *)
Definition ex_kcfg : k_cfg := mkK [100]%N true 4.
Definition ex_k1 : ev := mkEv 0 [123; 49; 125]%N [] [] [97]%N None [].
Definition ex_k2 : ev := mkEv 2 [123; 50; 125]%N [] [] [120]%N None [].
Definition ex_k3 : ev := mkEv 0 [123; 51; 125]%N [] [] [] None [].
Definition ex_k4 : ev := mkEv 0 [123; 52; 125]%N [] [] [98]%N None [].

(* ---- every request, whatever its answer, consists of pairs of the batch --------------------------- *)
Inductive sub {A} : list A -> list A -> Prop :=
| sub_nil ys : sub [] ys
| sub_take x xs ys : sub xs ys -> sub (x :: xs) (x :: ys)
| sub_skip y xs ys : sub xs ys -> sub xs (y :: ys).

Lemma sub_firstn {A} : forall n (l : list A), sub (firstn n l) l.
Proof.
  induction n as [|n IH]; intro l; [apply sub_nil|]. destruct l as [|x l]; [apply sub_nil|].
  cbn [firstn]. apply sub_take, IH.
Qed.

Lemma sub_range {A} : forall (l : list A) k n, sub (firstn n (skipn k l)) l.
Proof.
  induction l as [|x l IH]; intros k n.
  - destruct k; destruct n; apply sub_nil.
  - destruct k as [|k]; [apply sub_firstn|]. cbn [skipn]. apply sub_skip, IH.
Qed.

Lemma sub_tail {A} (x : A) xs : forall ys, sub (x :: xs) ys -> sub xs ys.
Proof.
  induction ys as [|y ys IH]; intro H; inversion H; subst.
  - apply sub_skip. assumption.
  - apply sub_skip, IH. assumption.
Qed.

Lemma sub_Forall {A} (P : A -> Prop) xs ys : sub xs ys -> Forall P ys -> Forall P xs.
Proof.
  induction 1 as [ys|x xs ys H IH|y xs ys H IH]; intro F.
  - constructor.
  - inversion F; subst. constructor; auto.
  - inversion F; subst. auto.
Qed.

Lemma sub_map {A B} (f : A -> B) xs ys : sub xs ys -> sub (map f xs) (map f ys).
Proof. induction 1; cbn [map]; constructor; assumption. Qed.

(* the predicate's greedy matcher finds every embedding *)
Lemma routed_subseq_complete : forall ys xs, sub xs ys -> routed_subseq xs ys = true.
Proof.
  induction ys as [|y ys IH]; intros xs H.
  - inversion H; subst. reflexivity.
  - destruct xs as [|x xs]; [reflexivity|]. cbn [routed_subseq].
    destruct (routed_eqb x y) eqn:E.
    + apply IH. inversion H; subst; [assumption|]. eapply sub_tail; eassumption.
    + apply IH. inversion H; subst; [|assumption].
      exfalso. assert (routed_eqb y y = true) by (apply routed_eqb_iff; reflexivity). congruence.
Qed.

Lemma es_all_routed_spec c ds : es_cfg_ok c -> es_cfg_plain c -> Forall esc_safe ds -> Forall enc_line_safe ds ->
  forall reqs,
  Forall (fun q => rq_body q = frames_range (map (es_frame_of c) ds) (rq_l q) (rq_r q)) reqs ->
  es_all_routed (map (es_routed c) ds) (map sx_of_req reqs) = true.
Proof.
  intros Hc Hp He Hl. induction reqs as [|q reqs IH]; intro F; [reflexivity|].
  inversion F as [|? ? Hq Fq]; subst. cbn [map sx_of_req es_all_routed]. rewrite (IH Fq), andb_true_r.
  rewrite Hq. unfold frames_range. rewrite skipn_map, firstn_map.
  set (part := firstn (Z.to_nat (rq_r q - rq_l q)) (skipn (Z.to_nat (rq_l q)) ds)).
  assert (Hs : sub part ds) by apply sub_range.
  rewrite (es_pairs_frames c part Hc Hp (sub_Forall _ _ _ Hs He) (sub_Forall _ _ _ Hs Hl)).
  apply routed_subseq_complete, sub_map, Hs.
Qed.

(* with or without split_batch, for every buffer history and every script of answers: every request out()
   makes — also one that is answered 413 / 5xx / with a rejected body — consists, in order, of (action
   line, document) pairs of the batch's deliverable events, each action line the event's own *)
Theorem es_requests_routed c batch prev script :
  es_cfg_ok c -> es_cfg_plain c ->
  Forall esc_safe (deliverable batch) -> Forall enc_line_safe (deliverable batch) ->
  exists a, es_out c batch prev script = Ok a
    /\ es_all_routed (map (es_routed c) (deliverable batch)) (map sx_of_req (at_reqs a)) = true.
Proof.
  intros Hc Hp He Hl. destruct (es_out_spec c batch prev script Hc) as (a & E & _ & _ & F & _).
  exists a. split; [exact E|]. apply (es_all_routed_spec c (deliverable batch) Hc Hp He Hl).
  eapply Forall_impl; [|exact F]. intros q (_ & _ & Hq). exact Hq.
Qed.
