(* Proofs about Model/Payload.v (C19). *)
From Verif Require Import Base.Sx Base.GoSem Model.Payload.
From Coq Require Import Lia ZifyBool.

Local Open Scope Z_scope.

(* ==========================================================================================
   0. lists, len, buffers
   ========================================================================================== *)
Lemma len_nil {A} : len (@nil A) = 0.
Proof. reflexivity. Qed.

Lemma len_cons {A} (x : A) l : len (x :: l) = 1 + len l.
Proof. unfold len. cbn [length]. lia. Qed.

Lemma len_app {A} (a b : list A) : len (a ++ b) = len a + len b.
Proof. unfold len. rewrite app_length. lia. Qed.

Lemma len_nonneg {A} (l : list A) : 0 <= len l.
Proof. unfold len. lia. Qed.

Lemma rev_fast_rev {A} (l : list A) : rev_fast l = rev l.
Proof. unfold rev_fast. rewrite rev_append_rev. apply app_nil_r. Qed.

Lemma rev_append_app {A} (p s a : list A) : rev_append (p ++ s) a = rev_append s (rev_append p a).
Proof. revert a. induction p as [|x p IH]; intro a; cbn [app rev_append]; [reflexivity|apply IH]. Qed.

Lemma bbytes_bapp b x : bbytes (bapp b x) = bbytes b ++ x.
Proof.
  unfold bbytes, bapp. cbn [rb]. rewrite !rev_fast_rev, rev_append_rev, rev_app_distr, rev_involutive.
  reflexivity.
Qed.

Lemma bbytes_bpush b c : bbytes (bpush b c) = bbytes b ++ [c].
Proof. unfold bbytes, bpush. cbn [rb]. rewrite !rev_fast_rev. reflexivity. Qed.

Lemma bbytes_reset prev : bbytes (buf_reset prev) = [].
Proof. reflexivity. Qed.

Lemma blen_reset prev : blen (buf_reset prev) = 0.
Proof. reflexivity. Qed.

Lemma blen_bapp b x : blen (bapp b x) = blen b + len x.
Proof. reflexivity. Qed.

Lemma bapp_bapp b p s : bapp (bapp b p) s = bapp b (p ++ s).
Proof.
  unfold bapp. cbn [rb blen]. f_equal.
  - symmetry. apply rev_append_app.
  - rewrite len_app. lia.
Qed.

Lemma bpush_bapp b c : bpush b c = bapp b [c].
Proof. reflexivity. Qed.

Lemma bapp_nil b : bbytes (bapp b []) = bbytes b.
Proof. rewrite bbytes_bapp. apply app_nil_r. Qed.

(* ==========================================================================================
   1. Batch.ForEach
   ========================================================================================== *)
Lemma for_each_fold {A} (b : list ev) (cb : A -> ev -> A) (acc : A) :
  for_each b cb acc = fold_left cb (deliverable b) acc.
Proof.
  revert acc. induction b as [|e r IH]; intro acc; [reflexivity|].
  cbn [for_each deliverable filter]. destruct (is_parent e); cbn [negb fold_left]; apply IH.
Qed.

Lemma deliverable_in b e : In e (deliverable b) <-> In e b /\ is_parent e = false.
Proof.
  unfold deliverable. rewrite filter_In. split; intros [H1 H2]; split; auto.
  - destruct (is_parent e); [discriminate|reflexivity].
  - rewrite H2. reflexivity.
Qed.

Lemma deliverable_app a b : deliverable (a ++ b) = deliverable a ++ deliverable b.
Proof. apply filter_app. Qed.

Lemma deliverable_noparents b :
  forallb (fun e => negb (is_parent e)) b = true -> deliverable b = b.
Proof.
  induction b as [|e r IH]; [reflexivity|]. cbn [forallb deliverable filter]. intro H.
  apply andb_prop in H. destruct H as [H1 H2]. rewrite H1. f_equal. apply IH, H2.
Qed.

Lemma deliverable_idem b : deliverable (deliverable b) = deliverable b.
Proof.
  apply deliverable_noparents, forallb_forall. intros e He. apply deliverable_in in He.
  destruct He as [_ He]. rewrite He. reflexivity.
Qed.

Theorem foreach_skips_parents :
  forall (A : Type) (b : list ev) (cb : A -> ev -> A) (acc : A),
    for_each b cb acc = fold_left cb (deliverable b) acc
    /\ (forall e, In e (deliverable b) <-> In e b /\ is_parent e = false)
    /\ (forall b1 b2, b = b1 ++ b2 -> deliverable b = deliverable b1 ++ deliverable b2).
Proof.
  intros A b cb acc. split; [apply for_each_fold|]. split; [apply deliverable_in|].
  intros b1 b2 ->. apply deliverable_app.
Qed.

(* ==========================================================================================
   2. sinks that append one frame per event
   ========================================================================================== *)
Lemma fold_frames_bytes (frame : ev -> bytes) l b0 :
  bbytes (fold_left (fun b e => bapp b (frame e)) l b0) = bbytes b0 ++ concat (map frame l).
Proof.
  revert b0. induction l as [|e r IH]; intro b0; cbn [fold_left map concat].
  - symmetry. apply app_nil_r.
  - rewrite IH, bbytes_bapp, app_assoc. reflexivity.
Qed.

Theorem build_frames_spec (frame : ev -> bytes) batch prev :
  build_frames frame batch prev = concat (map frame (deliverable batch)).
Proof.
  unfold build_frames. rewrite for_each_fold, fold_frames_bytes, bbytes_reset. reflexivity.
Qed.

(* offsets of the frames inside their concatenation: the `begin` table *)
Fixpoint offsets (start : Z) (fs : list bytes) : list Z :=
  start :: match fs with [] => [] | f :: r => offsets (start + len f) r end.

Lemma http_fold raw l b rbeg n :
  let '(b', rbeg', n') := fold_left (http_cb raw) l (b, rbeg, n) in
  b' = bapp b (concat (map (frame_http raw) l))
  /\ rev rbeg' ++ [blen b'] = rev rbeg ++ offsets (blen b) (map (frame_http raw) l)
  /\ n' = n + len l.
Proof.
  revert b rbeg n. induction l as [|e r IH]; intros b rbeg n; cbn [fold_left map concat].
  - repeat split.
    + unfold bapp. destruct b as [rb0 bl0]. cbn [rb blen rev_append]. rewrite len_nil. f_equal. lia.
    + rewrite len_nil. lia.
  - cbn [http_cb].
    specialize (IH (bapp b (frame_http raw e)) (blen b :: rbeg) (n + 1)).
    destruct (fold_left (http_cb raw) r (bapp b (frame_http raw e), blen b :: rbeg, n + 1)) as [[b' rbeg'] n'].
    destruct IH as (Hb & Hr & Hn). repeat split.
    + rewrite Hb. apply bapp_bapp.
    + rewrite Hr. cbn [rev offsets]. rewrite blen_bapp, <- app_assoc. reflexivity.
    + rewrite Hn, len_cons. lia.
Qed.

Theorem http_build_spec raw batch prev :
  let fs := map (frame_http raw) (deliverable batch) in
  http_build raw batch prev = (concat fs, offsets 0 fs, len fs).
Proof.
  cbn zeta. unfold http_build. rewrite for_each_fold.
  pose proof (http_fold raw (deliverable batch) (buf_reset prev) [] 0) as H.
  destruct (fold_left (http_cb raw) (deliverable batch) (buf_reset prev, [], 0)) as [[b' rbeg'] n'].
  destruct H as (Hb & Hr & Hn). rewrite rev_fast_rev. cbn [rev]. rewrite Hr, Hb.
  rewrite bbytes_bapp, bbytes_reset, blen_reset. cbn [rev app]. rewrite Hn.
  unfold len. rewrite map_length. reflexivity.
Qed.

(* ==========================================================================================
   3. slices of a concatenation of frames
   ========================================================================================== *)
Lemma slice_app_mid {A} (a m z : list A) :
  slice (a ++ m ++ z) (len a) (len a + len m) = Ok m.
Proof.
  unfold slice. pose proof (len_nonneg a). pose proof (len_nonneg m). pose proof (len_nonneg z).
  rewrite !len_app.
  destruct ((0 <=? len a) && (len a <=? len a + len m) && (len a + len m <=? len a + (len m + len z))) eqn:E; [|lia].
  f_equal. replace (len a + len m - len a) with (len m) by lia.
  unfold len. rewrite !Nat2Z.id.
  rewrite skipn_app, skipn_all, Nat.sub_diag. cbn [skipn app].
  rewrite firstn_app, firstn_all, Nat.sub_diag. cbn [firstn]. apply app_nil_r.
Qed.

(* the frames l .. r-1 *)
Definition frames_range (fs : list bytes) (l r : Z) : bytes :=
  concat (firstn (Z.to_nat (r - l)) (skipn (Z.to_nat l) fs)).

Lemma offsets_len fs : forall start, len (offsets start fs) = 1 + len fs.
Proof.
  induction fs as [|f r IH]; intro start.
  - reflexivity.
  - change (offsets start (f :: r)) with (start :: offsets (start + len f) r).
    rewrite !len_cons, IH. reflexivity.
Qed.

Lemma offsets_nth fs : forall start (i : nat), (i <= length fs)%nat ->
  nth_error (offsets start fs) i = Some (start + len (concat (firstn i fs))).
Proof.
  induction fs as [|f r IH]; intros start i Hi.
  - cbn [length] in Hi. replace i with O by lia. cbn. f_equal. lia.
  - change (offsets start (f :: r)) with (start :: offsets (start + len f) r).
    destruct i as [|i].
    + cbn. f_equal. lia.
    + cbn [length] in Hi. cbn [nth_error firstn concat]. rewrite IH by lia.
      rewrite len_app. f_equal. lia.
Qed.

Lemma offsets_idx fs : forall start i, 0 <= i <= len fs ->
  idx (offsets start fs) i = Ok (start + len (concat (firstn (Z.to_nat i) fs))).
Proof.
  intros start i Hi. unfold idx. rewrite offsets_len.
  destruct ((0 <=? i) && (i <? 1 + len fs)) eqn:E; [|lia].
  rewrite offsets_nth; [reflexivity|]. unfold len in Hi. lia.
Qed.

Lemma firstn_plus {A} (a b : nat) (l : list A) :
  firstn (a + b) l = firstn a l ++ firstn b (skipn a l).
Proof.
  revert l. induction a as [|a IH]; intro l; [reflexivity|].
  destruct l as [|x l]; cbn [Nat.add firstn skipn app].
  - destruct b; reflexivity.
  - f_equal. apply IH.
Qed.

Lemma skipn_plus {A} (a b : nat) (l : list A) : skipn b (skipn a l) = skipn (a + b) l.
Proof.
  revert l. induction a as [|a IH]; intro l; [reflexivity|].
  destruct l as [|x l]; cbn [Nat.add skipn].
  - destruct b; reflexivity.
  - apply IH.
Qed.

Lemma concat_firstn_skipn (fs : list bytes) (a b : nat) :
  concat fs = concat (firstn a fs) ++ concat (firstn b (skipn a fs)) ++ concat (skipn b (skipn a fs)).
Proof.
  rewrite <- concat_app, <- concat_app, firstn_skipn, firstn_skipn. reflexivity.
Qed.

Lemma slice_frames fs l r : 0 <= l -> l <= r -> r <= len fs ->
  slice (concat fs) (len (concat (firstn (Z.to_nat l) fs))) (len (concat (firstn (Z.to_nat r) fs)))
  = Ok (frames_range fs l r).
Proof.
  intros H0 Hlr Hr. unfold frames_range.
  rewrite (concat_firstn_skipn fs (Z.to_nat l) (Z.to_nat (r - l))) at 1.
  assert (Hsplit : firstn (Z.to_nat r) fs = firstn (Z.to_nat l) fs ++ firstn (Z.to_nat (r - l)) (skipn (Z.to_nat l) fs)).
  { replace (Z.to_nat r) with (Z.to_nat l + Z.to_nat (r - l))%nat by lia.
    rewrite firstn_plus. reflexivity. }
  rewrite Hsplit, concat_app, len_app. apply slice_app_mid.
Qed.

Lemma frames_range_split fs l m r : 0 <= l -> l <= m -> m <= r -> r <= len fs ->
  frames_range fs l r = frames_range fs l m ++ frames_range fs m r.
Proof.
  intros H0 H1 H2 H3. unfold frames_range. rewrite <- concat_app. f_equal.
  replace (Z.to_nat (r - l)) with (Z.to_nat (m - l) + Z.to_nat (r - m))%nat by lia.
  rewrite firstn_plus. f_equal. rewrite skipn_plus.
  replace (Z.to_nat l + Z.to_nat (m - l))%nat with (Z.to_nat m) by lia. reflexivity.
Qed.

Lemma frames_range_all fs : frames_range fs 0 (len fs) = concat fs.
Proof.
  unfold frames_range. rewrite Z.sub_0_r. cbn [Z.to_nat skipn]. unfold len. rewrite Nat2Z.id, firstn_all.
  reflexivity.
Qed.

Lemma frames_range_empty fs l : frames_range fs l l = [].
Proof. unfold frames_range. rewrite Z.sub_diag. reflexivity. Qed.

(* ==========================================================================================
   4. sendSplit
   ========================================================================================== *)
Definition ok_ranges (log : list sreq) : list (Z * Z) :=
  map (fun q => (rq_l q, rq_r q)) (filter (fun q => is_ok_status (rq_status q)) log).

(* rs tiles [a, b) from left to right *)
Fixpoint chain (a b : Z) (rs : list (Z * Z)) : Prop :=
  match rs with
  | [] => a = b
  | (l, r) :: rs' => l = a /\ l <= r /\ chain r b rs'
  end.

Lemma chain_app a m b rs1 rs2 : chain a m rs1 -> chain m b rs2 -> chain a b (rs1 ++ rs2).
Proof.
  revert a. induction rs1 as [|[l r] rs1 IH]; intros a H1 H2; cbn [chain app] in *.
  - subst. exact H2.
  - destruct H1 as (-> & Hle & Hc). repeat split; auto.
Qed.

Lemma chain_le a b rs : chain a b rs -> a <= b.
Proof.
  revert a. induction rs as [|[l r] rs IH]; intros a H; cbn [chain] in H.
  - lia.
  - destruct H as (-> & Hle & Hc). apply IH in Hc. lia.
Qed.

Lemma ok_ranges_app l1 l2 : ok_ranges (l1 ++ l2) = ok_ranges l1 ++ ok_ranges l2.
Proof. unfold ok_ranges. rewrite filter_app, map_app. reflexivity. Qed.

(* what a request log must look like: every request carries exactly the frames of its range *)
Definition req_ok (fs : list bytes) (lo hi : Z) (q : sreq) : Prop :=
  lo <= rq_l q /\ rq_l q < rq_r q /\ rq_r q <= hi /\ rq_body q = frames_range fs (rq_l q) (rq_r q).

Lemma req_ok_widen fs lo hi lo' hi' q : lo' <= lo -> hi <= hi' -> req_ok fs lo hi q -> req_ok fs lo' hi' q.
Proof. unfold req_ok. intros; intuition lia. Qed.

Lemma next_status_cases script : exists st s', next_status script = (st, s').
Proof. destruct script; cbn; eauto. Qed.

Lemma split_step_body fs l r : 0 <= l -> l < r -> r <= len fs ->
  (bl <- idx (offsets 0 fs) l ;; br <- idx (offsets 0 fs) r ;; slice (concat fs) bl br)
  = Ok (frames_range fs l r).
Proof.
  intros H0 H1 H2. rewrite (offsets_idx fs 0 l) by lia. cbn [bind].
  rewrite (offsets_idx fs 0 r) by lia. cbn [bind]. rewrite !Z.add_0_l.
  apply slice_frames; [exact H0|apply Z.lt_le_incl, H1|exact H2].
Qed.

Lemma mid_bounds l r : l + 2 <= r -> l < (l + r) / 2 /\ (l + r) / 2 < r.
Proof.
  intro H. pose proof (Z.div_mod (l + r) 2 ltac:(lia)). pose proof (Z.mod_pos_bound (l + r) 2 ltac:(lia)).
  split; lia.
Qed.

Theorem send_split_spec (fs : list bytes) :
  forall (fuel : nat) (script : list Z) (l r : Z),
    0 <= l -> l <= r -> r <= len fs -> r - l <= Z.of_nat fuel ->
    exists log script' st err,
      send_split fuel script l r (offsets 0 fs) (concat fs) = Ok (log, script', st, err)
      /\ Forall (req_ok fs l r) log
      /\ (err = false -> st = 200 /\ chain l r (ok_ranges log)).
Proof.
  induction fuel as [|f IH]; intros script l r H0 Hlr Hr Hfuel.
  - assert (l = r) by lia. subst r. cbn [send_split]. rewrite Z.eqb_refl.
    exists [], script, 200, false. repeat split; constructor.
  - cbn [send_split]. destruct (Z.eqb_spec l r) as [->|Hne].
    + exists [], script, 200, false. repeat split; constructor.
    + assert (Hlt : l < r) by lia.
      pose proof (split_step_body fs l r H0 Hlt Hr) as Hbody.
      destruct (idx (offsets 0 fs) l) as [bl| |]; cbn [bind] in Hbody |- *; try discriminate.
      destruct (idx (offsets 0 fs) r) as [br| |]; cbn [bind] in Hbody |- *; try discriminate.
      rewrite Hbody. cbn [bind].
      destruct (next_status_cases script) as (st & s' & Hns). rewrite Hns.
      set (rq := mkReq l r (frames_range fs l r) st).
      assert (Hrq : req_ok fs l r rq) by (unfold req_ok, rq; cbn; repeat split; lia).
      destruct (is_ok_status st) eqn:Hok.
      * exists [rq], s', 200, false. repeat split; [constructor; [exact Hrq|constructor]|].
        unfold ok_ranges. cbn [filter rq_status rq]. rewrite Hok. cbn. repeat split; lia.
      * destruct (Z.eqb_spec st 413) as [->|H413].
        -- destruct (Z.eqb_spec (r - l) 1) as [H1|H1].
           ++ exists [rq], s', 413, true. repeat split; [constructor; [exact Hrq|constructor]|discriminate|discriminate].
           ++ pose proof (mid_bounds l r ltac:(lia)) as [Hm1 Hm2].
              set (m := (l + r) / 2) in *.
              destruct (IH s' l m ltac:(lia) ltac:(lia) ltac:(lia) ltac:(lia)) as (log1 & sc1 & st1 & err1 & E1 & F1 & C1).
              rewrite E1. cbn [bind]. destruct err1.
              ** exists (rq :: log1), sc1, st1, true. repeat split; try discriminate.
                 constructor; [exact Hrq|]. eapply Forall_impl; [|exact F1].
                 intros q. apply req_ok_widen; lia.
              ** destruct (IH sc1 m r ltac:(lia) ltac:(lia) ltac:(lia) ltac:(lia)) as (log2 & sc2 & st2 & err2 & E2 & F2 & C2).
                 rewrite E2. cbn [bind].
                 exists (rq :: log1 ++ log2), sc2, st2, err2. split; [reflexivity|]. split.
                 --- constructor; [exact Hrq|]. apply Forall_app. split.
                     +++ eapply Forall_impl; [|exact F1]. intros q. apply req_ok_widen; lia.
                     +++ eapply Forall_impl; [|exact F2]. intros q. apply req_ok_widen; lia.
                 --- intros ->. destruct (C1 eq_refl) as [_ Hc1]. destruct (C2 eq_refl) as [-> Hc2].
                     split; [reflexivity|].
                     unfold ok_ranges. cbn [filter rq_status rq].
                     change (is_ok_status 413) with false. cbv iota.
                     fold (ok_ranges (log1 ++ log2)). rewrite ok_ranges_app.
                     eapply chain_app; eassumption.
        -- exists [rq], s', st, true. repeat split; [constructor; [exact Hrq|constructor]|discriminate|discriminate].
Qed.

(* the bodies of a tiling put together are the frames of the whole range *)
Lemma chain_bodies fs : forall rs l r, 0 <= l -> r <= len fs -> chain l r rs ->
  concat (map (fun ab => frames_range fs (fst ab) (snd ab)) rs) = frames_range fs l r.
Proof.
  induction rs as [|[a b] rs IH]; intros l r H0 Hr Hc; cbn [chain map concat fst snd] in *.
  - subst. symmetry. apply frames_range_empty.
  - destruct Hc as (-> & Hab & Hc). pose proof (chain_le _ _ _ Hc).
    rewrite (IH b r) by (auto; lia). symmetry. apply frames_range_split; lia.
Qed.

Lemma ok_bodies fs lo hi log : Forall (req_ok fs lo hi) log ->
  concat (map rq_body (filter (fun q => is_ok_status (rq_status q)) log))
  = concat (map (fun ab => frames_range fs (fst ab) (snd ab)) (ok_ranges log)).
Proof.
  intro F. unfold ok_ranges. rewrite map_map. cbn [fst snd]. f_equal.
  induction F as [|q log Hq F IH]; [reflexivity|]. cbn [filter].
  destruct (is_ok_status (rq_status q)); cbn [map]; [|exact IH].
  f_equal; [|exact IH]. apply Hq.
Qed.

(* whenever sendSplit returns OK the successfully sent ranges partition [0,n) in order, for every
   pattern of answers; each request carries exactly the frames of its range; no slice panics *)
Theorem split_covers_once (fs : list bytes) (script : list Z) :
  let n := len fs in
  exists log script' st err,
    send_split (Z.to_nat n) script 0 n (offsets 0 fs) (concat fs) = Ok (log, script', st, err)
    /\ Forall (req_ok fs 0 n) log
    /\ (err = false ->
        chain 0 n (ok_ranges log)
        /\ Forall (fun ab => fst ab < snd ab) (ok_ranges log)
        /\ concat (map rq_body (filter (fun q => is_ok_status (rq_status q)) log)) = concat fs).
Proof.
  cbn zeta. pose proof (len_nonneg fs) as Hn.
  destruct (send_split_spec fs (Z.to_nat (len fs)) script 0 (len fs) ltac:(lia) ltac:(lia) ltac:(lia) ltac:(lia))
    as (log & sc & st & err & E & F & C).
  exists log, sc, st, err. repeat split; auto.
  - apply C, H.
  - unfold ok_ranges. apply Forall_forall. intros ab Hin. apply in_map_iff in Hin.
    destruct Hin as (q & <- & Hq). apply filter_In in Hq. destruct Hq as [Hq _].
    rewrite Forall_forall in F. apply F in Hq. cbn [fst snd]. unfold req_ok in Hq. lia.
  - rewrite (ok_bodies fs 0 (len fs) log F). destruct (C H) as [_ Hc].
    rewrite (chain_bodies fs _ 0 (len fs)); auto; try lia. apply frames_range_all.
Qed.

(* ==========================================================================================
   5. Elasticsearch: the action line, the frames, the begin table
   ========================================================================================== *)
(* appendIndexName's loop as a pure function of the event *)
Fixpoint es_name_spec (fmt : bytes) (vals : list ival) (k : nat) (time : bytes) (e : ev) : res bytes :=
  match fmt with
  | [] => Ok []
  | c :: r =>
      if N.eqb c PERCENT then
        match vals with
        | [] => Panic 3
        | v :: vals' => s <- es_name_spec r vals' (S k) time e ;; Ok (es_piece v time e k ++ s)
        end
      else s <- es_name_spec r vals k time e ;; Ok (c :: s)
  end.

Lemma es_name_ok fmt : forall vals k time e acc,
  es_name fmt vals k time e acc = (s <- es_name_spec fmt vals k time e ;; Ok (bapp acc s)).
Proof.
  induction fmt as [|c r IH]; intros vals k time e acc; cbn [es_name es_name_spec bind].
  - f_equal. unfold bapp. destruct acc as [rb0 bl0]. cbn [rb blen rev_append]. rewrite len_nil. f_equal. lia.
  - destruct (N.eqb c PERCENT).
    + destruct vals as [|v vals']; [reflexivity|]. rewrite IH.
      destruct (es_name_spec r vals' (S k) time e); cbn [bind]; try reflexivity.
      f_equal. apply bapp_bapp.
    + rewrite IH. destruct (es_name_spec r vals k time e); cbn [bind]; try reflexivity.
      f_equal. rewrite bpush_bapp. apply bapp_bapp.
Qed.

Fixpoint count_pct (fmt : bytes) : nat :=
  match fmt with [] => O | c :: r => if N.eqb c PERCENT then S (count_pct r) else count_pct r end.

(* the configuration check that file.d leaves to a Fatal at run time *)
Definition es_cfg_ok (c : es_cfg) : Prop := (count_pct (es_fmt c) <= length (es_vals c))%nat.

Lemma es_name_spec_total fmt : forall vals k time e,
  (count_pct fmt <= length vals)%nat -> exists s, es_name_spec fmt vals k time e = Ok s.
Proof.
  induction fmt as [|c r IH]; intros vals k time e H; cbn [es_name_spec count_pct] in *.
  - eauto.
  - destruct (N.eqb c PERCENT).
    + destruct vals as [|v vals']; cbn [length] in H; [lia|].
      destruct (IH vals' (S k) time e ltac:(lia)) as [s ->]. cbn [bind]. eauto.
    + destruct (IH vals k time e H) as [s ->]. cbn [bind]. eauto.
Qed.

(* the index name / action line / frame of an event as total functions (under es_cfg_ok) *)
Definition es_name_of (c : es_cfg) (e : ev) : bytes :=
  match es_name_spec (es_fmt c) (es_vals c) 0 (es_time c) e with Ok s => s | _ => [] end.
Definition es_header_of (c : es_cfg) (e : ev) : bytes := es_prefix (es_op c) ++ es_name_of c e ++ es_suffix.
Definition es_frame_of (c : es_cfg) (e : ev) : bytes := es_header_of c e ++ [NL] ++ enc e ++ [NL].

Lemma es_append_index_name_ok c e acc : es_cfg_ok c ->
  es_append_index_name c e acc = Ok (bapp acc (es_header_of c e)).
Proof.
  intro Hc. unfold es_append_index_name, es_header_of, es_name_of. rewrite es_name_ok.
  destruct (es_name_spec_total (es_fmt c) (es_vals c) 0 (es_time c) e Hc) as [s ->].
  cbn [bind]. f_equal. rewrite !bapp_bapp. reflexivity.
Qed.

Lemma es_header_ok c e : es_cfg_ok c -> es_header c e = Ok (es_header_of c e).
Proof.
  intro Hc. unfold es_header. rewrite es_append_index_name_ok by exact Hc. cbn [bind].
  rewrite bbytes_bapp. reflexivity.
Qed.

Lemma es_append_event_ok c e acc : es_cfg_ok c ->
  es_append_event c e acc = Ok (bapp acc (es_frame_of c e)).
Proof.
  intro Hc. unfold es_append_event. rewrite es_append_index_name_ok by exact Hc. cbn [bind].
  f_equal. rewrite !bpush_bapp, !bapp_bapp. unfold es_frame_of. reflexivity.
Qed.

Lemma es_fold c l : es_cfg_ok c -> forall b rbeg n,
  exists b' rbeg',
    fold_left (es_cb c) l (Ok (b, rbeg, n)) = Ok (b', rbeg', n + len l)
    /\ b' = bapp b (concat (map (es_frame_of c) l))
    /\ rev rbeg' ++ [blen b'] = rev rbeg ++ offsets (blen b) (map (es_frame_of c) l).
Proof.
  intro Hc. induction l as [|e r IH]; intros b rbeg n; cbn [fold_left map concat].
  - exists b, rbeg. repeat split.
    + rewrite len_nil. do 2 f_equal. lia.
    + unfold bapp. destruct b as [rb0 bl0]. cbn [rb blen rev_append]. rewrite len_nil. f_equal. lia.
  - cbn [es_cb bind]. rewrite es_append_event_ok by exact Hc. cbn [bind].
    destruct (IH (bapp b (es_frame_of c e)) (blen b :: rbeg) (n + 1)) as (b' & rbeg' & E & Hb & Hr).
    exists b', rbeg'. repeat split.
    + rewrite E, len_cons. do 2 f_equal. lia.
    + rewrite Hb. apply bapp_bapp.
    + rewrite Hr. cbn [rev offsets]. rewrite blen_bapp, <- app_assoc. reflexivity.
Qed.

(* the payload of a batch: one frame per deliverable event, in batch order, whatever the buffer held *)
Theorem es_build_spec c batch prev : es_cfg_ok c ->
  let fs := map (es_frame_of c) (deliverable batch) in
  es_build c batch prev = Ok (concat fs, offsets 0 fs, len fs).
Proof.
  intro Hc. cbn zeta. unfold es_build. rewrite for_each_fold.
  destruct (es_fold c (deliverable batch) Hc (buf_reset prev) [] 0) as (b' & rbeg' & E & Hb & Hr).
  rewrite E. cbn [bind]. rewrite rev_fast_rev. cbn [rev]. rewrite Hr, Hb.
  rewrite bbytes_bapp, bbytes_reset, blen_reset. cbn [rev app].
  unfold len. rewrite map_length. reflexivity.
Qed.

(* ==========================================================================================
   6. Kafka
   ========================================================================================== *)
Fixpoint k_recs (c : k_cfg) (start : Z) (evs : list ev) : list krec :=
  match evs with
  | [] => []
  | e :: r => mkRec (k_topic c e) start (start + len (enc e)) :: k_recs c (start + len (enc e)) r
  end.

Lemma k_fold c l : forall b rrecs i,
  0 <= i -> i + len l <= k_batch_size c ->
  exists b' rrecs',
    fold_left (k_cb c) l (Ok (b, rrecs, i)) = Ok (b', rrecs', i + len l)
    /\ b' = bapp b (concat (map enc l))
    /\ rev rrecs' = rev rrecs ++ k_recs c (blen b) l.
Proof.
  induction l as [|e r IH]; intros b rrecs i Hi Hbs; cbn [fold_left map concat k_recs].
  - exists b, rrecs. repeat split.
    + rewrite len_nil. do 2 f_equal. lia.
    + unfold bapp. destruct b as [rb0 bl0]. cbn [rb blen rev_append]. rewrite len_nil. f_equal. lia.
    + symmetry. apply app_nil_r.
  - rewrite len_cons in Hbs. pose proof (len_nonneg r).
    cbn [k_cb bind]. destruct ((0 <=? i) && (i <? k_batch_size c)) eqn:E; [|lia].
    destruct (IH (bapp b (enc e)) (mkRec (k_topic c e) (blen b) (blen (bapp b (enc e))) :: rrecs) (i + 1) ltac:(lia) ltac:(lia))
      as (b' & rrecs' & E' & Hb & Hr).
    exists b', rrecs'. repeat split.
    + rewrite E', len_cons. do 2 f_equal. lia.
    + rewrite Hb. apply bapp_bapp.
    + rewrite Hr. cbn [rev]. rewrite blen_bapp, <- app_assoc. reflexivity.
Qed.

Theorem kafka_build_spec c batch prev :
  len (deliverable batch) <= k_batch_size c ->
  kafka_build c batch prev = Ok (concat (map enc (deliverable batch)), k_recs c 0 (deliverable batch)).
Proof.
  intro Hbs. unfold kafka_build. rewrite for_each_fold.
  destruct (k_fold c (deliverable batch) (buf_reset prev) [] 0 ltac:(lia) ltac:(lia)) as (b' & rrecs' & E & Hb & Hr).
  rewrite E. cbn [bind]. rewrite rev_fast_rev, Hr, Hb, bbytes_bapp, bbytes_reset, blen_reset. reflexivity.
Qed.

(* record i carries exactly the encoding of the i-th deliverable event, and the slices tile the buffer *)
Lemma k_recs_values c : forall evs pre,
  Forall2 (fun r e => k_value (pre ++ concat (map enc evs)) r = Ok (enc e) /\ kr_topic r = k_topic c e)
          (k_recs c (len pre) evs) evs.
Proof.
  induction evs as [|e r IH]; intro pre; cbn [k_recs map concat]; constructor.
  - split; [|reflexivity]. unfold k_value. cbn [kr_start kr_end]. apply slice_app_mid.
  - specialize (IH (pre ++ enc e)). rewrite len_app, <- app_assoc in IH. exact IH.
Qed.

Lemma k_recs_chain c : forall evs start,
  chain start (start + len (concat (map enc evs))) (map (fun r => (kr_start r, kr_end r)) (k_recs c start evs)).
Proof.
  induction evs as [|e r IH]; intro start; cbn [k_recs map concat chain kr_start kr_end].
  - rewrite len_nil. lia.
  - pose proof (len_nonneg (enc e)). repeat split; [lia|]. rewrite len_app, Z.add_assoc. apply IH.
Qed.

Theorem kafka_records c batch prev :
  len (deliverable batch) <= k_batch_size c ->
  exists data recs,
    kafka_build c batch prev = Ok (data, recs)
    /\ Forall2 (fun r e => k_value data r = Ok (enc e) /\ kr_topic r = k_topic c e) recs (deliverable batch)
    /\ chain 0 (len data) (map (fun r => (kr_start r, kr_end r)) recs).
Proof.
  intro Hbs. eexists _, _. split; [apply kafka_build_spec, Hbs|]. split.
  - apply (k_recs_values c (deliverable batch) []).
  - apply (k_recs_chain c (deliverable batch) 0).
Qed.
