(* Proofs about Model/Join.v: the join state machine emits exactly the decomposition of its input
   into maximal runs; never reaches its Panicf branches under the processor's delivery guarantee. *)
From Verif Require Import Base.Sx Base.GoSem Model.Join.
From Coq Require Import Lia ZifyBool.

(* ---- small facts ------------------------------------------------------------------------------ *)
Lemma find_true_range : forall l i t, find_true l i = Some t -> i <= t < i + len l.
Proof.
  induction l as [|b r IH]; intros i t H; cbn [find_true] in H; [discriminate|].
  unfold len in *. cbn [length]. destruct b.
  - inversion H; subst. lia.
  - apply IH in H. lia.
Qed.

Lemma idx_in_range : forall {A} (l : list A) i, 0 <= i < len l -> exists x, idx l i = Ok x.
Proof.
  intros A l i Hi. unfold idx.
  replace ((0 <=? i) && (i <? len l)) with true by lia.
  destruct (nth_error l (Z.to_nat i)) eqn:E; [eauto|].
  apply nth_error_None in E. unfold len in Hi. lia.
Qed.

Lemma span_cont_app : forall negs t r a b, span_cont negs t r = (a, b) -> r = a ++ b.
Proof.
  induction r as [|y r IH]; intros a b H; cbn [span_cont] in H.
  - inversion H; reflexivity.
  - destruct (is_cont negs t (snd y)).
    + destruct (span_cont negs t r) as [a' b'] eqn:E. inversion H; subst.
      cbn. f_equal. apply IH. reflexivity.
    + inversion H; reflexivity.
Qed.

Lemma span_cont_all : forall negs t r a b,
  span_cont negs t r = (a, b) -> forallb (fun e => is_cont negs t (snd e)) a = true.
Proof.
  induction r as [|y r IH]; intros a b H; cbn [span_cont] in H.
  - inversion H; reflexivity.
  - destruct (is_cont negs t (snd y)) eqn:Ey.
    + destruct (span_cont negs t r) as [a' b'] eqn:E. inversion H; subst.
      cbn [forallb]. rewrite Ey. cbn. eapply IH. reflexivity.
    + inversion H; reflexivity.
Qed.

Lemma span_cont_head : forall negs t r a y b,
  span_cont negs t r = (a, y :: b) -> is_cont negs t (snd y) = false.
Proof.
  induction r as [|z r IH]; intros a y b H; cbn [span_cont] in H.
  - inversion H.
  - destruct (is_cont negs t (snd z)) eqn:Ez.
    + destruct (span_cont negs t r) as [a' b'] eqn:E. inversion H; subst. eapply IH. reflexivity.
    + inversion H; subst. exact Ez.
Qed.

Lemma span_cont_prefix : forall negs t cs r,
  forallb (fun e => is_cont negs t (snd e)) cs = true ->
  span_cont negs t (cs ++ r) = (cs ++ fst (span_cont negs t r), snd (span_cont negs t r)).
Proof.
  induction cs as [|x cs IH]; intros r H; cbn [app].
  - destruct (span_cont negs t r); reflexivity.
  - cbn [forallb] in H. apply andb_true_iff in H. destruct H as [Hx Hcs].
    cbn [span_cont]. rewrite Hx. rewrite (IH r Hcs). reflexivity.
Qed.

Lemma span_cont_stop : forall negs t (y : jev) r,
  is_cont negs t (snd y) = false -> span_cont negs t (y :: r) = ([], y :: r).
Proof. intros. cbn [span_cont]. rewrite H. reflexivity. Qed.

(* ---- the fuel of [segments] is irrelevant ----------------------------------------------------- *)
Lemma segments_fuel_mono : forall negs n m evs,
  (length evs <= n)%nat -> (length evs <= m)%nat ->
  segments_fuel n negs evs = segments_fuel m negs evs.
Proof.
  induction n as [|n IH]; intros m evs Hn Hm.
  - destruct evs; [|cbn in Hn; lia]. destruct m; reflexivity.
  - destruct m as [|m].
    + destruct evs; [reflexivity|cbn in Hm; lia].
    + destruct evs as [|e r]; [reflexivity|]. cbn [length] in Hn, Hm.
      cbn [segments_fuel]. destruct (is_start (snd e)) as [t|].
      * destruct (span_cont negs t r) as [cs rest] eqn:E.
        pose proof (span_cont_app _ _ _ _ _ E) as Hr.
        assert (Hl : (length rest <= length r)%nat) by (rewrite Hr, app_length; lia).
        destruct rest as [|y rest']; [reflexivity|]. cbn [length] in Hl.
        destruct (snd y); f_equal; apply IH; cbn [length]; lia.
      * f_equal. apply IH; lia.
Qed.

Lemma segments_plain : forall negs (e : jev) r,
  is_start (snd e) = None -> segments negs (e :: r) = SPlain e :: segments negs r.
Proof.
  intros negs e r H. unfold segments. cbn [length segments_fuel]. rewrite H. reflexivity.
Qed.

Lemma segments_run : forall negs (e : jev) r t cs rest,
  is_start (snd e) = Some t -> span_cont negs t r = (cs, rest) ->
  segments negs (e :: r) =
    match rest with
    | [] => [SRun e t cs COpen]
    | y :: rest' =>
        match snd y with
        | JTimeout => SRun e t cs (CTimeout y) :: segments negs rest'
        | _ => SRun e t cs CNext :: segments negs rest
        end
    end.
Proof.
  intros negs e r t cs rest Hs Hsp. unfold segments. cbn [length segments_fuel]. rewrite Hs, Hsp.
  pose proof (span_cont_app _ _ _ _ _ Hsp) as Hr.
  assert (Hl : (length rest <= length r)%nat) by (rewrite Hr, app_length; lia).
  destruct rest as [|y rest']; [reflexivity|]. cbn [length] in Hl.
  destruct (snd y); f_equal; apply segments_fuel_mono; cbn [length]; lia.
Qed.

Theorem segments_fuel_enough : forall negs n evs,
  (length evs <= n)%nat -> segments_fuel n negs evs = segments negs evs.
Proof. intros. unfold segments. apply segments_fuel_mono; lia. Qed.

(* ---- the decomposition: a partition into well-formed, maximal runs; and the only one ---------- *)
Lemma segments_partition : forall negs evs, concat (map seg_inputs (segments negs evs)) = evs.
Proof.
  intros negs evs. remember (length evs) as n eqn:Hn.
  assert (Hle : (length evs <= n)%nat) by lia. clear Hn. revert evs Hle.
  induction n as [|n IH]; intros evs Hle.
  - destruct evs; [reflexivity|cbn in Hle; lia].
  - destruct evs as [|e r]; [reflexivity|]. cbn [length] in Hle.
    destruct (is_start (snd e)) as [t|] eqn:Hs.
    + destruct (span_cont negs t r) as [cs rest] eqn:E.
      rewrite (segments_run _ _ _ _ _ _ Hs E).
      pose proof (span_cont_app _ _ _ _ _ E) as Hr. subst r.
      rewrite app_length in Hle.
      destruct rest as [|y rest'].
      * cbn. rewrite !app_nil_r. reflexivity.
      * cbn [length] in Hle.
        destruct y as [iy xy]. cbn [snd]. destruct xy; cbn [map concat seg_inputs].
        -- rewrite IH by lia. cbn. rewrite <- app_assoc. reflexivity.
        -- rewrite IH by (cbn [length]; lia). reflexivity.
        -- rewrite IH by (cbn [length]; lia). reflexivity.
    + rewrite (segments_plain _ _ _ Hs). cbn [map concat seg_inputs]. rewrite IH by lia. reflexivity.
Qed.

Lemma seg_inputs_head : forall s, exists tl, seg_inputs s = seg_head s :: tl.
Proof. destruct s as [e|s t cs c]; cbn; [eauto|]. destruct c; eauto. Qed.

Lemma segments_head : forall negs evs,
  match segments negs evs, evs with
  | [], [] => True
  | s :: _, e :: _ => seg_head s = e
  | _, _ => False
  end.
Proof.
  intros negs [|e r]; [exact I|].
  destruct (is_start (snd e)) as [t|] eqn:Hs.
  - destruct (span_cont negs t r) as [cs rest] eqn:E.
    rewrite (segments_run _ _ _ _ _ _ Hs E).
    destruct rest as [|y rest']; [reflexivity|]. destruct (snd y); reflexivity.
  - rewrite (segments_plain _ _ _ Hs). reflexivity.
Qed.

Definition closing_ok (negs : list bool) (t : Z) (c : closing) (l : list seg) : bool :=
  match c with
  | COpen => match l with [] => true | _ :: _ => false end
  | CTimeout y => is_timeout (snd y)
  | CNext => match l with
             | [] => false
             | n :: _ => negb (is_cont negs t (snd (seg_head n))) && negb (is_timeout (snd (seg_head n)))
             end
  end.

Lemma segs_ok_run : forall negs s t cs c l,
  segs_ok negs (SRun s t cs c :: l) =
    match is_start (snd s) with Some t' => t' =? t | None => false end &&
    forallb (fun e => is_cont negs t (snd e)) cs && closing_ok negs t c l && segs_ok negs l.
Proof. reflexivity. Qed.

Lemma segments_ok : forall negs evs, segs_ok negs (segments negs evs) = true.
Proof.
  intros negs evs. remember (length evs) as n eqn:Hn.
  assert (Hle : (length evs <= n)%nat) by lia. clear Hn. revert evs Hle.
  induction n as [|n IH]; intros evs Hle.
  - destruct evs; [reflexivity|cbn in Hle; lia].
  - destruct evs as [|e r]; [reflexivity|]. cbn [length] in Hle.
    destruct (is_start (snd e)) as [t|] eqn:Hs.
    + destruct (span_cont negs t r) as [cs rest] eqn:E.
      rewrite (segments_run _ _ _ _ _ _ Hs E).
      pose proof (span_cont_app _ _ _ _ _ E) as Hr.
      pose proof (span_cont_all _ _ _ _ _ E) as Hall.
      assert (Hl : (length rest <= length r)%nat) by (rewrite Hr, app_length; lia).
      destruct rest as [|y rest'].
      * rewrite segs_ok_run, Hs, Z.eqb_refl, Hall. reflexivity.
      * pose proof (span_cont_head _ _ _ _ _ _ E) as Hy. cbn [length] in Hl.
        assert (Hnext : snd y <> JTimeout ->
                  segs_ok negs (SRun e t cs CNext :: segments negs (y :: rest')) = true).
        { intro Hnt. rewrite segs_ok_run, Hs, Z.eqb_refl, Hall, IH by (cbn [length]; lia).
          pose proof (segments_head negs (y :: rest')) as Hh.
          destruct (segments negs (y :: rest')) as [|s0 l0]; [contradiction|].
          cbn [closing_ok]. rewrite Hh, Hy. destruct (snd y); [contradiction| |]; reflexivity. }
        destruct (snd y) eqn:Ey.
        -- rewrite segs_ok_run, Hs, Z.eqb_refl, Hall. cbn [closing_ok]. rewrite Ey, IH by lia. reflexivity.
        -- apply Hnext. discriminate.
        -- apply Hnext. discriminate.
    + rewrite (segments_plain _ _ _ Hs). cbn [segs_ok]. rewrite Hs. cbn. apply IH. lia.
Qed.

Theorem segments_partition_ok : forall negs evs,
  concat (map seg_inputs (segments negs evs)) = evs /\ segs_ok negs (segments negs evs) = true.
Proof. intros; split; [apply segments_partition|apply segments_ok]. Qed.

Lemma segments_unique : forall negs ss,
  segs_ok negs ss = true -> segments negs (concat (map seg_inputs ss)) = ss.
Proof.
  induction ss as [|s l IH]; intros Hok; [reflexivity|].
  destruct s as [e|s t cs c]; cbn [segs_ok] in Hok.
  - apply andb_true_iff in Hok. destruct Hok as [Hn Hl].
    cbn [map concat seg_inputs app]. rewrite segments_plain.
    + rewrite (IH Hl). reflexivity.
    + destruct (is_start (snd e)); [discriminate|reflexivity].
  - apply andb_true_iff in Hok. destruct Hok as [Hok Hl].
    apply andb_true_iff in Hok. destruct Hok as [Hok Hc].
    apply andb_true_iff in Hok. destruct Hok as [Hs Hcs].
    destruct (is_start (snd s)) as [t'|] eqn:Es; [|discriminate].
    assert (t' = t) by lia. subst t'.
    destruct c as [| |y].
    + destruct l; [|discriminate]. cbn [map concat seg_inputs app]. rewrite app_nil_r.
      erewrite segments_run; [|exact Es|].
      2:{ rewrite <- (app_nil_r cs) at 1. rewrite (span_cont_prefix _ _ _ _ Hcs). cbn. rewrite app_nil_r. reflexivity. }
      reflexivity.
    + destruct l as [|n l']; [discriminate|].
      apply andb_true_iff in Hc. destruct Hc as [Hnc Hnt].
      change (concat (map seg_inputs (SRun s t cs CNext :: n :: l')))
        with ((s :: cs) ++ concat (map seg_inputs (n :: l'))).
      cbn [app].
      destruct (seg_inputs_head n) as [tl Htl].
      remember (concat (map seg_inputs (n :: l'))) as rest eqn:Hrest.
      assert (Hr : rest = seg_head n :: tl ++ concat (map seg_inputs l')).
      { subst rest. cbn [map concat]. rewrite Htl. reflexivity. }
      erewrite segments_run; [|exact Es|].
      2:{ rewrite (span_cont_prefix _ _ _ _ Hcs). rewrite Hr. rewrite span_cont_stop by (destruct (is_cont negs t (snd (seg_head n))); [discriminate|reflexivity]).
          cbn. rewrite app_nil_r. reflexivity. }
      pose proof (IH Hl) as Hseg. rewrite Hr in Hseg |- *.
      destruct (snd (seg_head n)) eqn:En; [discriminate| |]; rewrite Hseg; reflexivity.
    + cbn [map concat seg_inputs]. cbn [app]. rewrite <- app_assoc. cbn [app].
      destruct y as [iy xy]. cbn [snd] in Hc. destruct xy; try discriminate.
      erewrite segments_run; [|exact Es|].
      2:{ rewrite (span_cont_prefix _ _ _ _ Hcs). rewrite span_cont_stop by reflexivity.
          cbn. rewrite app_nil_r. reflexivity. }
      cbn [snd]. rewrite (IH Hl). reflexivity.
Qed.

(* ---- the size rule ---------------------------------------------------------------------------- *)
Lemma limited_cat_full : forall max first vs,
  max <> 0 -> max <= len first -> limited_cat max first vs = first.
Proof.
  intros max first vs Hm Hl. unfold limited_cat. induction vs as [|v r IH]; [reflexivity|].
  cbn [fold_left]. unfold append_limited at 2.
  replace ((max =? 0) || (len first <? max)) with false by lia. exact IH.
Qed.

Lemma len_app : forall {A} (a b : list A), len (a ++ b) = len a + len b.
Proof. intros. unfold len. rewrite app_length. lia. Qed.

Lemma limited_cat_rule : forall max vs first,
  exists k, (k <= length vs)%nat /\
    limited_cat max first vs = first ++ concat (firstn k vs) /\
    (forall j, (j < k)%nat -> max = 0 \/ len (first ++ concat (firstn j vs)) < max) /\
    ((k < length vs)%nat -> max <> 0 /\ max <= len (first ++ concat (firstn k vs))).
Proof.
  intros max vs. induction vs as [|v r IH]; intros first.
  - exists 0%nat. cbn. rewrite app_nil_r. split; [lia|]. split; [reflexivity|]. split; intros; lia.
  - destruct ((max =? 0) || (len first <? max)) eqn:Hfit.
    + destruct (IH (first ++ v)) as [k [Hk [Hc [Hj Hstop]]]].
      exists (S k). cbn [length firstn concat]. split; [lia|]. split; [|split].
      * unfold limited_cat in *. cbn [fold_left]. unfold append_limited at 2. rewrite Hfit.
        rewrite Hc, <- app_assoc. reflexivity.
      * intros j Hjk. destruct j as [|j].
        -- cbn. rewrite app_nil_r. lia.
        -- cbn [firstn concat]. rewrite app_assoc. apply Hj. lia.
      * intro Hlt. rewrite app_assoc. apply Hstop. lia.
    + exists 0%nat. cbn [firstn concat length]. rewrite app_nil_r. split; [lia|]. split; [|split].
      * unfold limited_cat. cbn [fold_left]. unfold append_limited at 2. rewrite Hfit.
        apply limited_cat_full; lia.
      * intros j Hj. lia.
      * intros _. lia.
Qed.

Lemma limited_cat_zero : forall vs first, limited_cat 0 first vs = first ++ concat vs.
Proof.
  induction vs as [|v r IH]; intros first; unfold limited_cat in *; cbn [fold_left concat].
  - rewrite app_nil_r. reflexivity.
  - unfold append_limited at 2. cbn. rewrite IH, <- app_assoc. reflexivity.
Qed.

Lemma limited_cat_snoc : forall max first vs v,
  limited_cat max first (vs ++ [v]) = append_limited max (limited_cat max first vs) v.
Proof. intros. unfold limited_cat. rewrite fold_left_app. reflexivity. Qed.

(* conservation: with max_event_size = 0 the bytes carried by the segments are the input's bytes *)
Lemma in_bytes_app : forall a b, in_bytes (a ++ b) = in_bytes a ++ in_bytes b.
Proof. intros. unfold in_bytes. rewrite map_app, concat_app. reflexivity. Qed.

Definition timeout_closed (s : seg) : bool :=
  match s with SRun _ _ _ (CTimeout y) => is_timeout (snd y) | _ => true end.

Lemma seg_bytes_zero : forall s, timeout_closed s = true -> seg_bytes 0 s = in_bytes (seg_inputs s).
Proof.
  destruct s as [e|s t cs c]; intro Hc; unfold in_bytes; cbn [seg_bytes seg_inputs map concat].
  - rewrite app_nil_r. reflexivity.
  - unfold run_content. rewrite limited_cat_zero.
    destruct c as [| |y]; cbn [map concat]; try reflexivity.
    rewrite map_app, concat_app. cbn [map concat].
    destruct y as [iy xy]. cbn [timeout_closed snd] in Hc. (* a closing time-out carries no bytes *)
    destruct xy; try discriminate. cbn [snd jval]. rewrite !app_nil_r. reflexivity.
Qed.

Lemma segs_ok_timeout_closed : forall negs ss, segs_ok negs ss = true -> forallb timeout_closed ss = true.
Proof.
  induction ss as [|s l IH]; intro H; [reflexivity|]. cbn [forallb].
  destruct s as [e|s t cs c].
  - cbn [segs_ok] in H. apply andb_true_iff in H. destruct H as [_ H]. rewrite (IH H). reflexivity.
  - rewrite segs_ok_run in H. apply andb_true_iff in H. destruct H as [H Hl].
    apply andb_true_iff in H. destruct H as [_ Hc]. rewrite (IH Hl).
    destruct c; cbn [timeout_closed closing_ok] in *; try reflexivity. rewrite Hc. reflexivity.
Qed.

Theorem join_conservation_zero : forall negs evs,
  concat (map (seg_bytes 0) (segments negs evs)) = in_bytes evs.
Proof.
  intros negs evs. rewrite <- (segments_partition negs evs) at 2.
  pose proof (segs_ok_timeout_closed _ _ (segments_ok negs evs)) as Hc.
  induction (segments negs evs) as [|s l IH]; [reflexivity|].
  cbn [forallb] in Hc. apply andb_true_iff in Hc. destruct Hc as [Hs Hl].
  cbn [map concat]. rewrite in_bytes_app, (IH Hl), (seg_bytes_zero _ Hs). reflexivity.
Qed.

(* with a limit every segment carries a prefix of what it would carry without one *)
Theorem seg_bytes_prefix : forall max s, exists rest, seg_bytes 0 s = seg_bytes max s ++ rest.
Proof.
  intros max [e|s t cs c]; cbn [seg_bytes].
  - exists []. rewrite app_nil_r. reflexivity.
  - unfold run_content. rewrite limited_cat_zero.
    destruct (limited_cat_rule max (map (fun e => jval (snd e)) cs) (jval (snd s))) as [k [_ [Hc _]]].
    rewrite Hc. exists (concat (skipn k (map (fun e => jval (snd e)) cs))).
    rewrite <- app_assoc, <- concat_app, firstn_skipn. reflexivity.
Qed.

(* ---- the state machine against the decomposition ---------------------------------------------- *)
Definition idle_of (st : jstate) : jstate :=
  {| isJoining := false; initial := None; buff := buff st; cur := cur st |}.

Definition joining_with (c : jcfg) (st : jstate) (s : jev) (t : Z) (cs : list jev) : Prop :=
  isJoining st = true /\ initial st = Some (fst s) /\ cur st = t /\
  buff st = run_content (jmax c) s cs /\ is_start (snd s) = Some t /\ 0 <= t < len (jnegs c).

Lemma is_start_range : forall c x t, jin_wf c x = true -> is_start x = Some t -> 0 <= t < len (jnegs c).
Proof.
  intros c x t Hwf Hs. destruct x as [| |isStr v starts conts]; try discriminate.
  cbn [is_start] in Hs. destruct isStr; [|discriminate].
  apply find_true_range in Hs. cbn [jin_wf] in Hwf. unfold len in *. lia.
Qed.

Lemma pend_cons_none : forall max x l, seg_pending max x = None -> spec_pending max (x :: l) = spec_pending max l.
Proof. intros max x l H. cbn [spec_pending]. destruct l; [exact H|reflexivity]. Qed.

Lemma flush_joining : forall st i, initial st = Some i -> flush st = Ok (idle_of st, [(i, buff st)]).
Proof. intros st i H. unfold flush, idle_of. rewrite H. reflexivity. Qed.

Lemma next_ok_is_cont : forall c st isStr v starts conts t,
  jin_wf c (JField isStr v starts conts) = true -> cur st = t -> 0 <= t < len (jnegs c) ->
  is_start (JField isStr v starts conts) = None ->
  next_ok c st conts = Ok (is_cont (jnegs c) t (JField isStr v starts conts)).
Proof.
  intros c st isStr v starts conts t Hwf Hc Ht Hs. unfold next_ok. rewrite Hc.
  cbn [jin_wf] in Hwf.
  destruct (idx_in_range conts t) as [b Hb]; [unfold len in *; lia|].
  destruct (idx_in_range (jnegs c) t) as [n Hn]; [lia|].
  rewrite Hb. cbn [bind]. rewrite Hn. cbn [bind].
  unfold is_cont. rewrite Hs, Hb, Hn. reflexivity.
Qed.

Definition results_of (os : list jstep) : list Z := map (fun o : jstep => fst o) os.

(* the invariant, for both phases of the machine at once *)
Lemma join_run_segments : forall c evs,
  jwf c evs = true ->
  (forall st, isJoining st = false -> busy_ok_from c st false evs = true ->
     exists os st', join_run c st evs = (os, Ok st') /\ length os = length evs /\
       downstream os evs = flat_map (seg_down (jmax c)) (segments (jnegs c) evs) /\
       results_of os = flat_map seg_results (segments (jnegs c) evs) /\
       state_pending st' = spec_pending (jmax c) (segments (jnegs c) evs)) /\
  (forall st s t cs, joining_with c st s t cs ->
     forallb (fun e => is_cont (jnegs c) t (snd e)) cs = true ->
     busy_ok_from c st true evs = true ->
     exists os st', join_run c st evs = (os, Ok st') /\ length os = length evs /\
       downstream os evs = flat_map (seg_down (jmax c)) (segments (jnegs c) (s :: cs ++ evs)) /\
       AHold :: map (fun _ => ACollapse) cs ++ results_of os
         = flat_map seg_results (segments (jnegs c) (s :: cs ++ evs)) /\
       state_pending st' = spec_pending (jmax c) (segments (jnegs c) (s :: cs ++ evs))).
Proof.
  intros c evs. induction evs as [|y r IH]; intros Hwf.
  - split.
    + intros st Hj _. exists [], st. cbn. repeat split. unfold state_pending. rewrite Hj. reflexivity.
    + intros st s t cs [Hj [Hi [Hc [Hb [Hs Ht]]]]] Hcs _. exists [], st.
      rewrite app_nil_r.
      erewrite segments_run; [|exact Hs|].
      2:{ rewrite <- (app_nil_r cs) at 1. rewrite (span_cont_prefix _ _ _ _ Hcs). cbn. rewrite app_nil_r. reflexivity. }
      cbn. rewrite !app_nil_r. repeat split.
      unfold state_pending. rewrite Hj, Hi, Hb. reflexivity.
  - cbn [jwf forallb] in Hwf. apply andb_true_iff in Hwf. destruct Hwf as [Hwy Hwr].
    destruct (IH Hwr) as [IHA IHB]. clear IH.
    destruct y as [iy xy]. cbn [snd] in Hwy.
    split.
    + (* idle *)
      intros st Hj Hbusy. cbn [busy_ok_from snd] in Hbusy.
      destruct xy as [| |isStr v starts conts].
      * cbn in Hbusy. discriminate.
      * (* no field, idle: pass *)
        cbn [join_do] in *. rewrite Hj in *. cbn [andb fst is_busy] in Hbusy.
        destruct (IHA st Hj Hbusy) as [os [st' [Hr [Hl [Hd [Hres Hp]]]]]].
        exists ((APass, []) :: os), st'. cbn [join_run join_do]. rewrite Hj, Hr.
        rewrite segments_plain by reflexivity.
        cbn [length downstream flat_map seg_down seg_results results_of map fst snd step_down app].
        rewrite Hl, Hd. fold (results_of os). rewrite Hres. repeat split.
        rewrite pend_cons_none by reflexivity. exact Hp.
      * destruct (is_start (JField isStr v starts conts)) as [t|] eqn:Hs.
        -- (* a start line, idle: hold *)
           assert (Hft : (if isStr then find_true starts 0 else None) = Some t).
           { cbn [is_start] in Hs. destruct isStr; [exact Hs|discriminate]. }
           cbn [join_do] in *. rewrite Hft, Hj in *. cbn [bind andb fst is_busy] in Hbusy.
           set (st1 := {| isJoining := true; initial := Some iy; buff := v; cur := t |}) in *.
           assert (Hjw : joining_with c st1 (iy, JField isStr v starts conts) t []).
           { unfold joining_with, st1. cbn. repeat split; try reflexivity; try exact Hs;
               apply (is_start_range c _ _ Hwy Hs). }
           destruct (IHB st1 _ _ _ Hjw eq_refl Hbusy) as [os [st' [Hr [Hl [Hd [Hres Hp]]]]]].
           exists ((AHold, []) :: os), st'. cbn [join_run join_do]. rewrite Hft, Hj. cbn [bind].
           fold st1. rewrite Hr. cbn [app] in Hd, Hres, Hp.
           cbn [length downstream results_of map fst snd step_down app].
           rewrite Hl. fold (results_of os). repeat split; try assumption.
        -- (* other line, idle: pass *)
           assert (Hft : (if isStr then find_true starts 0 else None) = None).
           { cbn [is_start] in Hs. destruct isStr; [exact Hs|reflexivity]. }
           cbn [join_do] in *. rewrite Hft, Hj in *. cbn [andb fst is_busy] in Hbusy.
           destruct (IHA st Hj Hbusy) as [os [st' [Hr [Hl [Hd [Hres Hp]]]]]].
           exists ((APass, []) :: os), st'. cbn [join_run join_do]. rewrite Hft, Hj, Hr.
           rewrite segments_plain by exact Hs.
           cbn [length downstream flat_map seg_down seg_results results_of map fst snd step_down app].
           rewrite Hl, Hd. fold (results_of os). rewrite Hres. repeat split.
           rewrite pend_cons_none by reflexivity. exact Hp.
    + (* joining *)
      intros st s t cs Hjw Hcs Hbusy.
      destruct Hjw as [Hj [Hi [Hc [Hb [Hs Ht]]]]].
      cbn [busy_ok_from snd] in Hbusy.
      pose proof (flush_joining st (fst s) Hi) as Hfl.
      assert (Hidle : isJoining (idle_of st) = false) by reflexivity.
      destruct xy as [| |isStr v starts conts].
      * (* time-out: flush, discard *)
        cbn [join_do] in *. rewrite Hj, Hfl in *. cbn [bind andb fst is_busy] in Hbusy.
        destruct (IHA _ Hidle Hbusy) as [os [st' [Hr [Hl [Hd [Hres Hp]]]]]].
        exists ((ADiscard, [(fst s, buff st)]) :: os), st'. cbn [join_run join_do].
        rewrite Hj, Hfl. cbn [bind]. rewrite Hr.
        erewrite segments_run; [|exact Hs|].
        2:{ rewrite (span_cont_prefix _ _ _ _ Hcs). rewrite span_cont_stop by reflexivity.
            cbn. rewrite app_nil_r. reflexivity. }
        cbn [snd flat_map seg_down seg_results length downstream results_of map fst step_down app].
        rewrite Hl, Hd, Hb. fold (results_of os). rewrite <- Hres. repeat split.
        -- rewrite <- app_assoc. reflexivity.
        -- rewrite pend_cons_none by reflexivity. exact Hp.
      * (* no field: flush, pass *)
        cbn [join_do] in *. rewrite Hj, Hfl in *. cbn [bind andb fst is_busy] in Hbusy.
        destruct (IHA _ Hidle Hbusy) as [os [st' [Hr [Hl [Hd [Hres Hp]]]]]].
        exists ((APass, [(fst s, buff st)]) :: os), st'. cbn [join_run join_do].
        rewrite Hj, Hfl. cbn [bind]. rewrite Hr.
        erewrite segments_run; [|exact Hs|].
        2:{ rewrite (span_cont_prefix _ _ _ _ Hcs). rewrite span_cont_stop by reflexivity.
            cbn. rewrite app_nil_r. reflexivity. }
        cbn [snd]. rewrite segments_plain by reflexivity.
        cbn [flat_map seg_down seg_results length downstream results_of map fst snd step_down app].
        rewrite Hl, Hd, Hb. fold (results_of os). rewrite <- Hres. repeat split.
        -- rewrite <- app_assoc. reflexivity.
        -- rewrite !pend_cons_none by reflexivity. exact Hp.
      * destruct (is_start (JField isStr v starts conts)) as [t'|] eqn:Hs'.
        -- (* a new start line: flush, hold the new one *)
           assert (Hft : (if isStr then find_true starts 0 else None) = Some t').
           { cbn [is_start] in Hs'. destruct isStr; [exact Hs'|discriminate]. }
           assert (Hnc : is_cont (jnegs c) t (JField isStr v starts conts) = false).
           { unfold is_cont. rewrite Hs'. reflexivity. }
           cbn [join_do] in *. rewrite Hft, Hj, Hfl in *. cbn [bind andb fst is_busy] in Hbusy.
           set (st1 := {| isJoining := true; initial := Some iy; buff := v; cur := t' |}) in *.
           assert (Hjw : joining_with c st1 (iy, JField isStr v starts conts) t' []).
           { unfold joining_with, st1. cbn. repeat split; try reflexivity; try exact Hs';
               apply (is_start_range c _ _ Hwy Hs'). }
           destruct (IHB st1 _ _ _ Hjw eq_refl Hbusy) as [os [st' [Hr [Hl [Hd [Hres Hp]]]]]].
           exists ((AHold, [(fst s, buff st)]) :: os), st'. cbn [join_run join_do].
           rewrite Hft, Hj, Hfl. cbn [bind]. fold st1. rewrite Hr.
           erewrite segments_run; [|exact Hs|].
           2:{ rewrite (span_cont_prefix _ _ _ _ Hcs). rewrite span_cont_stop by exact Hnc.
               cbn. rewrite app_nil_r. reflexivity. }
           cbn [snd]. cbn [app] in Hd, Hres, Hp.
           cbn [flat_map seg_down seg_results length downstream results_of map fst snd step_down app].
           rewrite Hl, Hd, Hb. fold (results_of os). rewrite <- Hres. repeat split.
           ++ rewrite app_nil_r. reflexivity.
           ++ rewrite pend_cons_none by reflexivity. exact Hp.
        -- assert (Hft : (if isStr then find_true starts 0 else None) = None).
           { cbn [is_start] in Hs'. destruct isStr; [exact Hs'|reflexivity]. }
           pose proof (next_ok_is_cont c st isStr v starts conts t Hwy Hc Ht Hs') as Hnk.
           destruct (is_cont (jnegs c) t (JField isStr v starts conts)) eqn:Hic.
           ++ (* a continuation line: append, collapse *)
              cbn [join_do] in *. rewrite Hft, Hj, Hnk in *. cbn [bind andb fst is_busy] in Hbusy.
              set (st1 := {| isJoining := true; initial := initial st;
                             buff := append_limited (jmax c) (buff st) v; cur := cur st |}) in *.
              assert (Hjw : joining_with c st1 s t (cs ++ [(iy, JField isStr v starts conts)])).
              { unfold joining_with, st1. cbn [isJoining initial cur buff]. repeat split; try assumption; try lia.
                unfold run_content in Hb |- *. rewrite map_app. cbn [map]. rewrite limited_cat_snoc, Hb. reflexivity. }
              assert (Hcs' : forallb (fun e => is_cont (jnegs c) t (snd e)) (cs ++ [(iy, JField isStr v starts conts)]) = true).
              { rewrite forallb_app. apply andb_true_iff. split; [exact Hcs|]. cbn [forallb snd]. rewrite Hic. reflexivity. }
              destruct (IHB st1 _ _ _ Hjw Hcs' Hbusy) as [os [st' [Hr [Hl [Hd [Hres Hp]]]]]].
              exists ((ACollapse, []) :: os), st'. cbn [join_run join_do].
              rewrite Hft, Hj, Hnk. cbn [bind]. fold st1. rewrite Hr.
              rewrite <- app_assoc in Hd, Hres, Hp. cbn [app] in Hd, Hres, Hp.
              cbn [length downstream results_of map fst snd step_down app].
              rewrite Hl. fold (results_of os). repeat split; try assumption.
              rewrite <- Hres, map_app, <- app_assoc. reflexivity.
           ++ (* not a continuation: flush, pass *)
              cbn [join_do] in *. rewrite Hft, Hj, Hnk in *. cbn [bind] in *. rewrite Hfl in *.
              cbn [bind andb fst is_busy] in Hbusy.
              destruct (IHA _ Hidle Hbusy) as [os [st' [Hr [Hl [Hd [Hres Hp]]]]]].
              exists ((APass, [(fst s, buff st)]) :: os), st'. cbn [join_run join_do].
              rewrite Hft, Hj, Hnk. cbn [bind]. rewrite Hfl. cbn [bind]. rewrite Hr.
              erewrite segments_run; [|exact Hs|].
              2:{ rewrite (span_cont_prefix _ _ _ _ Hcs). rewrite span_cont_stop by exact Hic.
                  cbn. rewrite app_nil_r. reflexivity. }
              cbn [snd]. rewrite segments_plain by exact Hs'.
              cbn [flat_map seg_down seg_results length downstream results_of map fst snd step_down app].
              rewrite Hl, Hd, Hb. fold (results_of os). rewrite <- Hres. repeat split.
              ** rewrite <- app_assoc. reflexivity.
              ** rewrite !pend_cons_none by reflexivity. exact Hp.
Qed.

(* ---- the theorems ----------------------------------------------------------------------------- *)
Theorem join_runs : forall c evs,
  jwf c evs = true -> busy_ok c evs = true ->
  exists os st, join_run c jstate0 evs = (os, Ok st) /\ length os = length evs /\
    downstream os evs = spec_down c evs /\
    results_of os = spec_results c evs /\
    state_pending st = spec_pending (jmax c) (segments (jnegs c) evs).
Proof.
  intros c evs Hwf Hb. destruct (join_run_segments c evs Hwf) as [HA _].
  exact (HA jstate0 eq_refl Hb).
Qed.

Theorem join_never_panics : forall c evs,
  jwf c evs = true -> busy_ok c evs = true -> is_ok (snd (join_run c jstate0 evs)) = true.
Proof.
  intros c evs Hwf Hb. destruct (join_runs c evs Hwf Hb) as [os [st [Hr _]]]. rewrite Hr. reflexivity.
Qed.

(* the delivery guarantee is needed: a time-out handed to an idle join is its Panicf *)
Theorem join_timeout_when_idle_panics : forall c st i,
  isJoining st = false -> join_do c st (i, JTimeout) = Panic 3.
Proof. intros c st i H. cbn [join_do]. rewrite H. reflexivity. Qed.

(* Hold / Collapse are returned exactly when the action keeps an event (what makes it "busy") *)
Theorem join_busy_iff_joining : forall c st e st' o,
  join_do c st e = Ok (st', o) -> is_busy (fst o) = isJoining st'.
Proof.
  intros c st [i x] st' o H. cbn [join_do] in H.
  destruct x as [| |isStr v starts conts].
  - destruct (isJoining st); [|discriminate]. unfold flush in H.
    destruct (initial st); [|discriminate]. cbn in H. inversion H; subst. reflexivity.
  - destruct (isJoining st) eqn:Hj.
    + unfold flush in H. destruct (initial st); [|discriminate]. cbn in H. inversion H; subst. reflexivity.
    + inversion H; subst. rewrite Hj. reflexivity.
  - destruct (if isStr then find_true starts 0 else None).
    + destruct (isJoining st).
      * unfold flush in H. destruct (initial st); [|discriminate]. cbn in H. inversion H; subst. reflexivity.
      * cbn in H. inversion H; subst. reflexivity.
    + destruct (isJoining st) eqn:Hj.
      * destruct (next_ok c st conts) as [b| |]; cbn [bind] in H; try discriminate.
        destruct b.
        -- inversion H; subst. reflexivity.
        -- unfold flush in H. destruct (initial st); [|discriminate]. cbn in H. inversion H; subst. reflexivity.
      * inversion H; subst. rewrite Hj. reflexivity.
Qed.
