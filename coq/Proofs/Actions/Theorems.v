(* C13, action-plugin part: the final lemmas, one per modelled plugin and clause
     c13_<plugin>_total    no input makes the modelled code panic (out-of-range index / slice, exhausted loop)
     c13_<plugin>_tree_wf  the event the action leaves is a well-formed JSON tree
   Properties/C13.v restates each of them and closes it with [exact]. *)
From Verif Require Import Base.Sx Base.GoSem Base.Json Model.Decoders.Common
  Model.Actions.Tree Model.Actions.Subst Model.Actions.ConvertUtf8 Model.Actions.HashNorm Model.Actions.Plugins
  Model.Actions.Entry
  Proofs.Actions.Tree Proofs.Actions.Subst Proofs.Actions.ConvertUtf8 Proofs.Actions.HashNorm Proofs.Actions.Plugins.
From Coq Require Import Lia ZifyBool.

(* ---- modify: the cfg/substitution filters ------------------------------------------------------ *)
(* cut(mode, count): parseCutFilter accepts count > 0 *)
Lemma c13_modify_cut_total : forall first count src p, 0 < count -> cut_apply first count src <> Panic p.
Proof. intros. apply cut_total. lia. Qed.

Lemma c13_modify_cut_spec : forall count src, 0 < count ->
  cut_apply true count src = Ok (if len src <? count then src else firstn (Z.to_nat count) src) /\
  cut_apply false count src = Ok (if len src <? count then src else skipn (Z.to_nat (len src - count)) src).
Proof.
  intros count src Hc. destruct (len src <? count) eqn:E.
  - split; apply cut_short_spec; lia.
  - split; [apply cut_first_spec|apply cut_last_spec]; lia.
Qed.

(* trim_to(mode, cutset): parseTrimToFilter accepts a non-empty cutset (fixes/C13-trim-to-empty-cutset.patch) *)
Lemma c13_modify_trim_to_total : forall mode cutset src p, cutset <> [] -> trim_to_apply mode cutset src <> Panic p.
Proof. exact trim_to_total. Qed.

(* the clause fails for the cutset the unrepaired parser accepted *)
Lemma c13_modify_trim_to_empty_cutset_refuted : exists mode src, trim_to_apply mode [] src = Panic 1.
Proof. exists 2, [97%N]. vm_compute. reflexivity. Qed.

(* re(regex, limit, groups, separator, emptyOnNotMatched): for every answer of the regexp library
   of the documented shape and every group list cfg.VerifyGroupNumbers accepts (0 <= g <= NumSubexp) *)
Lemma c13_modify_re_total : forall nsub groups sep emp indexes src dst p,
  groups_ok nsub groups = true -> forallb (index_ok nsub (len src)) indexes = true ->
  re_apply groups sep emp indexes src dst <> Panic p.
Proof. exact re_total. Qed.

(* Do, with substitutions whose filters are cut / trim / trim_to *)
Lemma c13_modify_total : forall skip_empty fops root p,
  forallb (fun fo => forallb sop_valid (snd fo)) fops = true -> modify_do skip_empty root fops <> Panic p.
Proof. exact modify_do_total. Qed.

Lemma c13_modify_tree_wf : forall skip_empty fops root root',
  wf_json root = true -> modify_do skip_empty root fops = Ok root' -> wf_json root' = true.
Proof. exact modify_do_tree_wf. Qed.

(* ---- parse_re2 -------------------------------------------------------------------------------- *)
Lemma c13_parse_re2_total : forall root path prefix names sm p,
  sm = [] \/ len sm = len names -> parse_re2_do root path prefix names sm <> Panic p.
Proof. exact parse_re2_total. Qed.

Lemma c13_parse_re2_tree_wf : forall root path prefix names sm root',
  wf_json root = true -> parse_re2_do root path prefix names sm = Ok root' -> wf_json root' = true.
Proof. exact parse_re2_tree_wf. Qed.

(* ---- json_extract ----------------------------------------------------------------------------- *)
Lemma c13_json_extract_total : forall fmt_num prefix root path doc efs ef dup p,
  extract_tree efs ef dup <> Panic p /\
  forall fields, json_extract_do fmt_num prefix root path doc fields <> Panic p.
Proof. intros. split; [apply extract_tree_total|intros; apply json_extract_do_total]. Qed.

Lemma c13_json_extract_tree_wf : forall fmt_num prefix root path doc fields root',
  (forall r, json_number_ok (fmt_num r) = true) ->
  wf_json root = true -> wf_json doc = true ->
  json_extract_do fmt_num prefix root path doc fields = Ok root' -> wf_json root' = true.
Proof. exact json_extract_do_tree_wf. Qed.

(* ---- hash ------------------------------------------------------------------------------------- *)
Lemma c13_hash_normalizer_total : forall has data p, normalize_by_tokenizer has data <> Panic p.
Proof. exact normalize_total. Qed.

Lemma c13_hash_total : forall hash_of root fields rpath p, hash_do hash_of root fields rpath <> Panic p.
Proof. exact hash_do_total. Qed.

Lemma c13_hash_tree_wf : forall hash_of root fields rpath root',
  (forall n d, 0 <= hash_of n d < 2 ^ 64) ->
  wf_json root = true -> hash_do hash_of root fields rpath = Ok root' -> wf_json root' = true.
Proof. exact hash_do_tree_wf. Qed.

(* ---- convert_utf8_bytes ----------------------------------------------------------------------- *)
Lemma c13_convert_utf8_bytes_scanner_total : forall is_graphic replace s p, convert is_graphic replace s <> Panic p.
Proof. exact convert_total. Qed.

Lemma c13_convert_utf8_bytes_total : forall is_graphic replace paths root p,
  convert_do is_graphic replace root paths <> Panic p.
Proof. exact convert_do_total. Qed.

Lemma c13_convert_utf8_bytes_tree_wf : forall is_graphic replace paths root root',
  wf_json root = true -> convert_do is_graphic replace root paths = Ok root' -> wf_json root' = true.
Proof. exact convert_do_tree_wf. Qed.

(* ---- split ------------------------------------------------------------------------------------ *)
Lemma c13_split_total : forall is_child root path p, split_do is_child root path <> Panic p.
Proof. exact split_total. Qed.

Lemma c13_split_tree_wf : forall is_child root path r children,
  wf_json root = true -> split_do is_child root path = Ok (r, children) ->
  (r = 0 \/ r = 4) /\ forallb (fun j => is_obj j && wf_json j) children = true.
Proof. exact split_tree_wf. Qed.

(* ---- the tree operations every model above is built from --------------------------------------- *)
Lemma c13_tree_ops_wf : forall root path leaf v,
  wf_json root = true -> wf_json leaf = true ->
  wf_json (jremove root path) = true /\
  wf_json (create_nested root path leaf) = true /\
  (jdig root path = Some v -> wf_json v = true).
Proof.
  intros root path leaf v H Hl. split; [apply jremove_wf, H|]. split; [apply create_nested_wf; assumption|].
  intros E. exact (jdig_wf path root v H E).
Qed.

Lemma c13_format_uint_number : forall n, 0 <= n < 2 ^ 64 -> json_number_ok (format_uint n) = true.
Proof. exact format_uint_number. Qed.

(* ---- the generic layer's predicate: the runner answers Agree exactly on the observation (1) ----- *)
Lemma c13_generic_predicate : forall which plugins events obs,
  0 <= which < 30 ->
  (c13_actions_entry which (SL [SL plugins; SL events]) obs = Agree <-> obs = SL [SZ 1]).
Proof.
  intros which plugins events obs Hw. unfold c13_actions_entry.
  replace ((0 <=? which) && (which <? 30)) with true by lia.
  unfold generic_run, exact_verdict. split.
  - destruct (sx_eqb (SL [SZ 1]) obs) eqn:E; [|discriminate]. intros _.
    destruct obs as [z|b|l]; try discriminate E.
    destruct l as [|x l]; [discriminate E|].
    change (sx_eqb (SZ 1) x && sx_eqb (SL []) (SL l) = true) in E.
    apply andb_prop in E. destruct E as [E1 E2].
    destruct x as [z| |]; try discriminate E1. change ((1 =? z) = true) in E1. apply Z.eqb_eq in E1.
    destruct l; [|discriminate E2]. subst. reflexivity.
  - intros ->. reflexivity.
Qed.
