(* cfg/substitution filters: no filter application can panic on any field value, for every
   configuration the filter parsers accept; functional specifications of cut. *)
From Verif Require Import Base.Sx Base.GoSem Model.Decoders.Common Proofs.Decoders.Common Model.Actions.Subst.
From Coq Require Import Lia ZifyBool.

(* ---- cut -------------------------------------------------------------------------------------- *)
Theorem cut_total : forall first count src p, 0 <= count -> cut_apply first count src <> Panic p.
Proof.
  intros first count src p Hc. unfold cut_apply.
  destruct (len src <? count) eqn:E; [discriminate|].
  destruct first; unfold slice_to, slice_from.
  - step_slice r. discriminate.
  - step_slice r. discriminate.
Qed.

Theorem cut_first_spec : forall count src, 0 <= count <= len src ->
  cut_apply true count src = Ok (firstn (Z.to_nat count) src).
Proof.
  intros count src H. unfold cut_apply. replace (len src <? count) with false by lia.
  unfold slice_to. rewrite slice_ok by lia. cbn [Z.to_nat skipn]. f_equal. f_equal. lia.
Qed.

Theorem cut_last_spec : forall count src, 0 <= count <= len src ->
  cut_apply false count src = Ok (skipn (Z.to_nat (len src - count)) src).
Proof.
  intros count src H. unfold cut_apply. replace (len src <? count) with false by lia.
  unfold slice_from. rewrite slice_ok by lia. f_equal.
  apply firstn_all2. rewrite skipn_length. unfold len in *. lia.
Qed.

Theorem cut_short_spec : forall first count src, len src < count -> cut_apply first count src = Ok src.
Proof. intros. unfold cut_apply. replace (len src <? count) with true by lia. reflexivity. Qed.

(* ---- bytes.Index / bytes.LastIndex ranges --------------------------------------------------------- *)
Lemma has_prefix_len l n : has_prefix l n = true -> len n <= len l.
Proof.
  revert l. induction n as [|a n IH]; intros l H.
  - change (len (@nil byte)) with 0. apply len_nonneg.
  - destruct l as [|b l]; [discriminate|]. cbn [has_prefix] in H.
    apply andb_prop in H. destruct H as [_ H]. apply IH in H. rewrite !len_cons. lia.
Qed.

Lemma index_sub_from_bounds needle : forall l i,
  index_sub_from l needle i = -1 \/ (i <= index_sub_from l needle i /\ index_sub_from l needle i - i + len needle <= len l).
Proof.
  induction l as [|x l IH]; intros i.
  - cbn [index_sub_from]. destruct (has_prefix [] needle) eqn:E; [|left; reflexivity].
    right. apply has_prefix_len in E. lia.
  - cbn [index_sub_from]. destruct (has_prefix (x :: l) needle) eqn:E.
    + right. apply has_prefix_len in E. lia.
    + destruct (IH (i + 1)) as [->|[H1 H2]]; [left; reflexivity|right]. rewrite len_cons. lia.
Qed.

Lemma index_sub_bounds l needle : index_sub l needle = -1 \/ (0 <= index_sub l needle <= len l).
Proof.
  unfold index_sub. destruct (index_sub_from_bounds needle l 0) as [->|[H1 H2]]; [left; reflexivity|right].
  pose proof (len_nonneg needle). lia.
Qed.

Lemma last_index_sub_from_bounds needle : forall l i best,
  (best = -1 \/ (0 <= best /\ best + len needle <= i + len l /\ best <= i + len l)) -> 0 <= i ->
  let r := last_index_sub_from l needle i best in
  r = -1 \/ (0 <= r /\ r + len needle <= i + len l).
Proof.
  induction l as [|x l IH]; intros i best Hb Hi; cbn [last_index_sub_from].
  - destruct (has_prefix [] needle) eqn:E.
    + right. apply has_prefix_len in E. change (len (@nil byte)) with 0 in *. lia.
    + destruct Hb as [->|Hb]; [left; reflexivity|right; lia].
  - rewrite len_cons. specialize (IH (i + 1) (if has_prefix (x :: l) needle then i else best)).
    replace (i + (len l + 1)) with (i + 1 + len l) by lia. apply IH; [|lia].
    destruct (has_prefix (x :: l) needle) eqn:E.
    + right. apply has_prefix_len in E. rewrite len_cons in E. pose proof (len_nonneg needle). lia.
    + destruct Hb as [->|Hb]; [left; reflexivity|right]. rewrite len_cons in Hb. lia.
Qed.

Lemma last_index_sub_bounds l needle :
  last_index_sub l needle = -1 \/ (0 <= last_index_sub l needle /\ last_index_sub l needle + len needle <= len l).
Proof.
  unfold last_index_sub. pose proof (last_index_sub_from_bounds needle l 0 (-1)) as H.
  cbn zeta in H. replace (0 + len l) with (len l) in H by lia. apply H; [left; reflexivity|lia].
Qed.

(* ---- trim_to ---------------------------------------------------------------------------------- *)
Theorem trim_to_total : forall mode cutset src p, cutset <> [] -> trim_to_apply mode cutset src <> Panic p.
Proof.
  intros mode cutset src p Hne. unfold trim_to_apply.
  assert (Hl : 1 <= len cutset).
  { destruct cutset; [contradiction|]. rewrite len_cons. pose proof (len_nonneg cutset). lia. }
  assert (Hsecond : forall s1, (if (mode =? 0) || (mode =? 2)
            then let i := last_index_sub s1 cutset in if i =? -1 then Ok s1 else slice_to s1 (i + 1)
            else Ok s1) <> Panic p).
  { intros s1. destruct ((mode =? 0) || (mode =? 2)); [|discriminate]. cbn zeta.
    destruct (last_index_sub_bounds s1 cutset) as [->|[H1 H2]]; [cbn; discriminate|].
    destruct (last_index_sub s1 cutset =? -1); [discriminate|].
    unfold slice_to. step_slice r. discriminate. }
  destruct ((mode =? 0) || (mode =? 1)).
  - cbn zeta. destruct (index_sub_bounds src cutset) as [->|H1].
    + cbn [Z.eqb bind]. apply Hsecond.
    + destruct (index_sub src cutset =? -1); cbn [bind]; [apply Hsecond|].
      unfold slice_from. step_slice r. apply Hsecond.
  - cbn [bind]. apply Hsecond.
Qed.

(* ---- re --------------------------------------------------------------------------------------- *)
Lemma pairs_ok_idx srclen : forall index k,
  pairs_ok srclen index = true -> 0 <= k -> 2 * k + 1 < len index ->
  exists s e, idx index (2 * k) = Ok s /\ idx index (2 * k + 1) = Ok e /\
              ((s = -1 /\ e = -1) \/ (0 <= s <= e /\ e <= srclen)).
Proof.
  fix IH 1. intros index k H Hk Hl.
  destruct index as [|s [|e r]]; cbn [pairs_ok] in H; try discriminate.
  - change (len (@nil Z)) with 0 in Hl. lia.
  - apply andb_prop in H. destruct H as [H1 H2].
    destruct (Z.eq_dec k 0) as [->|Hn].
    + exists s, e. cbn [Z.mul Z.add]. rewrite idx_cons_0.
      rewrite idx_cons_S by lia. cbn [Z.sub]. rewrite idx_cons_0. repeat split; try reflexivity. lia.
    + rewrite !len_cons in Hl.
      destruct (IH r (k - 1) H2) as (s' & e' & E1 & E2 & E3); [lia|lia|].
      exists s', e'. rewrite idx_cons_S by lia. rewrite idx_cons_S by lia.
      rewrite idx_cons_S by lia. rewrite idx_cons_S by lia.
      replace (2 * k - 1 - 1) with (2 * (k - 1)) by lia.
      replace (2 * k + 1 - 1 - 1) with (2 * (k - 1) + 1) by lia. auto.
Qed.

Lemma re_groups_total src sep nsub index : index_ok nsub (len src) index = true ->
  forall groups acc ne p, groups_ok nsub groups = true ->
  re_groups src sep index groups acc ne <> Panic p.
Proof.
  intros Hi. unfold index_ok in Hi. apply andb_prop in Hi. destruct Hi as [Hlen Hp].
  induction groups as [|g gs IH]; intros acc ne p Hg; cbn [re_groups]; [discriminate|].
  cbn [groups_ok forallb] in Hg. apply andb_prop in Hg. destruct Hg as [Hg Hgs].
  destruct (pairs_ok_idx (len src) index g Hp) as (s & e & E1 & E2 & E3); [lia|lia|].
  replace (g * 2) with (2 * g) by lia. rewrite E1. cbn [bind]. rewrite E2. cbn [bind].
  destruct ((s =? -1) || (e =? -1)) eqn:Em; [apply IH, Hgs|].
  destruct E3 as [E3|E3]; [lia|].
  step_slice chunk. apply IH, Hgs.
Qed.

Lemma re_groups_not_err src sep index : forall groups acc ne e,
  re_groups src sep index groups acc ne <> Err e.
Proof.
  induction groups as [|g gs IH]; intros acc ne e; cbn [re_groups]; [discriminate|].
  destruct (idx index (g * 2)) as [s| |] eqn:E1; cbn [bind]; [|exfalso; eapply idx_not_err; eauto|discriminate].
  destruct (idx index (g * 2 + 1)) as [en| |] eqn:E2; cbn [bind]; [|exfalso; eapply idx_not_err; eauto|discriminate].
  destruct ((s =? -1) || (en =? -1)); [apply IH|].
  destruct (slice src s en) as [c| |] eqn:E3; cbn [bind]; [apply IH|exfalso; eapply slice_not_err; eauto|discriminate].
Qed.

Lemma re_matches_total src sep nsub groups : groups_ok nsub groups = true ->
  forall indexes acc ne p, forallb (index_ok nsub (len src)) indexes = true ->
  re_matches src sep indexes groups acc ne <> Panic p.
Proof.
  intros Hg. induction indexes as [|index rest IH]; intros acc ne p Hi; cbn [re_matches]; [discriminate|].
  cbn [forallb] in Hi. apply andb_prop in Hi. destruct Hi as [Hi Hr].
  destruct (re_groups src sep index groups acc ne) as [[acc1 ne1]| |q] eqn:E; cbn [bind].
  - apply IH, Hr.
  - discriminate.
  - exfalso. eapply re_groups_total; eauto.
Qed.

(* for every answer of the regexp library that has the documented shape (one start/end pair per
   sub-expression, each -1/-1 or a range inside src) and every group list the parser accepted *)
Theorem re_total : forall nsub groups sep emp indexes src dst p,
  groups_ok nsub groups = true -> forallb (index_ok nsub (len src)) indexes = true ->
  re_apply groups sep emp indexes src dst <> Panic p.
Proof.
  intros nsub groups sep emp indexes src dst p Hg Hi. unfold re_apply.
  destruct groups as [|g gs]; [discriminate|].
  destruct indexes as [|i is]; [destruct emp; discriminate|].
  destruct (re_matches src sep (i :: is) (g :: gs) [] false) as [[acc ne]| |q] eqn:E; cbn [bind]; try discriminate.
  exfalso. eapply re_matches_total; eauto.
Qed.
