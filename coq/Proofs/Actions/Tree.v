(* The tree operations of Model/Actions/Tree.v keep an event well formed (wf_json: every number
   node carries a JSON number), and strconv.FormatUint yields a JSON number. *)
From Verif Require Import Base.Sx Base.GoSem Base.Json Model.Decoders.Common Proofs.Decoders.Common Model.Actions.Tree.
From Coq Require Import Lia ZifyBool.

Definition wf_fields (fs : list (bytes * json)) : bool := forallb (fun kv => wf_json (snd kv)) fs.

Lemma wf_obj fs : wf_json (JObj fs) = wf_fields fs.
Proof. reflexivity. Qed.
Lemma wf_arr l : wf_json (JArr l) = forallb wf_json l.
Proof. reflexivity. Qed.

(* ---- forallb over the list surgery of Base/Json.v -------------------------------------------- *)
Section Lists.
Context {A : Type} (f : A -> bool).

Lemma forallb_nth l : forall n x, forallb f l = true -> nth_error l n = Some x -> f x = true.
Proof.
  induction l as [|y l IH]; intros [|n] x H E; cbn in *; try discriminate.
  - injection E as <-. apply andb_prop in H. tauto.
  - apply andb_prop in H. eapply IH; [apply H|exact E].
Qed.

Lemma forallb_set_at l : forall i y, forallb f l = true -> f y = true -> forallb f (set_at l i y) = true.
Proof.
  induction l as [|x l IH]; intros [|i] y H Hy; cbn in *; try reflexivity.
  - apply andb_prop in H. rewrite Hy. tauto.
  - apply andb_prop in H. destruct H as [-> H]. cbn. apply IH; assumption.
Qed.

Lemma forallb_remove_at l : forall i, forallb f l = true -> forallb f (remove_at l i) = true.
Proof.
  induction l as [|x l IH]; intros [|i] H; cbn in *; try reflexivity.
  - apply andb_prop in H. tauto.
  - apply andb_prop in H. destruct H as [-> H]. cbn. apply IH; assumption.
Qed.

Lemma forallb_firstn l : forall n, forallb f l = true -> forallb f (firstn n l) = true.
Proof.
  induction l as [|x l IH]; intros [|n] H; cbn in *; try reflexivity.
  apply andb_prop in H. destruct H as [-> H]. cbn. apply IH; assumption.
Qed.

Lemma forallb_skipn l : forall n, forallb f l = true -> forallb f (skipn n l) = true.
Proof.
  induction l as [|x l IH]; intros [|n] H; cbn in *; try reflexivity; try assumption.
  apply andb_prop in H. apply IH; tauto.
Qed.

Lemma forallb_removelast l : forallb f l = true -> forallb f (removelast l) = true.
Proof.
  induction l as [|x l IH]; intros H; [reflexivity|]. cbn [removelast]. destruct l as [|y l]; [reflexivity|].
  cbn [forallb] in *. apply andb_prop in H. destruct H as [-> H]. cbn. apply IH. exact H.
Qed.

Lemma forallb_swap_remove l i : forallb f l = true -> forallb f (swap_remove l i) = true.
Proof.
  intros H. unfold swap_remove. destruct (nth_error l i); [|exact H].
  destruct (Nat.eqb i (length l - 1)); [apply forallb_removelast, H|].
  destruct (nth_error l (length l - 1)) as [lastx|] eqn:E; [|exact H].
  rewrite forallb_app. rewrite forallb_firstn by exact H. cbn [andb forallb].
  rewrite (forallb_nth l _ _ H E). cbn [andb].
  apply forallb_skipn, forallb_removelast, H.
Qed.
End Lists.

Lemma field_get_wf fs k v : wf_fields fs = true -> field_get fs k = Some v -> wf_json v = true.
Proof.
  induction fs as [|[k' v'] fs IH]; intros H E; cbn in *; [discriminate|].
  apply andb_prop in H. destruct (key_eqb k' k); [injection E as <-; tauto|apply IH; tauto].
Qed.

Lemma set_field_wf fs k v : wf_fields fs = true -> wf_json v = true -> wf_fields (set_field fs k v) = true.
Proof.
  intros H Hv. unfold set_field, wf_fields in *. destruct (field_index fs k 0).
  - apply forallb_set_at; assumption.
  - rewrite forallb_app, H. cbn. rewrite Hv. reflexivity.
Qed.

(* ---- Dig / update / Suicide / CreateNestedField / MergeToRoot -------------------------------- *)
Lemma jdig_wf : forall path j v, wf_json j = true -> jdig j path = Some v -> wf_json v = true.
Proof.
  induction path as [|k rest IH]; intros j v H E; cbn [jdig] in E; [injection E as <-; exact H|].
  destruct j as [| | | |l|fs]; try discriminate.
  - destruct (atoi_signed k) as [i|]; [|discriminate].
    destruct ((0 <=? i) && (i <? len l)); [|discriminate].
    destruct (nth_error l (Z.to_nat i)) as [x|] eqn:En; [|discriminate].
    apply (IH x); [|exact E]. rewrite wf_arr in H. eapply forallb_nth; eauto.
  - destruct (field_get fs k) as [x|] eqn:Eg; [|discriminate].
    apply (IH x); [|exact E]. eapply field_get_wf; eauto.
Qed.

Lemma jupdate_wf (f : json -> json) : (forall v, wf_json v = true -> wf_json (f v) = true) ->
  forall path j, wf_json j = true -> wf_json (jupdate j path f) = true.
Proof.
  intros Hf. induction path as [|k rest IH]; intros j H; cbn [jupdate]; [apply Hf, H|].
  destruct j as [| | | |l|fs]; try exact H.
  - destruct (atoi_signed k) as [i|]; [|exact H].
    destruct ((0 <=? i) && (i <? len l)); [|exact H].
    destruct (nth_error l (Z.to_nat i)) as [x|] eqn:En; [|exact H].
    rewrite wf_arr in *. apply forallb_set_at; [exact H|]. apply IH. eapply forallb_nth; eauto.
  - destruct (field_index fs k 0) as [i|]; [|exact H].
    destruct (nth_error fs i) as [[k' v]|] eqn:En; [|exact H].
    rewrite wf_obj in *. unfold wf_fields in *. apply forallb_set_at; [exact H|]. cbn [snd].
    apply IH. apply (forallb_nth (fun kv => wf_json (snd kv)) fs i (k', v) H En).
Qed.

Lemma jremove_wf : forall path j, wf_json j = true -> wf_json (jremove j path) = true.
Proof.
  induction path as [|k rest IH]; intros j H; [exact H|].
  destruct rest as [|k2 rest].
  - cbn [jremove]. destruct j as [| | | |l|fs]; try exact H.
    + destruct (atoi_signed k) as [i|]; [|exact H].
      destruct ((0 <=? i) && (i <? len l)); [|exact H]. rewrite wf_arr in *. apply forallb_remove_at, H.
    + destruct (field_index fs k 0); [|exact H]. rewrite wf_obj in *. apply forallb_swap_remove, H.
  - change (jremove j (k :: k2 :: rest))
      with (match jdig j [k] with Some _ => jupdate j [k] (fun v => jremove v (k2 :: rest)) | None => j end).
    destruct (jdig j [k]); [|exact H]. apply jupdate_wf; [|exact H]. intros v Hv. apply IH, Hv.
Qed.

Lemma create_nested_wf leaf : wf_json leaf = true ->
  forall path j, wf_json j = true -> wf_json (create_nested j path leaf) = true.
Proof.
  intros Hl. induction path as [|k rest IH]; intros j H; cbn [create_nested]; [exact Hl|].
  destruct j as [| | | | |fs]; try exact H.
  rewrite wf_obj in *. apply set_field_wf; [exact H|]. apply IH.
  destruct (field_get fs k) as [[| | | | |s]|] eqn:Eg; try reflexivity.
  eapply field_get_wf; eauto.
Qed.

Lemma merge_to_root_wf src : wf_fields src = true ->
  forall root, wf_json root = true -> wf_json (merge_to_root root src) = true.
Proof.
  intros Hs root H. unfold merge_to_root. destruct root as [| | | | |fs]; try exact H.
  rewrite wf_obj in *. revert fs H. induction src as [|[k v] src IH]; intros fs H; cbn [fold_left]; [exact H|].
  cbn in Hs. apply andb_prop in Hs. apply IH; [tauto|]. cbn [fst snd]. apply set_field_wf; tauto.
Qed.

(* ---- strconv.FormatUint writes a JSON number -------------------------------------------------- *)
Lemma skip_digits_all l : forallb is_digit l = true -> skip_digits l = [].
Proof.
  induction l as [|c l IH]; intros H; [reflexivity|]. cbn in *. apply andb_prop in H. destruct H as [-> H]. apply IH, H.
Qed.

Lemma dec_digits_digits : forall fuel n acc, 0 <= n -> forallb is_digit acc = true ->
  forallb is_digit (dec_digits fuel n acc) = true.
Proof.
  induction fuel as [|f IH]; intros n acc Hn Ha; cbn [dec_digits]; [exact Ha|].
  destruct (n <? 10) eqn:E.
  - cbn [forallb]. rewrite Ha. unfold is_digit. rewrite andb_true_r. lia.
  - apply IH; [apply Z.div_pos; lia|]. cbn [forallb]. rewrite Ha. unfold is_digit. rewrite andb_true_r.
    pose proof (Z.mod_pos_bound n 10). lia.
Qed.

Lemma dec_digits_pos : forall fuel n acc, 0 < n < 10 ^ Z.of_nat fuel -> forallb is_digit acc = true ->
  exists c r, dec_digits fuel n acc = c :: r /\ is_digit19 c = true /\ forallb is_digit r = true.
Proof.
  induction fuel as [|f IH]; intros n acc Hn Ha.
  - cbn in Hn. lia.
  - cbn [dec_digits]. destruct (n <? 10) eqn:E.
    + exists (Z.to_N (48 + n)), acc. split; [reflexivity|]. split; [unfold is_digit19; lia|exact Ha].
    + apply IH.
      * rewrite Nat2Z.inj_succ, Z.pow_succ_r in Hn by lia. split; [apply Z.div_str_pos; lia|].
        apply Z.div_lt_upper_bound; lia.
      * cbn [forallb]. rewrite Ha. unfold is_digit. rewrite andb_true_r.
        pose proof (Z.mod_pos_bound n 10). lia.
Qed.

Theorem format_uint_number : forall n, 0 <= n < 2 ^ 64 -> json_number_ok (format_uint n) = true.
Proof.
  intros n Hn. unfold format_uint. destruct (Z.eq_dec n 0) as [->|Hz]; [reflexivity|].
  destruct (dec_digits_pos 64 n []) as (c & r & E & Hc & Hr); [|reflexivity|].
  { split; [lia|]. assert (2 ^ 64 < 10 ^ Z.of_nat 64) by (vm_compute; reflexivity). lia. }
  rewrite E. unfold json_number_ok.
  assert (H45 : beq c 45%N = false) by (unfold beq, is_digit19 in *; lia).
  assert (H48 : beq c 48%N = false) by (unfold beq, is_digit19 in *; lia).
  rewrite H45, H48, Hc. rewrite (skip_digits_all r Hr). reflexivity.
Qed.
