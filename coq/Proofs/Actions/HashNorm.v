(* hash normaliser, bracket / quote tokenizer: every data[i] and data[a:b] of nextToken,
   processQuotes and normalizeByTokenizer is in range and no loop runs out of fuel, for every
   byte string and every pattern set. *)
From Verif Require Import Base.Sx Base.GoSem Model.Decoders.Common Proofs.Decoders.Common
  Model.Actions.ConvertUtf8 Model.Actions.HashNorm Proofs.Actions.ConvertUtf8.
From Coq Require Import Lia ZifyBool.

Section Total.
Variable has : Z -> bool.
Variable data : bytes.

Definition kind_p (k : kind) : Z := match k with KOpen p | KClose p | KQuote p => p | KOther => 1 end.

Lemma classify_pattern c : 1 <= kind_p (classify has c) <= 6.
Proof.
  unfold classify.
  repeat match goal with |- context [if ?b then _ else _] => destruct b end; cbn [kind_p]; lia.
Qed.

(* the run of equal quotes: n grows by the number of positions consumed, which all lie inside data *)
Lemma run_len_ok : forall fuel c i n,
  0 <= i -> Z.max 0 (len data - i) < Z.of_nat fuel ->
  exists k, run_len data fuel c i n = Ok k /\ n <= k /\ (k = n \/ i + (k - n) <= len data).
Proof.
  induction fuel as [|f IH]; intros c i n Hi Hf; [lia|].
  cbn [run_len]. destruct (i <? len data) eqn:E.
  - step_idx x. destruct (beq x c).
    + destruct (IH c (i + 1) (n + 1)) as (k & Ek & H1 & H2); [lia|lia|].
      exists k. split; [exact Ek|]. split; [lia|]. right. destruct H2; lia.
    + exists n. split; [reflexivity|]. split; [lia|left; reflexivity].
  - exists n. split; [reflexivity|]. split; [lia|left; reflexivity].
Qed.

Lemma quote_run_ok c from : 0 <= from ->
  exists k, quote_run data c from = Ok k /\ 0 <= k /\ (k = 0 \/ from + k <= len data).
Proof.
  intros H. unfold quote_run.
  destruct (run_len_ok (S (length data)) c from 0 H) as (k & E & H1 & H2).
  { rewrite len_length. pose proof (len_nonneg data). rewrite len_length in *. lia. }
  exists k. split; [exact E|]. split; [lia|]. destruct H2; [left|right]; lia.
Qed.

Definition token_ok (pos0 : Z) (t : option (Z * Z * Z)) : Prop :=
  match t with
  | None => True
  | Some (_, b, e) => pos0 <= b <= len data /\ pos0 < e <= len data
  end.

Lemma next_loop_ok : forall fuel i cur counter start pos0,
  0 <= pos0 <= i -> len data - i <= Z.of_nat fuel ->
  (cur = 0 \/ (pos0 <= start /\ start < i /\ start < len data /\ 1 <= counter)) ->
  exists t, next_loop has data fuel i cur counter start = Ok t /\ token_ok pos0 t.
Proof.
  induction fuel as [|f IH]; intros i cur counter start pos0 Hp Hf Hst.
  - cbn [next_loop]. replace (len data <=? i) with true by lia.
    destruct (cur =? 0) eqn:Ecur; [exists None; split; [reflexivity|exact I]|].
    exists (Some (cur, start, len data)). split; [reflexivity|]. cbn [token_ok]. lia.
  - cbn [next_loop]. destruct (len data <=? i) eqn:El.
    { destruct (cur =? 0) eqn:Ecur; [exists None; split; [reflexivity|exact I]|].
      exists (Some (cur, start, len data)). split; [reflexivity|]. cbn [token_ok]. lia. }
    step_idx c.
    pose proof (classify_pattern c) as Hk.
    (* the step that leaves the state alone *)
    assert (Hcont : exists t, next_loop has data f (i + 1) cur counter start = Ok t /\ token_ok pos0 t).
    { apply IH; [lia|lia|]. destruct Hst as [Hst|Hst]; [left; exact Hst|right; lia]. }
    destruct (classify has c) as [p|p|p|] eqn:Hc; cbn [kind_p] in Hk.
    + (* open bracket *)
      destruct (cur =? 0) eqn:Ecur.
      * apply IH; [lia|lia|right; lia].
      * destruct (cur =? p) eqn:Ep; [|exact Hcont].
        apply IH; [lia|lia|right; lia].
    + (* close bracket *)
      destruct (negb (cur =? p)) eqn:Ep; [exact Hcont|].
      destruct (0 <? counter - 1) eqn:E0.
      * apply IH; [lia|lia|right; lia].
      * exists (Some (p, start, i + 1)). split; [reflexivity|]. cbn [token_ok]. lia.
    + (* quote *)
      destruct (cur =? 0) eqn:Ecur.
      * destruct (quote_run_ok c (i + 1)) as (k & Ek & Hk0 & Hk1); [lia|].
        rewrite Ek. cbn [bind]. apply IH; [lia|destruct Hk1; lia|right; lia].
      * destruct (cur =? p) eqn:Ep; [|exact Hcont].
        assert (Hesc : exists esc, (if 0 <? i then x <- idx data (i - 1);; Ok (beq x BSL) else Ok false) = Ok esc).
        { destruct (0 <? i) eqn:Ei; [|eexists; reflexivity].
          destruct (idx_ok_ex data (i - 1)) as (x & Ex); [lia|]. rewrite Ex. cbn [bind]. eexists; reflexivity. }
        destruct Hesc as (esc & ->). cbn [bind].
        destruct esc; [exact Hcont|].
        destruct (quote_run_ok c (i + 1)) as (k & Ek & Hk0 & Hk1); [lia|].
        rewrite Ek. cbn [bind].
        destruct (0 <? counter - 1 - k) eqn:Et.
        -- apply IH; [lia|destruct Hk1; lia|right; lia].
        -- exists (Some (p, start, i + counter)). split; [reflexivity|]. cbn [token_ok].
           destruct Hk1; lia.
    + exact Hcont.
Qed.

Lemma next_token_ok pos : 0 <= pos ->
  exists t, next_token has data pos = Ok t /\ token_ok pos t.
Proof.
  intros H. unfold next_token. apply next_loop_ok; [lia| |left; reflexivity].
  rewrite len_length. lia.
Qed.

Lemma norm_loop_total : forall fuel pos acc p,
  0 <= pos <= len data -> len data - pos < Z.of_nat fuel ->
  norm_loop has data fuel pos acc <> Panic p.
Proof.
  induction fuel as [|f IH]; intros pos acc p Hp Hf; [lia|].
  cbn [norm_loop]. destruct (next_token_ok pos) as (t & Et & Ht); [lia|].
  rewrite Et. cbn [bind]. destruct t as [[[pt b] e]|]; cbn [token_ok] in Ht.
  - step_slice pre. apply IH; lia.
  - unfold slice_from. step_slice rest. discriminate.
Qed.

Theorem normalize_total : forall p, normalize_by_tokenizer has data <> Panic p.
Proof.
  intros p. unfold normalize_by_tokenizer.
  destruct (norm_loop has data (S (S (length data))) 0 []) as [acc|e|q] eqn:E; cbn [bind]; try discriminate.
  exfalso. apply (norm_loop_total (S (S (length data))) 0 [] q); [pose proof (len_nonneg data); lia| |exact E].
  rewrite len_length. lia.
Qed.
End Total.
