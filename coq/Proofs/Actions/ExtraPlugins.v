(* Do of rename, move, flatten, json_encode, json_decode, convert_log_level, set_time, add_host,
   add_file_name, convert_date, discard, debug, parse_es, cardinality (Model/Actions/ExtraPlugins.v):
     <plugin>_total   for EVERY tree and every accepted configuration the model answers Ok (no panic:
                      out-of-range index, "wrong state"; no broken event)
     <plugin>_wf      the result is a defined ActionResult and the event stays a well-formed tree
     <plugin>_spec    what changes, and that nothing else changes *)
From Verif Require Import Base.Sx Base.GoSem Base.Json Model.Decoders.Common Proofs.Decoders.Common
  Model.Actions.Tree Proofs.Actions.Tree Model.Actions.ExtraTree Proofs.Actions.ExtraTree Model.Actions.ExtraPlugins.
From Coq Require Import Lia ZifyBool Permutation.

Lemma jdig_obj_key fs k : jdig (JObj fs) [k] = field_get fs k.
Proof. cbn [jdig]. destruct (field_get fs k); reflexivity. Qed.

Lemma jremove_obj fs path : exists fs1, jremove (JObj fs) path = JObj fs1.
Proof.
  destruct path as [|k [|k2 rest]].
  - eexists. reflexivity.
  - cbn [jremove]. destruct (field_index fs k 0); eexists; reflexivity.
  - change (jremove (JObj fs) (k :: k2 :: rest))
      with (match jdig (JObj fs) [k] with Some _ => jupdate (JObj fs) [k] (fun v => jremove v (k2 :: rest)) | None => JObj fs end).
    destruct (jdig (JObj fs) [k]); [|eexists; reflexivity].
    cbn [jupdate]. destruct (field_index fs k 0) as [i|]; [|eexists; reflexivity].
    destruct (nth_error fs i) as [[k' v]|]; eexists; reflexivity.
Qed.

Lemma jremove_not_obj j path : is_object j = false -> is_object (jremove j path) = false.
Proof.
  intros H. destruct path as [|k [|k2 rest]]; [exact H| |].
  - cbn [jremove]. destruct j as [| | | |l|fs]; try exact H; try discriminate.
    destruct (atoi_signed k) as [i|]; [|reflexivity]. destruct ((0 <=? i) && (i <? len l)); reflexivity.
  - change (jremove j (k :: k2 :: rest))
      with (match jdig j [k] with Some _ => jupdate j [k] (fun v => jremove v (k2 :: rest)) | None => j end).
    destruct (jdig j [k]); [|exact H]. cbn [jupdate]. destruct j as [| | | |l|fs]; try exact H; try discriminate.
    destruct (atoi_signed k) as [i|]; [|reflexivity]. destruct ((0 <=? i) && (i <? len l)); [|reflexivity].
    destruct (nth_error l (Z.to_nat i)); reflexivity.
Qed.

(* ==== rename ======================================================================================== *)
Definition paths_nonempty (ops : list (list bytes * bytes)) : bool :=
  forallb (fun pn => match fst pn with [] => false | _ :: _ => true end) ops.

Lemma rename_step_total preserve root path name : path <> [] -> exists r, rename_step preserve root (path, name) = Ok r.
Proof.
  intros Hp. unfold rename_step. destruct (preserve && is_some (jdig root [name])); [eexists; reflexivity|].
  destruct (jdig root path); [|eexists; reflexivity]. destruct path; [contradiction|eexists; reflexivity].
Qed.

Theorem rename_total : forall preserve ops root, paths_nonempty ops = true ->
  exists r, rename_do preserve ops root = Ok (APass, r).
Proof.
  intros preserve ops. unfold rename_do. induction ops as [|[path name] rest IH]; intros root H; cbn [rename_loop bind].
  - eexists. reflexivity.
  - cbn in H. apply andb_prop in H. destruct H as [Hp H].
    destruct (rename_step_total preserve root path name) as [r1 E]; [destruct path; [discriminate|discriminate]|].
    rewrite E. cbn [bind]. apply IH, H.
Qed.

(* the model function on an empty path and an object root: Err (the root tied into itself) *)
Theorem rename_empty_path_refuted : exists preserve ops root, rename_do preserve ops root = Err 1.
Proof. exists true, [([], [120%N])], (JObj [([97%N], JNum [49%N])]). vm_compute. reflexivity. Qed.

(* Start (after fix 4232b91): a key that is empty after the unescaping is no operation, so every
   operation of an accepted configuration has a non-empty path (cfg.ParseFieldSelector of a non-empty
   selector is a non-empty path: hypothesis on the oracle, checked by the harness on every case) *)
Lemma unescape_map_in cfg k' v :
  In (k', v) (unescape_map cfg) <-> exists k, In (k, v) cfg /\ k' = unescape_key k /\ k' <> [].
Proof.
  induction cfg as [|[k0 v0] r IH]; cbn [unescape_map].
  - split; [contradiction|]. intros (k & [] & _).
  - destruct (unescape_key k0) as [|c u] eqn:E.
    + rewrite IH. split.
      * intros (k & Hi & He & Hn). exists k. split; [right; exact Hi|]. split; assumption.
      * intros (k & [Hi|Hi] & He & Hn).
        -- injection Hi as Hk Hv. subst k v k'. rewrite E in Hn. contradiction.
        -- exists k. repeat split; assumption.
    + cbn [In]. rewrite IH. split.
      * intros [Hh|(k & Hi & He & Hn)].
        -- injection Hh as <- <-. exists k0. split; [left; reflexivity|]. split; [symmetry; exact E|discriminate].
        -- exists k. split; [right; exact Hi|]. split; assumption.
      * intros (k & [Hi|Hi] & He & Hn).
        -- injection Hi as Hk Hv. subst k v k'. left. rewrite E. reflexivity.
        -- right. exists k. repeat split; assumption.
Qed.

Theorem rename_cfg_paths_nonempty sel cfg : (forall k, k <> [] -> sel k <> []) ->
  paths_nonempty (rename_ops sel cfg) = true.
Proof.
  intros Hs. unfold paths_nonempty, rename_ops. apply forallb_forall. intros [path name] Hi.
  apply in_map_iff in Hi. destruct Hi as ([k' v] & E & Hi). cbn [fst snd] in E. injection E as <- <-.
  apply unescape_map_in in Hi. destruct Hi as (k & _ & _ & Hn). cbn [fst].
  specialize (Hs k' Hn). destruct (sel k'); [contradiction|reflexivity].
Qed.

Theorem rename_cfg_total sel : (forall k, k <> [] -> sel k <> []) -> forall preserve cfg root,
  exists r, rename_cfg_do sel preserve cfg root = Ok (APass, r).
Proof. intros Hs preserve cfg root. apply rename_total, rename_cfg_paths_nonempty, Hs. Qed.

Lemma rename_step_wf preserve root pn r : wf_json root = true -> rename_step preserve root pn = Ok r -> wf_json r = true.
Proof.
  destruct pn as [path name]. intros H E. unfold rename_step in E.
  destruct (preserve && is_some (jdig root [name])); [injection E as <-; exact H|].
  destruct (jdig root path) as [v|] eqn:Ed; [|injection E as <-; exact H].
  pose proof (jremove_wf path root H) as Hr. pose proof (jdig_wf _ _ _ H Ed) as Hv.
  remember (jremove root path) as rm eqn:Erm. clear Erm.
  destruct path as [|k rest].
  - destruct root; try discriminate; injection E as <-; exact H.
  - injection E as <-. apply obj_set_wf; assumption.
Qed.

Theorem rename_wf : forall preserve ops root a r, wf_json root = true ->
  rename_do preserve ops root = Ok (a, r) -> a = APass /\ wf_json r = true.
Proof.
  intros preserve ops. unfold rename_do. induction ops as [|pn rest IH]; intros root a r H E; cbn [rename_loop bind] in E.
  - injection E as <- <-. split; [reflexivity|exact H].
  - destruct (rename_step preserve root pn) as [r1| |] eqn:E1; cbn [bind] in E; try discriminate.
    eapply IH; [|exact E]. eapply rename_step_wf; eauto.
Qed.

(* one rename operation: skipped when the name is taken (override off) or the source is missing;
   otherwise the value leaves its place (Suicide) and the root's field `name` holds it; every other
   key of the root answers what it answered after the removal *)
Theorem rename_step_spec preserve root path name : path <> [] ->
  exists r, rename_step preserve root (path, name) = Ok r /\
    ((preserve = true /\ jdig root [name] <> None) \/ jdig root path = None -> r = root) /\
    (forall v, preserve = false \/ jdig root [name] = None -> jdig root path = Some v ->
       r = obj_set name v (jremove root path) /\
       (is_object root = false -> r = jremove root path) /\
       (forall fs1, jremove root path = JObj fs1 ->
          exists fs2, r = JObj fs2 /\ field_get fs2 name = Some v /\
                      forall k, k <> name -> field_get fs2 k = field_get fs1 k)).
Proof.
  intros Hp. unfold rename_step.
  destruct (preserve && is_some (jdig root [name])) eqn:Es.
  - exists root. split; [reflexivity|]. split; [reflexivity|].
    intros v Hn _. apply andb_prop in Es. destruct Es as [-> Es]. destruct Hn as [Hn|Hn]; [discriminate|].
    rewrite Hn in Es. discriminate.
  - destruct (jdig root path) as [v|] eqn:Ed.
    + destruct path as [|k rest]; [contradiction|]. eexists. split; [reflexivity|]. split.
      * intros [[-> Hn]|Hn]; [|discriminate]. destruct (jdig root [name]); [discriminate|contradiction].
      * intros v' _ Ev. injection Ev as <-. split; [reflexivity|]. split.
        -- intros Ho. pose proof (jremove_not_obj root (k :: rest) Ho) as Hr.
           destruct (jremove root (k :: rest)); try reflexivity. discriminate.
        -- intros fs1 E1. rewrite E1. cbn [obj_set]. eexists. split; [reflexivity|]. split.
           ++ apply field_get_set_field_same.
           ++ intros k' Hk. apply field_get_set_field_other. congruence.
    + exists root. split; [reflexivity|]. split; [reflexivity|]. intros v _ Ev. discriminate.
Qed.

(* a top-level rename on an object without duplicate keys: the value formerly at `from` is now at `to`,
   `from` is gone, every other field holds what it held *)
Theorem rename_top_level_spec preserve fs k name v :
  field_get fs k = Some v -> preserve = false \/ field_get fs name = None -> NoDup (map fst fs) ->
  exists fs2, rename_step preserve (JObj fs) ([k], name) = Ok (JObj fs2) /\
    field_get fs2 name = Some v /\
    (name <> k -> field_get fs2 k = None) /\
    (forall k', k' <> name -> k' <> k -> field_get fs2 k' = field_get fs k').
Proof.
  intros Hg Hn Hnd.
  destruct (rename_step_spec preserve (JObj fs) [k] name) as (r & E & _ & Hs); [discriminate|].
  destruct (Hs v) as (_ & _ & Hf).
  { rewrite jdig_obj_key. exact Hn. }
  { rewrite jdig_obj_key. exact Hg. }
  destruct (jremove_field_spec fs k v Hg) as (fs1 & E1 & _ & Hother & Hgone).
  destruct (Hf fs1 E1) as (fs2 & -> & Hname & Hrest).
  exists fs2. split; [exact E|]. split; [exact Hname|]. split.
  - intros Hk. rewrite Hrest by congruence. apply Hgone, Hnd.
  - intros k' H1 H2. rewrite Hrest by exact H1. apply Hother; assumption.
Qed.

(* without the hypothesis on duplicate keys "every other field holds what it held" fails: the
   swap-remove brings the LAST field into the hole, in front of an equally named earlier one *)
Theorem rename_other_fields_refuted : exists fs k name k',
  k' <> name /\ k' <> k /\
  exists fs2, rename_step false (JObj fs) ([k], name) = Ok (JObj fs2) /\ field_get fs2 k' <> field_get fs k'.
Proof.
  exists [([120%N], JNum [49%N]); ([107%N], JNum [50%N]); ([107%N], JNum [51%N])], [120%N], [121%N], [107%N].
  split; [discriminate|]. split; [discriminate|]. eexists. split; [vm_compute; reflexivity|]. vm_compute. discriminate.
Qed.

(* ==== move ========================================================================================== *)
Definition fields_nonempty (fields : list (list bytes)) : bool :=
  forallb (fun f => match f with [] => false | _ :: _ => true end) fields.

Lemma move_allow_step_total target st field : field <> [] -> exists st1, move_allow_step target st field = Ok st1.
Proof.
  intros Hf. destruct st as [root alive]. unfold move_allow_step.
  destruct (jdig root field); [|eexists; reflexivity].
  destruct (alive && path_eqb field target); [eexists; reflexivity|].
  destruct (idx_ok_ex field (len field - 1)) as [name ->].
  { destruct field; [contradiction|]. rewrite len_cons. pose proof (len_nonneg field). lia. }
  cbn [bind]. destruct (alive && negb (path_proper_prefix field target)); eexists; reflexivity.
Qed.

Theorem move_allow_total : forall target fields root, fields_nonempty fields = true ->
  exists r, move_allow_do target fields root = Ok (APass, r).
Proof.
  intros target fields root H. unfold move_allow_do.
  generalize (ensure_nested root target, is_object (ensure_nested root target)) as st.
  induction fields as [|f rest IH]; intros st; cbn [move_allow_loop bind].
  - eexists. reflexivity.
  - cbn in H. apply andb_prop in H. destruct H as [Hf H].
    destruct (move_allow_step_total target st f) as [st1 E]; [destruct f; discriminate|].
    rewrite E. cbn [bind]. apply IH, H.
Qed.

Lemma move_allow_step_wf target st field st1 : wf_json (fst st) = true ->
  move_allow_step target st field = Ok st1 -> wf_json (fst st1) = true.
Proof.
  destruct st as [root alive]. cbn [fst]. intros H E. unfold move_allow_step in E.
  destruct (jdig root field) as [v|] eqn:Ed; [|injection E as <-; exact H].
  destruct (alive && path_eqb field target); [injection E as <-; exact H|].
  destruct (idx field (len field - 1)) as [name| |]; cbn [bind] in E; try discriminate.
  destruct (alive && negb (path_proper_prefix field target)); injection E as <-; cbn [fst].
  - apply jupdate_wf; [|apply jremove_wf, H]. intros t Ht. apply obj_set_wf; [exact Ht|]. exact (jdig_wf _ _ _ H Ed).
  - apply jremove_wf, H.
Qed.

Theorem move_allow_wf : forall target fields root a r, wf_json root = true ->
  move_allow_do target fields root = Ok (a, r) -> a = APass /\ wf_json r = true.
Proof.
  intros target fields root a r H. unfold move_allow_do.
  assert (H0 : wf_json (fst (ensure_nested root target, is_object (ensure_nested root target))) = true)
    by (apply ensure_nested_wf, H).
  revert H0. generalize (ensure_nested root target, is_object (ensure_nested root target)) as st.
  induction fields as [|f rest IH]; intros st H0 E; cbn [move_allow_loop bind] in E.
  - injection E as <- <-. split; [reflexivity|exact H0].
  - destruct (move_allow_step target st f) as [st1| |] eqn:E1; cbn [bind] in E; try discriminate.
    eapply IH; [|exact E]. eapply move_allow_step_wf; eauto.
Qed.

(* one step of the allow loop while the target hangs in the event: a field that is not the target
   and not above it leaves its place and the target's field named by the last path element holds it *)
Theorem move_allow_step_spec target root field v :
  jdig root field = Some v -> field <> [] ->
  path_eqb field target = false -> path_proper_prefix field target = false ->
  exists name, idx field (len field - 1) = Ok name /\
    move_allow_step target (root, true) field = Ok (jupdate (jremove root field) target (obj_set name v), true) /\
    forall t, jdig (jremove root field) target = Some t ->
      jdig (jupdate (jremove root field) target (obj_set name v)) target = Some (obj_set name v t).
Proof.
  intros Hd Hf He Hp.
  destruct (idx_ok_ex field (len field - 1)) as [name En].
  { destruct field; [contradiction|]. rewrite len_cons. pose proof (len_nonneg field). lia. }
  exists name. split; [exact En|]. split.
  - unfold move_allow_step. rewrite Hd. cbn [andb]. rewrite He, En. cbn [bind]. rewrite Hp. reflexivity.
  - intros t Ht. apply jdig_jupdate_same, Ht.
Qed.

(* the target itself is never moved, a missing field is skipped, and once an ancestor of the target was
   moved (or when the root is no object) the remaining fields are only removed *)
Theorem move_allow_step_skip target root alive field :
  (jdig root field = None \/ (alive = true /\ path_eqb field target = true)) ->
  move_allow_step target (root, alive) field = Ok (root, alive).
Proof.
  intros H. unfold move_allow_step. destruct (jdig root field); [|reflexivity].
  destruct H as [H|[-> H]]; [discriminate|]. cbn [andb]. rewrite H. reflexivity.
Qed.

Theorem move_allow_step_detached target root alive field v :
  jdig root field = Some v -> field <> [] ->
  alive = false \/ (path_eqb field target = false /\ path_proper_prefix field target = true) ->
  move_allow_step target (root, alive) field = Ok (jremove root field, false).
Proof.
  intros Hd Hf H. unfold move_allow_step. rewrite Hd.
  destruct (idx_ok_ex field (len field - 1)) as [name En].
  { destruct field; [contradiction|]. rewrite len_cons. pose proof (len_nonneg field). lia. }
  destruct H as [->|[He Hp]].
  - cbn [andb]. rewrite En. reflexivity.
  - rewrite He, Hp, andb_false_r, En. cbn [bind negb]. rewrite andb_false_r. reflexivity.
Qed.

(* ---- block mode ---------------------------------------------------------------------------------- *)
Definition wf_tagged (l : list (nat * (bytes * json))) : bool := forallb (fun e => wf_json (snd (snd e))) l.

Lemma wf_tagged_combine : forall (fs : list (bytes * json)) (ids : list nat),
  wf_fields fs = true -> wf_tagged (combine ids fs) = true.
Proof.
  unfold wf_tagged, wf_fields. induction fs as [|kv fs IH]; intros [|i ids] H; cbn in *; try reflexivity.
  apply andb_prop in H. destruct H as [-> H]. cbn. apply IH, H.
Qed.

Lemma block_loop_wf blocked tid : forall visit cur tfs cur' tfs',
  wf_tagged visit = true -> wf_tagged cur = true -> wf_fields tfs = true ->
  block_loop blocked tid visit cur tfs = (cur', tfs') -> wf_tagged cur' = true /\ wf_fields tfs' = true.
Proof.
  induction visit as [|[id [k v]] rest IH]; intros cur tfs cur' tfs' Hv Hc Ht E; cbn [block_loop] in E.
  - injection E as <- <-. split; assumption.
  - cbn in Hv. apply andb_prop in Hv. destruct Hv as [Hv0 Hv].
    destruct (Nat.eqb id tid || mem_key k blocked); [eapply IH; eauto|].
    destruct (pos_of_id cur id 0) as [p|]; [|eapply IH; eauto].
    eapply IH; [exact Hv| | |exact E].
    + apply forallb_swap_remove, Hc.
    + apply set_field_wf; assumption.
Qed.

Lemma untag_wf tid tfs cur : wf_tagged cur = true -> wf_fields tfs = true -> wf_fields (untag tid tfs cur) = true.
Proof.
  unfold wf_tagged, wf_fields, untag. intros Hc Ht. induction cur as [|[id [k v]] r IH]; cbn in *; [reflexivity|].
  apply andb_prop in Hc. destruct Hc as [Hv Hc]. rewrite (IH Hc), andb_true_r.
  destruct (Nat.eqb id tid); cbn; [exact Ht|exact Hv].
Qed.

Theorem move_block_total : forall target blocked root, exists r, move_block_do target blocked root = Ok (APass, r).
Proof.
  intros. unfold move_block_do. destruct (ensure_nested root [target]) as [| | | | |fs]; try (eexists; reflexivity).
  destruct (field_index fs target 0) as [tid|]; [|eexists; reflexivity].
  destruct (block_loop _ _ _ _ _) as [cur tfs']. eexists. reflexivity.
Qed.

Theorem move_block_wf : forall target blocked root a r, wf_json root = true ->
  move_block_do target blocked root = Ok (a, r) -> a = APass /\ wf_json r = true.
Proof.
  intros target blocked root a r H E. unfold move_block_do in E.
  pose proof (ensure_nested_wf root [target] H) as He.
  destruct (ensure_nested root [target]) as [| | | | |fs]; try (injection E as <- <-; split; [reflexivity|exact He]).
  destruct (field_index fs target 0) as [tid|]; [|injection E as <- <-; split; [reflexivity|exact He]].
  rewrite wf_obj in He.
  set (tfs0 := match nth_error fs tid with Some (_, JObj s) => s | _ => [] end) in *.
  assert (Ht0 : wf_fields tfs0 = true).
  { unfold tfs0. destruct (nth_error fs tid) as [[k [| | | | |s]]|] eqn:En; try reflexivity.
    exact (forallb_nth (fun kv => wf_json (snd kv)) fs tid (k, JObj s) He En). }
  destruct (block_loop blocked tid (tagged fs) (tagged fs) tfs0) as [cur tfs'] eqn:Eb.
  injection E as <- <-. split; [reflexivity|]. rewrite wf_obj.
  destruct (block_loop_wf blocked tid _ _ _ _ _ (wf_tagged_combine fs _ He) (wf_tagged_combine fs _ He) Ht0 Eb) as [Hc Ht].
  apply untag_wf; assumption.
Qed.

(* what the loop leaves: the root keeps, in some order, exactly the fields the loop does not move (the
   target and the blocked names); the target receives every other field, in their original order *)
Definition kept (blocked : list bytes) (tid : nat) (e : nat * (bytes * json)) : bool :=
  Nat.eqb (fst e) tid || mem_key (fst (snd e)) blocked.
Definition mem_id (ids : list nat) (e : nat * (bytes * json)) : bool := existsb (Nat.eqb (fst e)) ids.
Definition receive (tfs : list (bytes * json)) (moved : list (nat * (bytes * json))) : list (bytes * json) :=
  fold_left (fun acc e => set_field acc (fst (snd e)) (snd (snd e))) moved tfs.

Lemma pos_of_id_nth id : forall cur i0 p, pos_of_id cur id i0 = Some p ->
  (i0 <= p)%nat /\ exists x, nth_error cur (p - i0) = Some (id, x).
Proof.
  induction cur as [|[id' x'] r IH]; intros i0 p H; cbn [pos_of_id] in H; [discriminate|].
  destruct (Nat.eqb id' id) eqn:E.
  - injection H as <-. apply Nat.eqb_eq in E. subst id'. split; [lia|]. exists x'. rewrite Nat.sub_diag. reflexivity.
  - apply IH in H. destruct H as (Hle & x & Hn). split; [lia|]. exists x.
    replace (p - i0)%nat with (S (p - S i0)) by lia. exact Hn.
Qed.
Lemma pos_of_id_in id x : forall cur i0, In (id, x) cur -> pos_of_id cur id i0 <> None.
Proof.
  induction cur as [|[id' x'] r IH]; intros i0 Hi; [contradiction|]. cbn [pos_of_id].
  destruct (Nat.eqb id' id) eqn:E; [discriminate|]. destruct Hi as [Hi|Hi].
  - injection Hi as -> ->. rewrite Nat.eqb_refl in E. discriminate.
  - apply IH, Hi.
Qed.
Lemma nodup_fst_unique {B} (l : list (nat * B)) id x y : NoDup (map fst l) -> In (id, x) l -> In (id, y) l -> x = y.
Proof.
  induction l as [|[i z] r IH]; intros Hn Hx Hy; [contradiction|]. cbn in Hn. inversion Hn as [|? ? Hnot Hn']; subst.
  destruct Hx as [Hx|Hx], Hy as [Hy|Hy].
  - congruence.
  - injection Hx as -> ->. exfalso. apply Hnot. apply (in_map fst) in Hy. exact Hy.
  - injection Hy as -> ->. exfalso. apply Hnot. apply (in_map fst) in Hx. exact Hx.
  - apply IH; assumption.
Qed.

Lemma filter_perm {A} (f : A -> bool) l l' : Permutation l l' -> Permutation (filter f l) (filter f l').
Proof.
  induction 1 as [|x l l' _ IH|x y l|l l' l'' _ IH1 _ IH2]; cbn.
  - constructor.
  - destruct (f x); [apply perm_skip|]; exact IH.
  - destruct (f x), (f y); try apply Permutation_refl. apply perm_swap.
  - eapply Permutation_trans; eauto.
Qed.
Lemma filter_all {A} (f : A -> bool) l : (forall x, In x l -> f x = true) -> filter f l = l.
Proof.
  induction l as [|x l IH]; intros H; cbn; [reflexivity|]. rewrite (H x (or_introl eq_refl)). f_equal.
  apply IH. intros y Hy. apply H. right. exact Hy.
Qed.

Lemma block_loop_spec blocked tid : forall visit cur tfs cur' tfs',
  NoDup (map fst cur) -> NoDup (map fst visit) -> (forall e, In e visit -> In e cur) ->
  block_loop blocked tid visit cur tfs = (cur', tfs') ->
  Permutation cur' (filter (fun e => kept blocked tid e || negb (mem_id (map fst visit) e)) cur) /\
  tfs' = receive tfs (filter (fun e => negb (kept blocked tid e)) visit).
Proof.
  induction visit as [|[id [k v]] rest IH]; intros cur tfs cur' tfs' Hnc Hnv Hin E; cbn [block_loop] in E.
  - injection E as <- <-. split; [|reflexivity]. rewrite filter_all; [apply Permutation_refl|].
    intros e _. unfold mem_id. cbn. apply orb_true_r.
  - cbn [map fst] in Hnv. inversion Hnv as [|? ? Hnot Hnv']; subst.
    assert (Hhead : In (id, (k, v)) cur) by (apply Hin; left; reflexivity).
    assert (Hrest : forall e, In e rest -> In e cur) by (intros e He; apply Hin; right; exact He).
    assert (Hids : forall e, In e cur -> fst e = id -> e = (id, (k, v))).
    { intros [i x] He Hi. cbn in Hi. subst i. f_equal. exact (nodup_fst_unique cur id x (k, v) Hnc He Hhead). }
    change (Nat.eqb id tid || mem_key k blocked) with (kept blocked tid (id, (k, v))) in E.
    destruct (kept blocked tid (id, (k, v))) eqn:Ek.
    + destruct (IH cur tfs cur' tfs' Hnc Hnv' Hrest E) as [Hp Ht]. split.
      * eapply Permutation_trans; [exact Hp|]. apply Permutation_refl'. apply filter_ext_in.
        intros e He. unfold mem_id. cbn [map fst existsb].
        destruct (Nat.eqb (fst e) id) eqn:Ee; [|reflexivity].
        apply Nat.eqb_eq in Ee. rewrite (Hids e He Ee), Ek. reflexivity.
      * cbn [filter]. rewrite Ek. exact Ht.
    + destruct (pos_of_id cur id 0) as [p|] eqn:Epos.
      2:{ exfalso. eapply pos_of_id_in; eauto. }
      apply pos_of_id_nth in Epos. destruct Epos as (_ & x & Hn). rewrite Nat.sub_0_r in Hn.
      assert (x = (k, v)).
      { eapply nodup_fst_unique; [exact Hnc| |exact Hhead]. eapply nth_error_In; eauto. }
      subst x. pose proof (swap_remove_perm cur p _ Hn) as Hperm.
      assert (Hnc2 : NoDup (map fst ((id, (k, v)) :: swap_remove cur p))).
      { eapply Permutation_NoDup; [apply Permutation_map, Hperm|exact Hnc]. }
      cbn [map fst] in Hnc2. inversion Hnc2 as [|? ? Hnot2 Hnc2']; subst.
      assert (Hrest2 : forall e, In e rest -> In e (swap_remove cur p)).
      { intros e He. pose proof (Permutation_in _ Hperm (Hrest e He)) as [Heq|Hi]; [|exact Hi].
        exfalso. apply Hnot. rewrite <- Heq in He. apply (in_map fst) in He. exact He. }
      destruct (IH _ _ cur' tfs' Hnc2' Hnv' Hrest2 E) as [Hp Ht]. split.
      * eapply Permutation_trans; [exact Hp|].
        eapply Permutation_trans; [|apply filter_perm, Permutation_sym, Hperm].
        cbn [filter]. unfold mem_id at 2. cbn [map fst existsb]. rewrite Ek, Nat.eqb_refl. cbn [orb negb].
        apply Permutation_refl'. apply filter_ext_in. intros e He. unfold mem_id. cbn [map fst existsb].
        destruct (Nat.eqb (fst e) id) eqn:Ee; [|reflexivity].
        exfalso. apply Nat.eqb_eq in Ee. apply Hnot2. rewrite <- Ee. apply in_map, He.
      * cbn [filter]. rewrite Ek. cbn [negb]. exact Ht.
Qed.

Lemma tagged_ids : forall (fs : list (bytes * json)) start, map fst (combine (seq start (length fs)) fs) = seq start (length fs).
Proof.
  induction fs as [|kv fs IH]; intros start; cbn; [reflexivity|]. f_equal. apply IH.
Qed.

Theorem move_block_spec target blocked fs :
  let fs1 := set_field fs target (coerce_obj (field_get fs target)) in
  exists tid tfs cur tfs',
    field_index fs1 target 0 = Some tid /\ nth_error fs1 tid = Some (target, JObj tfs) /\
    move_block_do target blocked (JObj fs) = Ok (APass, JObj (untag tid tfs' cur)) /\
    Permutation cur (filter (kept blocked tid) (tagged fs1)) /\
    tfs' = receive tfs (filter (fun e => negb (kept blocked tid e)) (tagged fs1)).
Proof.
  intros fs1. unfold move_block_do.
  assert (Ee : ensure_nested (JObj fs) [target] = JObj fs1).
  { cbn [ensure_nested create_nested dig]. unfold fs1. f_equal. f_equal.
    destruct (field_get fs target) as [[| | | | |s]|]; reflexivity. }
  rewrite Ee.
  assert (Hg : field_get fs1 target = Some (coerce_obj (field_get fs target))) by apply field_get_set_field_same.
  destruct (field_index fs1 target 0) as [tid|] eqn:Ei.
  2:{ apply field_index_none in Ei. congruence. }
  pose proof Ei as Ei'. apply field_index_nth in Ei'. destruct Ei' as (_ & tv & Hn & Hg'). rewrite Nat.sub_0_r in Hn.
  assert (Htv : exists tfs, tv = JObj tfs).
  { rewrite Hg in Hg'. injection Hg' as <-. destruct (field_get fs target) as [[| | | | |s]|]; eexists; reflexivity. }
  destruct Htv as [tfs ->]. rewrite Hn.
  destruct (block_loop blocked tid (tagged fs1) (tagged fs1) tfs) as [cur tfs'] eqn:Eb.
  exists tid, tfs, cur, tfs'. split; [reflexivity|]. split; [exact Hn|]. split; [reflexivity|].
  assert (Hnd : NoDup (map fst (tagged fs1))) by (unfold tagged; rewrite tagged_ids; apply seq_NoDup).
  destruct (block_loop_spec blocked tid _ _ _ _ _ Hnd Hnd (fun e He => He) Eb) as [Hp Ht]. split; [|exact Ht].
  eapply Permutation_trans; [exact Hp|]. apply Permutation_refl'. apply filter_ext_in.
  intros e He. unfold mem_id. replace (existsb (Nat.eqb (fst e)) (map fst (tagged fs1))) with true; [apply orb_false_r|].
  symmetry. apply existsb_exists. exists (fst e). split; [apply in_map, He|apply Nat.eqb_refl].
Qed.

(* ==== flatten, json_decode =========================================================================== *)
Theorem flatten_total : forall path prefix root, exists r, flatten_do path prefix root = Ok (APass, r).
Proof. intros. unfold flatten_do. destruct (jdig root path) as [[| | | | |fs]|]; eexists; reflexivity. Qed.

Theorem flatten_wf : forall path prefix root a r, wf_json root = true ->
  flatten_do path prefix root = Ok (a, r) -> a = APass /\ wf_json r = true.
Proof.
  intros path prefix root a r H E. unfold flatten_do in E.
  destruct (jdig root path) as [v|] eqn:Ed; [|injection E as <- <-; split; [reflexivity|exact H]].
  pose proof (jdig_wf _ _ _ H Ed) as Hv.
  destruct v as [| | | | |fs]; injection E as <- <-; (split; [reflexivity|]); try exact H.
  apply merge_to_root_wf; [apply prefix_fields_wf, Hv|apply jremove_wf, H].
Qed.

(* the field must hold an object, else nothing happens; the object leaves its place and every key
   prefix+name of the root holds the object's (last) value for it, every other key of the root holds
   what it held after the removal *)
Theorem flatten_spec path prefix root :
  (forall fs, jdig root path <> Some (JObj fs)) -> flatten_do path prefix root = Ok (APass, root).
Proof.
  intros H. unfold flatten_do. destruct (jdig root path) as [[| | | | |fs]|]; try reflexivity. exfalso. eapply H. reflexivity.
Qed.

Theorem flatten_object_spec path prefix rfs fs :
  jdig (JObj rfs) path = Some (JObj fs) ->
  exists fs1 fs2, jremove (JObj rfs) path = JObj fs1 /\
    flatten_do path prefix (JObj rfs) = Ok (APass, JObj fs2) /\
    forall k, field_get fs2 k = match last_get (prefix_fields prefix fs) k with Some v => Some v | None => field_get fs1 k end.
Proof.
  intros Hd. destruct (jremove_obj rfs path) as [fs1 E1]. unfold flatten_do. rewrite Hd, E1.
  exists fs1. eexists. split; [reflexivity|]. split; [reflexivity|]. intros k. apply fold_set_field_get.
Qed.

Theorem flatten_not_object_root path prefix root fs :
  is_object root = false -> jdig root path = Some (JObj fs) -> flatten_do path prefix root = Ok (APass, jremove root path).
Proof.
  intros Ho Hd. unfold flatten_do. rewrite Hd. pose proof (jremove_not_obj root path Ho) as Hr.
  destruct (jremove root path); try reflexivity. discriminate.
Qed.

Theorem json_decode_total : forall path prefix doc root, exists r, json_decode_do path prefix doc root = Ok (APass, r).
Proof.
  intros. unfold json_decode_do. destruct (jdig root path); [|eexists; reflexivity].
  destruct doc as [[| | | | |fs]|]; eexists; reflexivity.
Qed.

Theorem json_decode_wf : forall path prefix doc root a r, wf_json root = true ->
  (forall d, doc = Some d -> wf_json d = true) ->
  json_decode_do path prefix doc root = Ok (a, r) -> a = APass /\ wf_json r = true.
Proof.
  intros path prefix doc root a r H Hd E. unfold json_decode_do in E.
  destruct (jdig root path) as [v|]; [|injection E as <- <-; split; [reflexivity|exact H]].
  destruct doc as [[| | | | |fs]|]; injection E as <- <-; (split; [reflexivity|]); try exact H.
  apply merge_to_root_wf; [apply prefix_fields_wf; apply (Hd (JObj fs)); reflexivity|apply jremove_wf, H].
Qed.

Theorem json_decode_spec path prefix doc root :
  jdig root path = None \/ (forall fs, doc <> Some (JObj fs)) -> json_decode_do path prefix doc root = Ok (APass, root).
Proof.
  intros H. unfold json_decode_do. destruct (jdig root path); [|reflexivity].
  destruct H as [H|H]; [discriminate|]. destruct doc as [[| | | | |fs]|]; try reflexivity. exfalso. eapply H. reflexivity.
Qed.

Theorem json_decode_object_spec path prefix rfs fs v :
  jdig (JObj rfs) path = Some v ->
  exists fs1 fs2, jremove (JObj rfs) path = JObj fs1 /\
    json_decode_do path prefix (Some (JObj fs)) (JObj rfs) = Ok (APass, JObj fs2) /\
    forall k, field_get fs2 k = match last_get (prefix_fields prefix fs) k with Some x => Some x | None => field_get fs1 k end.
Proof.
  intros Hd. destruct (jremove_obj rfs path) as [fs1 E1]. unfold json_decode_do. rewrite Hd, E1.
  exists fs1. eexists. split; [reflexivity|]. split; [reflexivity|]. intros k. apply fold_set_field_get.
Qed.

(* ==== json_encode ==================================================================================== *)
Theorem json_encode_total : forall path enc root, exists r, json_encode_do path enc root = Ok (APass, r).
Proof. intros. unfold json_encode_do. destruct (jdig root path); eexists; reflexivity. Qed.

Theorem json_encode_wf : forall path enc root a r, wf_json root = true ->
  json_encode_do path enc root = Ok (a, r) -> a = APass /\ wf_json r = true.
Proof.
  intros path enc root a r H E. unfold json_encode_do in E.
  destruct (jdig root path); injection E as <- <-; (split; [reflexivity|]); [|exact H].
  apply jupdate_wf; [reflexivity|exact H].
Qed.

Theorem json_encode_spec path enc root :
  (jdig root path = None -> json_encode_do path enc root = Ok (APass, root)) /\
  (forall v, jdig root path = Some v ->
     exists r, json_encode_do path enc root = Ok (APass, r) /\ r = jupdate root path (fun _ => JStr enc) /\
               jdig r path = Some (JStr enc)).
Proof.
  unfold json_encode_do. split.
  - intros ->. reflexivity.
  - intros v Hd. rewrite Hd. eexists. split; [reflexivity|]. split; [reflexivity|].
    apply (jdig_jupdate_same (fun _ => JStr enc)) with (v := v), Hd.
Qed.

(* ==== convert_log_level ============================================================================== *)
Lemma level_number_range s : -1 <= level_number s <= 7.
Proof.
  unfold level_number, level_table. cbn [level_lookup].
  repeat match goal with |- context [if ?b then _ else _] => destruct b end; lia.
Qed.

Theorem convert_log_level_total : forall norm path style_string default rof root,
  exists r, convert_log_level_do norm path style_string default rof root = Ok (APass, r).
Proof.
  intros. unfold convert_log_level_do.
  destruct (negb (is_some (jdig root path)) && (len default =? 0)); [eexists; reflexivity|].
  cbv zeta.
  match goal with |- context [level_number ?s] => pose proof (level_number_range s) as Hr; set (n := level_number s) in * end.
  destruct (n <? 0) eqn:En; [eexists; reflexivity|].
  destruct style_string; [|eexists; reflexivity].
  destruct (idx_ok_ex level_names n) as [name ->]; [change (len level_names) with 8; lia|].
  eexists. reflexivity.
Qed.

Lemma level_names_wf n name : idx level_names n = Ok name -> wf_json (JStr name) = true.
Proof. reflexivity. Qed.

Theorem convert_log_level_wf : forall norm path style_string default rof root a r, wf_json root = true ->
  convert_log_level_do norm path style_string default rof root = Ok (a, r) -> a = APass /\ wf_json r = true.
Proof.
  intros norm path style_string default rof root a r H E. unfold convert_log_level_do in E.
  destruct (negb (is_some (jdig root path)) && (len default =? 0)); [injection E as <- <-; split; [reflexivity|exact H]|].
  cbv zeta in E.
  set (root1 := if is_some (jdig root path) then root else create_nested root path (JStr default)) in *.
  assert (H1 : wf_json root1 = true).
  { unfold root1. destruct (is_some (jdig root path)); [exact H|]. apply create_nested_wf; [reflexivity|exact H]. }
  match type of E with context [level_number ?s] => pose proof (level_number_range s) as Hr; set (n := level_number s) in * end.
  destruct (n <? 0) eqn:En.
  - injection E as <- <-. split; [reflexivity|]. destruct rof; [apply jremove_wf, H1|exact H1].
  - destruct style_string.
    + destruct (idx level_names n) as [name| |]; cbn [bind] in E; try discriminate.
      injection E as <- <-. split; [reflexivity|]. apply jupdate_wf; [reflexivity|exact H1].
    + injection E as <- <-. split; [reflexivity|]. apply jupdate_wf; [|exact H1].
      intros _ _. cbn [wf_json]. apply format_uint_number. lia.
Qed.

(* the field exists: its text (the default level when it is empty) decides *)
Theorem convert_log_level_spec norm path style_string default rof root v :
  jdig root path = Some v ->
  let level := if (len (as_string (Some v)) =? 0) && negb (len default =? 0) then default else as_string (Some v) in
  let n := level_number (norm level) in
  (n < 0 -> convert_log_level_do norm path style_string default rof root
              = Ok (APass, if rof then jremove root path else root)) /\
  (0 <= n -> exists nv r, convert_log_level_do norm path style_string default rof root = Ok (APass, r) /\
      (if style_string then idx level_names n = Ok (as_string (Some nv)) /\ nv = JStr (as_string (Some nv))
       else nv = JNum (format_uint n)) /\
      r = jupdate root path (fun _ => nv) /\ jdig r path = Some nv).
Proof.
  intros Hd level n. unfold convert_log_level_do. rewrite Hd. cbn [is_some negb andb]. cbv zeta. rewrite !Hd.
  subst n level. set (n := level_number _). pose proof (level_number_range (norm (if (len (as_string (Some v)) =? 0) && negb (len default =? 0) then default else as_string (Some v)))) as Hr.
  fold n in Hr. split.
  - intros Hn. replace (n <? 0) with true by lia. reflexivity.
  - intros Hn. replace (n <? 0) with false by lia.
    destruct style_string.
    + destruct (idx_ok_ex level_names n) as [name En]; [change (len level_names) with 8; lia|].
      exists (JStr name). eexists. rewrite En. cbn [bind]. split; [reflexivity|]. split; [split; reflexivity|].
      split; [reflexivity|]. apply (jdig_jupdate_same (fun _ => JStr name)) with (v := v), Hd.
    + exists (JNum (format_uint n)). eexists. split; [reflexivity|]. split; [reflexivity|].
      split; [reflexivity|]. apply (jdig_jupdate_same (fun _ => JNum (format_uint n))) with (v := v), Hd.
Qed.

(* the field is missing: without a default level nothing happens *)
Theorem convert_log_level_missing norm path style_string rof root :
  jdig root path = None -> convert_log_level_do norm path style_string [] rof root = Ok (APass, root).
Proof. intros Hd. unfold convert_log_level_do. rewrite Hd. reflexivity. Qed.

(* ==== set_time, add_host, add_file_name, convert_date, discard, debug ================================ *)
Theorem set_time_total : forall field override value root, exists r, set_time_do field override value root = Ok (APass, r).
Proof. intros. unfold set_time_do. destruct (jdig root [field]); eexists; reflexivity. Qed.

Theorem set_time_wf : forall field override value root a r, wf_json root = true -> wf_json value = true ->
  set_time_do field override value root = Ok (a, r) -> a = APass /\ wf_json r = true.
Proof.
  intros field override value root a r H Hv E. unfold set_time_do in E.
  pose proof (jupdate_wf (fun _ => value) (fun _ _ => Hv) [field] root H) as Hu.
  destruct (jdig root [field]); injection E as <- <-; (split; [reflexivity|]).
  - destruct override; [exact Hu|exact H].
  - apply obj_set_wf; assumption.
Qed.

Theorem set_time_spec field override value root :
  (forall v, jdig root [field] = Some v ->
     set_time_do field override value root = Ok (APass, if override then jupdate root [field] (fun _ => value) else root) /\
     (override = true -> jdig (jupdate root [field] (fun _ => value)) [field] = Some value)) /\
  (jdig root [field] = None -> forall fs, root = JObj fs ->
     exists fs2, set_time_do field override value root = Ok (APass, JObj fs2) /\
       field_get fs2 field = Some value /\ forall k, k <> field -> field_get fs2 k = field_get fs k) /\
  (jdig root [field] = None -> is_object root = false -> set_time_do field override value root = Ok (APass, root)).
Proof.
  unfold set_time_do. split; [|split].
  - intros v Hd. rewrite Hd. split; [reflexivity|]. intros _.
    apply (jdig_jupdate_same (fun _ => value)) with (v := v), Hd.
  - intros Hd fs ->. rewrite Hd. cbn [obj_set]. eexists. split; [reflexivity|]. split.
    + apply field_get_set_field_same.
    + intros k Hk. apply field_get_set_field_other. congruence.
  - intros Hd Ho. rewrite Hd. destruct root; try reflexivity. discriminate.
Qed.

Theorem add_host_total : forall field host root, exists r, add_host_do field host root = Ok (APass, r).
Proof. intros. eexists. reflexivity. Qed.

Theorem add_host_wf : forall field host root a r, wf_json root = true ->
  add_host_do field host root = Ok (a, r) -> a = APass /\ wf_json r = true.
Proof.
  intros field host root a r H E. injection E as <- <-. split; [reflexivity|]. apply obj_set_wf; [exact H|reflexivity].
Qed.

Theorem add_host_spec field host root :
  (forall fs, root = JObj fs -> exists fs2, add_host_do field host root = Ok (APass, JObj fs2) /\
      field_get fs2 field = Some (JStr host) /\ forall k, k <> field -> field_get fs2 k = field_get fs k) /\
  (is_object root = false -> add_host_do field host root = Ok (APass, root)).
Proof.
  unfold add_host_do. split.
  - intros fs ->. cbn [obj_set]. eexists. split; [reflexivity|]. split.
    + apply field_get_set_field_same.
    + intros k Hk. apply field_get_set_field_other. congruence.
  - intros Ho. destruct root; try reflexivity. discriminate.
Qed.

Theorem add_file_name_total : forall path source root, exists r, add_file_name_do path source root = Ok (APass, r).
Proof. intros. eexists. reflexivity. Qed.

Theorem add_file_name_wf : forall path source root a r, wf_json root = true ->
  add_file_name_do path source root = Ok (a, r) -> a = APass /\ wf_json r = true.
Proof.
  intros path source root a r H E. injection E as <- <-. split; [reflexivity|].
  destruct path; [reflexivity|]. apply create_nested_wf; [reflexivity|exact H].
Qed.

(* CreateNestedField + MutateToString at the level of the root: the first key of the path holds the
   nested result, every other key of the root holds what it held *)
Theorem add_file_name_spec k rest source fs :
  exists fs2, add_file_name_do (k :: rest) source (JObj fs) = Ok (APass, JObj fs2) /\
    field_get fs2 k = Some (create_nested (coerce_obj (field_get fs k)) rest (JStr source)) /\
    forall k', k' <> k -> field_get fs2 k' = field_get fs k'.
Proof.
  unfold add_file_name_do. cbn [create_nested]. eexists. split; [reflexivity|]. split.
  - rewrite field_get_set_field_same. reflexivity.
  - intros k' Hk. apply field_get_set_field_other. congruence.
Qed.

Theorem convert_date_total : forall path rof table root, exists r, convert_date_do path rof table root = Ok (APass, r).
Proof.
  intros. unfold convert_date_do. destruct (jdig root path) as [v|]; [|eexists; reflexivity].
  destruct (if match v with JStr _ | JNum _ => true | _ => false end then first_some table else None); eexists; reflexivity.
Qed.

Lemma first_some_in {A} (l : list (option A)) x : first_some l = Some x -> In (Some x) l.
Proof.
  induction l as [|[y|] l IH]; cbn; intros H; [discriminate| |].
  - injection H as ->. left. reflexivity.
  - right. apply IH, H.
Qed.

Theorem convert_date_wf : forall path rof table root a r, wf_json root = true ->
  (forall v, In (Some v) table -> wf_json v = true) ->
  convert_date_do path rof table root = Ok (a, r) -> a = APass /\ wf_json r = true.
Proof.
  intros path rof table root a r H Ht E. unfold convert_date_do in E.
  destruct (jdig root path) as [v|]; [|injection E as <- <-; split; [reflexivity|exact H]].
  destruct (if match v with JStr _ | JNum _ => true | _ => false end then first_some table else None) as [nv|] eqn:Ef;
    injection E as <- <-; (split; [reflexivity|]).
  - apply jupdate_wf; [|exact H]. intros _ _. apply Ht.
    destruct (match v with JStr _ | JNum _ => true | _ => false end); [apply first_some_in, Ef|discriminate].
  - destruct rof; [apply jremove_wf, H|exact H].
Qed.

(* first-match selection over the source formats; strings and numbers only; remove_on_fail *)
Theorem convert_date_spec path rof table root v :
  jdig root path = Some v ->
  let valid := match v with JStr _ | JNum _ => true | _ => false end in
  (forall nv, valid = true -> first_some table = Some nv ->
     convert_date_do path rof table root = Ok (APass, jupdate root path (fun _ => nv)) /\
     jdig (jupdate root path (fun _ => nv)) path = Some nv) /\
  (valid = false \/ first_some table = None ->
     convert_date_do path rof table root = Ok (APass, if rof then jremove root path else root)).
Proof.
  intros Hd valid. unfold convert_date_do. rewrite Hd. fold valid. split.
  - intros nv -> ->. split; [reflexivity|]. apply (jdig_jupdate_same (fun _ => nv)) with (v := v), Hd.
  - intros [->| ->]; [reflexivity|]. destruct valid; reflexivity.
Qed.

Theorem first_some_spec {A} (l : list (option A)) :
  match first_some l with
  | Some x => exists a b, l = a ++ Some x :: b /\ Forall (fun o => o = None) a
  | None => Forall (fun o => o = None) l
  end.
Proof.
  induction l as [|[y|] l IH]; cbn.
  - constructor.
  - exists [], l. split; [reflexivity|constructor].
  - destruct (first_some l) as [x|].
    + destruct IH as (a & b & -> & Ha). exists (None :: a), b. split; [reflexivity|constructor; [reflexivity|exact Ha]].
    + constructor; [reflexivity|exact IH].
Qed.

Theorem discard_debug_spec root :
  discard_do root = Ok (ADiscard, root) /\ debug_do root = Ok (APass, root).
Proof. split; reflexivity. Qed.

(* ==== parse_es ======================================================================================= *)
Definition es_inv (st : es_state) : bool := negb (fst st && snd st).

Lemma parse_es_step st ev : es_inv st = true ->
  exists r st1, parse_es_do st ev = Ok (r, st1) /\ es_inv st1 = true /\ (r = APass \/ r = ACollapse \/ r = ADiscard).
Proof.
  destruct st as [p d]. unfold es_inv. cbn [fst snd]. intros H. unfold parse_es_do.
  destruct ev as [root|]; [|exists ADiscard, (p, d); repeat split; auto].
  destruct p, d; cbn [andb] in *; try discriminate.
  - exists APass, (false, false). repeat split; auto.
  - exists ACollapse, (false, false). repeat split; auto.
  - destruct (is_some (jdig root [k_delete])); [exists ACollapse, (false, false); repeat split; auto|].
    destruct (is_some (jdig root [k_update])); [exists ACollapse, (false, true); repeat split; auto|].
    destruct (is_some (jdig root [k_index])); [exists ACollapse, (true, false); repeat split; auto|].
    destruct (is_some (jdig root [k_create])); [exists ACollapse, (true, false); repeat split; auto|].
    exists ADiscard, (false, false). repeat split; auto.
Qed.

(* the "wrong state" panic is unreachable: passNext and discardNext are never set together *)
Theorem parse_es_total : forall evs st, es_inv st = true ->
  exists rs st1, parse_es_run st evs = Ok (rs, st1) /\ es_inv st1 = true /\
    length rs = length evs /\ Forall (fun r => r = APass \/ r = ACollapse \/ r = ADiscard) rs.
Proof.
  induction evs as [|e rest IH]; intros st H; cbn [parse_es_run].
  - exists [], st. repeat split; auto.
  - destruct (parse_es_step st e H) as (r & st1 & E & H1 & Hr). rewrite E. cbn [bind].
    destruct (IH st1 H1) as (rs & st2 & E2 & H2 & Hl & Hf). rewrite E2. cbn [bind].
    exists (r :: rs), st2. repeat split; auto. cbn. f_equal. exact Hl.
Qed.

(* content: a time-out is discarded and leaves the state alone; behind an index / create line exactly
   the next event passes; behind an update line the next event is collapsed; delete lines and the
   action lines themselves are collapsed; anything else is discarded *)
Theorem parse_es_spec root :
  (forall st, parse_es_do st None = Ok (ADiscard, st)) /\
  parse_es_do (true, false) (Some root) = Ok (APass, (false, false)) /\
  parse_es_do (false, true) (Some root) = Ok (ACollapse, (false, false)) /\
  parse_es_do (false, false) (Some root) =
    Ok (if is_some (jdig root [k_delete]) then (ACollapse, (false, false))
        else if is_some (jdig root [k_update]) then (ACollapse, (false, true))
        else if is_some (jdig root [k_index]) || is_some (jdig root [k_create]) then (ACollapse, (true, false))
        else (ADiscard, (false, false))).
Proof.
  split; [intros [p d]; reflexivity|]. split; [reflexivity|]. split; [reflexivity|].
  unfold parse_es_do.
  destruct (is_some (jdig root [k_delete])); [reflexivity|].
  destruct (is_some (jdig root [k_update])); [reflexivity|].
  destruct (is_some (jdig root [k_index])); [reflexivity|].
  destruct (is_some (jdig root [k_create])); reflexivity.
Qed.

(* ==== cardinality ==================================================================================== *)
Theorem card_total : forall keys fields limit action cache root,
  exists r t cache1, card_do keys fields limit action cache root = Ok (r, t, cache1) /\ (r = APass \/ r = ADiscard).
Proof.
  intros. unfold card_do. cbv zeta.
  destruct ((0 <=? limit) && (limit <=? _) && (action =? 1)); [do 3 eexists; split; [reflexivity|right; reflexivity]|].
  destruct ((0 <=? limit) && (limit <=? _) && (action =? 2)); do 3 eexists; (split; [reflexivity|left; reflexivity]).
Qed.

Theorem card_wf : forall keys fields limit action cache root r t cache1, wf_json root = true ->
  card_do keys fields limit action cache root = Ok (r, t, cache1) -> wf_json t = true.
Proof.
  intros keys fields limit action cache root r t cache1 H E. unfold card_do in E. cbv zeta in E.
  destruct ((0 <=? limit) && (limit <=? _) && (action =? 1)); [injection E as <- <- <-; exact H|].
  destruct ((0 <=? limit) && (limit <=? _) && (action =? 2)); injection E as <- <- <-; [|exact H].
  apply fold_jremove_wf, H.
Qed.

(* content: the number of remembered keys under this event's key prefix decides; below the limit (or
   with a negative limit, or action nothing) the event passes unchanged and its full key is remembered *)
Theorem card_spec keys fields limit action cache root :
  let prefix := append_to (map fst keys) (map (fun kf => as_string (jdig root (snd kf))) keys) in
  let over := (0 <=? limit) && (limit <=? count_prefix cache prefix) in
  (over = true -> action = 1 -> card_do keys fields limit action cache root = Ok (ADiscard, root, cache)) /\
  (over = true -> action = 2 -> card_do keys fields limit action cache root
       = Ok (APass, fold_left (fun r kf => jremove r (snd kf)) fields root, cache)) /\
  (over = false \/ (action <> 1 /\ action <> 2) ->
     exists cache1, card_do keys fields limit action cache root = Ok (APass, root, cache1) /\
       let full := prefix ++ append_to (map fst fields) (map (fun kf => as_string (jdig root (snd kf))) fields) in
       mem_bytes full cache1 = true /\ (mem_bytes full cache = true -> cache1 = cache) /\
       (mem_bytes full cache = false -> cache1 = full :: cache)).
Proof.
  intros prefix over. unfold card_do. cbv zeta. fold prefix. fold over. split; [|split].
  - intros -> ->. reflexivity.
  - intros -> ->. reflexivity.
  - intros H.
    assert (E1 : over && (action =? 1) = false) by (destruct H as [->|[H1 H2]]; [reflexivity|]; destruct over; cbn; lia).
    assert (E2 : over && (action =? 2) = false) by (destruct H as [->|[H1 H2]]; [reflexivity|]; destruct over; cbn; lia).
    rewrite E1, E2. eexists. split; [reflexivity|]. cbv zeta.
    destruct (mem_bytes _ cache) eqn:Em.
    + split; [exact Em|]. split; [reflexivity|discriminate].
    + split; [|split; [discriminate|reflexivity]]. cbn [mem_bytes].
      assert (Hb : forall a, bytes_eqb a a = true) by (intros a; apply N_eqb_list_eq; reflexivity).
      rewrite Hb. reflexivity.
Qed.
