(* convert_utf8_bytes: the escape scanner never indexes or slices out of range and never runs out
   of fuel, for every string, every IsGraphic and both settings of replace_non_graphic. *)
From Verif Require Import Base.Sx Base.GoSem Model.Decoders.Common Proofs.Decoders.Common Model.Actions.ConvertUtf8.
From Coq Require Import Lia ZifyBool.

Lemma len_length {A} (l : list A) : len l = Z.of_nat (length l).
Proof. reflexivity. Qed.

Lemma hex_run_ok : forall fuel s sb pos,
  0 <= pos <= len s -> len s - pos < Z.of_nat fuel ->
  exists sb' pos', hex_run fuel s sb pos = Ok (sb', pos') /\ pos <= pos' <= len s.
Proof.
  induction fuel as [|f IH]; intros s sb pos Hp Hf; [lia|].
  cbn [hex_run]. destruct (4 <=? len s - pos) eqn:E4.
  - step_slice p2. destruct (bytes_eqb p2 [BSL; 120%N]).
    + step_slice d. destruct (IH s (rev_append d sb) (pos + 4)) as (sb' & pos' & E & B); [lia|lia|].
      exists sb', pos'. split; [exact E|lia].
    + exists sb, pos. split; [reflexivity|lia].
  - exists sb, pos. split; [reflexivity|lia].
Qed.

Section Total.
Variable is_graphic : Z -> bool.
Variable replace_non_graphic : bool.

Ltac done_ok := eexists; eexists; split; [reflexivity|pose_lens; lia].

Lemma convert_switch_ok : forall s acc, s <> [] ->
  exists acc' s', convert_switch is_graphic replace_non_graphic s acc = Ok (acc', s') /\ len s' <= len s.
Proof.
  intros s acc Hne. unfold convert_switch.
  assert (Hl : 1 <= len s) by (destruct s; [contradiction|rewrite len_cons; pose_lens; lia]).
  step_idx ch. unfold slice_from, slice_to.
  destruct (beq ch BSL).
  { step_slice s1. done_ok. }
  destruct (beq ch 117%N || beq ch 85%N).
  { step_slice s1. set (size := if beq ch 85%N then 8 else 4).
    assert (Hs : size = 4 \/ size = 8) by (unfold size; destruct (beq ch 85%N); auto).
    destruct (len s1 <? size) eqn:E1; [done_ok|].
    step_slice ss. destruct (parse_hex ss) as [u0|]; [|done_ok].
    step_slice s2.
    destruct ((size =? 8) || negb (is_surrogate (to_rune _))); [done_ok|].
    destruct (len s2 <? 6) eqn:E6; [done_ok|].
    step_slice p2. destruct (negb (bytes_eqb p2 [BSL; 117%N])); [done_ok|].
    step_slice h2. destruct (parse_hex h2) as [u2|]; [|done_ok].
    step_slice s3. done_ok. }
  destruct (beq ch 120%N).
  { step_slice s1. destruct (len s1 <? 2) eqn:E2; [done_ok|].
    step_slice sb0.
    destruct (hex_run_ok (S (length s1)) s1 (rev_append sb0 []) 2) as (sb' & pos' & E & B);
      [lia|rewrite len_length; lia|].
    rewrite E. cbn [bind]. step_slice rest.
    destruct (hex_decode (rev_append sb' [])); [done_ok|].
    step_slice raw. done_ok. }
  destruct ((48 <=? ch)%N && (ch <=? 51)%N).
  { destruct (len s <? 3) eqn:E3; [done_ok|].
    step_slice o. destruct (parse_oct o); [|done_ok].
    step_slice s1. done_ok. }
  done_ok.
Qed.

Lemma convert_loop_total : forall fuel s acc p,
  len s < Z.of_nat fuel -> convert_loop is_graphic replace_non_graphic fuel s acc <> Panic p.
Proof.
  induction fuel as [|f IH]; intros s acc p Hf.
  - pose_lens. lia.
  - cbn [convert_loop]. destruct s as [|c s]; [discriminate|].
    destruct (convert_switch_ok (c :: s) acc) as (acc1 & s1 & E & L); [discriminate|].
    rewrite E. cbn [bind].
    name_index_byte i. destruct (i <? 0) eqn:Ei; [discriminate|].
    unfold slice_to, slice_from. step_slice pre. step_slice s2.
    apply IH. lia.
Qed.

Theorem convert_total : forall s p, convert is_graphic replace_non_graphic s <> Panic p.
Proof.
  intros s p. unfold convert. name_index_byte i. destruct (i <? 0) eqn:Ei; [discriminate|].
  unfold slice_to, slice_from. step_slice pre. step_slice s1.
  destruct (convert_loop is_graphic replace_non_graphic (S (length s1)) s1 [pre]) as [acc|e|q] eqn:E; cbn [bind]; try discriminate.
  exfalso. apply (convert_loop_total (S (length s1)) s1 [pre] q); [rewrite len_length; lia|exact E].
Qed.

(* a string without a backslash is left alone *)
Theorem convert_no_backslash : forall s, index_byte s BSL = -1 -> convert is_graphic replace_non_graphic s = Ok None.
Proof. intros s H. unfold convert. rewrite H. reflexivity. Qed.
End Total.
