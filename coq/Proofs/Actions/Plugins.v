(* Do of parse_re2, split, convert_utf8_bytes, hash, modify and json_extract: never a panic (the
   res monad's Panic covers out-of-range index / slice and an exhausted loop fuel), and the event
   stays well formed. *)
From Verif Require Import Base.Sx Base.GoSem Base.Json Model.Decoders.Common Proofs.Decoders.Common
  Model.Actions.Tree Model.Actions.Subst Model.Actions.ConvertUtf8 Model.Actions.HashNorm Model.Actions.Plugins
  Proofs.Actions.Tree Proofs.Actions.Subst Proofs.Actions.ConvertUtf8.
From Coq Require Import Lia ZifyBool.

Ltac bind_case E :=
  match goal with
  | |- context [bind ?r _] => destruct r eqn:E; cbn [bind]
  end.

(* ---- parse_re2 -------------------------------------------------------------------------------- *)
Lemma re2_fields_total prefix sm : forall names i p, 0 <= i -> i + len names <= len sm ->
  re2_fields prefix names sm i <> Panic p.
Proof.
  induction names as [|n rest IH]; intros i p Hi Hl; cbn [re2_fields]; [discriminate|].
  rewrite len_cons in Hl. destruct n as [|c n]; [apply IH; lia|].
  step_idx v. bind_case E; try discriminate. exfalso. eapply IH; [| |exact E]; lia.
Qed.

Lemma re2_fields_wf prefix sm : forall names i fs, re2_fields prefix names sm i = Ok fs -> wf_fields fs = true.
Proof.
  induction names as [|n rest IH]; intros i fs H; cbn [re2_fields] in H; [injection H as <-; reflexivity|].
  destruct n as [|c n]; [eapply IH; eauto|].
  destruct (idx sm i) as [v| |]; cbn [bind] in H; try discriminate.
  destruct (re2_fields prefix rest sm (i + 1)) as [r| |] eqn:E; cbn [bind] in H; try discriminate.
  injection H as <-. cbn. eapply IH; eauto.
Qed.

(* the regexp library's promise: a match has one entry per sub-expression name *)
Theorem parse_re2_total : forall root path prefix names sm p,
  sm = [] \/ len sm = len names ->
  parse_re2_do root path prefix names sm <> Panic p.
Proof.
  intros root path prefix names sm p Hsm. unfold parse_re2_do.
  destruct (jdig root path); [|discriminate].
  destruct sm as [|s0 sm]; [discriminate|]. destruct Hsm as [Hsm|Hsm]; [discriminate|].
  bind_case E; try discriminate. exfalso.
  eapply re2_fields_total; [| |exact E]; [lia|].
  destruct names as [|n0 names]; cbn [tl]; unfold len in *; cbn [length] in *; lia.
Qed.

Theorem parse_re2_tree_wf : forall root path prefix names sm root',
  wf_json root = true -> parse_re2_do root path prefix names sm = Ok root' -> wf_json root' = true.
Proof.
  intros root path prefix names sm root' H E. unfold parse_re2_do in E.
  destruct (jdig root path); [|injection E as <-; exact H].
  destruct sm as [|s0 sm]; [injection E as <-; exact H|].
  destruct (re2_fields prefix (tl names) (s0 :: sm) 1) as [fs| |] eqn:Ef; cbn [bind] in E; try discriminate.
  injection E as <-. apply merge_to_root_wf; [eapply re2_fields_wf; eauto|apply jremove_wf, H].
Qed.

(* ---- split ------------------------------------------------------------------------------------ *)
Theorem split_total : forall is_child root path p, split_do is_child root path <> Panic p.
Proof.
  intros. unfold split_do. destruct is_child; [discriminate|].
  destruct (jdig root path) as [[| | | |l|]|]; try discriminate. destruct (filter is_obj l); discriminate.
Qed.

Lemma filter_obj_wf l : forallb wf_json l = true -> forallb (fun j => is_obj j && wf_json j) (filter is_obj l) = true.
Proof.
  induction l as [|x l IH]; intros H; [reflexivity|]. cbn in *. apply andb_prop in H. destruct H as [Hx H].
  destruct (is_obj x) eqn:E; [cbn; rewrite E, Hx; apply IH, H|apply IH, H].
Qed.

(* every spawned child is an object and well formed; the result is Pass or Break *)
Theorem split_tree_wf : forall is_child root path r children,
  wf_json root = true -> split_do is_child root path = Ok (r, children) ->
  (r = 0 \/ r = 4) /\ forallb (fun j => is_obj j && wf_json j) children = true.
Proof.
  intros is_child root path r children H E. unfold split_do in E.
  destruct is_child; [injection E as <- <-; split; [left|]; reflexivity|].
  destruct (jdig root path) as [v|] eqn:Ed; [|injection E as <- <-; split; [left|]; reflexivity].
  pose proof (jdig_wf _ _ _ H Ed) as Hv.
  destruct v as [| | | |l|]; try (injection E as <- <-; split; [left|]; reflexivity).
  pose proof (filter_obj_wf l Hv) as Hf.
  destruct (filter is_obj l) as [|c ch]; injection E as <- <-; split; auto.
Qed.

(* ---- convert_utf8_bytes ------------------------------------------------------------------------ *)
Theorem convert_do_total : forall is_graphic replace paths root p,
  convert_do is_graphic replace root paths <> Panic p.
Proof.
  intros is_graphic replace. induction paths as [|pa rest IH]; intros root p; cbn [convert_do]; [discriminate|].
  unfold convert_field. destruct (jdig root pa) as [[| | |s| |]|]; cbn [bind]; try apply IH.
  destruct (convert is_graphic replace s) as [[b|]| |q] eqn:E; cbn [bind]; try apply IH; try discriminate.
  exfalso. eapply convert_total; eauto.
Qed.

Theorem convert_do_tree_wf : forall is_graphic replace paths root root',
  wf_json root = true -> convert_do is_graphic replace root paths = Ok root' -> wf_json root' = true.
Proof.
  intros is_graphic replace. induction paths as [|pa rest IH]; intros root root' H E; cbn [convert_do] in E;
    [injection E as <-; exact H|].
  unfold convert_field in E.
  destruct (jdig root pa) as [[| | |s| |]|]; cbn [bind] in E; try (eapply IH; eauto; fail).
  destruct (convert is_graphic replace s) as [[b|]| |q]; cbn [bind] in E; try discriminate.
  - eapply IH; [|exact E]. apply jupdate_wf; [reflexivity|exact H].
  - eapply IH; eauto.
Qed.

(* ---- hash ------------------------------------------------------------------------------------- *)
Theorem hash_do_total : forall hash_of root fields rpath p, hash_do hash_of root fields rpath <> Panic p.
Proof.
  intros. unfold hash_do. destruct (hash_pick root fields) as [[[v norm] mx]|]; [|discriminate].
  cbn zeta. unfold slice_to.
  set (data := as_string (Some v)).
  destruct ((0 <? mx) && (mx <? len data)) eqn:E; step_slice d; discriminate.
Qed.

Theorem hash_do_tree_wf : forall hash_of root fields rpath root',
  (forall n d, 0 <= hash_of n d < 2 ^ 64) ->
  wf_json root = true -> hash_do hash_of root fields rpath = Ok root' -> wf_json root' = true.
Proof.
  intros hash_of root fields rpath root' Hh H E. unfold hash_do in E.
  destruct (hash_pick root fields) as [[[v norm] mx]|]; [|injection E as <-; exact H].
  cbn zeta in E. destruct (slice_to _ _) as [d| |]; cbn [bind] in E; try discriminate.
  injection E as <-. apply create_nested_wf; [|exact H]. cbn [wf_json]. apply format_uint_number, Hh.
Qed.

(* ---- modify ----------------------------------------------------------------------------------- *)
(* what the filter parsers accept: cut count > 0, trim_to cutset non-empty *)
Definition filter_valid (f : ffilter) : bool :=
  match f with
  | FCut _ count => 0 <? count
  | FTrimTo _ cs => negb (len cs =? 0)
  | FTrim _ _ => true
  end.
Definition sop_valid (o : sop) : bool :=
  match o with SRaw _ => true | SField _ fl => forallb filter_valid fl end.

Lemma apply_filters_total : forall fl src p, forallb filter_valid fl = true -> apply_filters fl src <> Panic p.
Proof.
  induction fl as [|f fl IH]; intros src p H; cbn [apply_filters]; [discriminate|].
  cbn in H. apply andb_prop in H. destruct H as [Hf H].
  destruct (apply_filter f src) as [s1| |q] eqn:E; cbn [bind]; [apply IH, H|discriminate|].
  exfalso. destruct f as [first count|mode cs|mode cs]; cbn [apply_filter filter_valid] in *.
  - eapply cut_total; [|exact E]. lia.
  - eapply trim_to_total; [|exact E]. intros ->. change (len (@nil byte)) with 0 in Hf. lia.
  - discriminate.
Qed.

Lemma subst_ops_total root : forall ops acc p, forallb sop_valid ops = true -> subst_ops root ops acc <> Panic p.
Proof.
  induction ops as [|o ops IH]; intros acc p H; cbn [subst_ops]; [discriminate|].
  cbn in H. apply andb_prop in H. destruct H as [Ho H].
  destruct o as [b|pa fl]; [apply IH, H|].
  destruct (apply_filters fl (as_string (jdig root pa))) as [v| |q] eqn:E; cbn [bind]; [apply IH, H|discriminate|].
  exfalso. eapply apply_filters_total; eauto.
Qed.

Theorem modify_do_total : forall skip fops root p,
  forallb (fun fo => forallb sop_valid (snd fo)) fops = true -> modify_do skip root fops <> Panic p.
Proof.
  intros skip. induction fops as [|[field ops] rest IH]; intros root p H; cbn [modify_do]; [discriminate|].
  cbn in H. apply andb_prop in H. destruct H as [Ho H].
  destruct (subst_ops root ops []) as [acc| |q] eqn:E; cbn [bind]; [apply IH, H|discriminate|].
  exfalso. eapply subst_ops_total; eauto.
Qed.

Theorem modify_do_tree_wf : forall skip fops root root',
  wf_json root = true -> modify_do skip root fops = Ok root' -> wf_json root' = true.
Proof.
  intros skip. induction fops as [|[field ops] rest IH]; intros root root' H E; cbn [modify_do] in E;
    [injection E as <-; exact H|].
  destruct (subst_ops root ops []) as [acc| |q]; cbn [bind] in E; try discriminate.
  eapply IH; [|exact E]. destruct (skip && _); [exact H|]. apply create_nested_wf; [reflexivity|exact H].
Qed.

(* ---- json_extract ----------------------------------------------------------------------------- *)
Lemma pt_enter_total (rec : list ptree -> res (list ptree)) k :
  (forall sub q, rec sub <> Panic q) -> forall cs q, pt_enter rec k cs <> Panic q.
Proof.
  intros Hr. induction cs as [|[d sub] r IH]; intros q; cbn [pt_enter]; [discriminate|].
  destruct (bytes_eqb d k).
  - destruct (rec sub) eqn:E; cbn [bind]; try discriminate. exfalso. eapply Hr; eauto.
  - destruct (pt_enter rec k r) as [[r''|]| |q'] eqn:E; cbn [bind]; try discriminate. exfalso. eapply IH; eauto.
Qed.

Lemma pt_add_total : forall fuel children path depth p,
  0 <= depth <= len path -> 1 <= Z.of_nat fuel -> len path - depth <= Z.of_nat fuel ->
  pt_add fuel children path depth <> Panic p.
Proof.
  induction fuel as [|f IH]; intros children path depth p Hd H1 Hf; [lia|].
  cbn [pt_add]. unfold slice_from. destruct (depth <? len path - 1) eqn:E.
  - step_idx k.
    destruct (pt_enter (fun sub => pt_add f sub path (depth + 1)) k children) as [[cs'|]| |q] eqn:Ee; cbn [bind];
      try discriminate.
    + step_slice rest. discriminate.
    + exfalso. eapply pt_enter_total; [|exact Ee]. intros sub q'. apply IH; lia.
  - step_slice rest. discriminate.
Qed.

Theorem pt_add_all_total : forall paths children p, pt_add_all children paths <> Panic p.
Proof.
  induction paths as [|pa rest IH]; intros children p; cbn [pt_add_all]; [discriminate|].
  destruct (pt_add (S (length pa)) children pa 0) as [c1| |q] eqn:E; cbn [bind]; [apply IH|discriminate|].
  exfalso. eapply pt_add_total; [| | |exact E]; pose proof (len_nonneg pa); rewrite ?len_length in *; lia.
Qed.

Theorem extract_tree_total : forall efs ef dup p, extract_tree efs ef dup <> Panic p.
Proof. intros. unfold extract_tree. apply pt_add_all_total. Qed.

Definition fields_depth (fs : list (bytes * json)) : nat := fold_right (fun kv m => Nat.max (jdepth (snd kv)) m) O fs.
Lemma jdepth_obj fs : jdepth (JObj fs) = S (fields_depth fs).
Proof. reflexivity. Qed.

Section ExtractProofs.
Variable fmt_num : bytes -> bytes.
Variable prefix : bytes.

Lemma ext_iter_total (rec : json -> json -> list ptree -> res json) fields : forall fs root processed p,
  (forall k v, In (k, v) fs -> forall root sub q, rec root v sub <> Panic q) ->
  ext_iter fmt_num prefix rec fields fs root processed <> Panic p.
Proof.
  induction fs as [|[k v] r IH]; intros root processed p Hr; cbn [ext_iter]; [discriminate|].
  assert (Hr' : forall k0 v0, In (k0, v0) r -> forall root sub q, rec root v0 sub <> Panic q)
    by (intros; eapply Hr; right; eauto).
  destruct (pt_find fields k) as [n|]; [|apply IH, Hr'].
  destruct (pt_children n) as [|c cs] eqn:Ec; cbn [bind].
  - destruct (_ =? 0); [discriminate|apply IH, Hr'].
  - destruct (rec root v (c :: cs)) as [root1| |q] eqn:E; cbn [bind]; try discriminate.
    + destruct (_ =? 0); [discriminate|apply IH, Hr'].
    + exfalso. eapply (Hr k v); [left; reflexivity|exact E].
Qed.

Lemma fields_depth_in fs : forall k v, In (k, v) fs -> (jdepth v <= fields_depth fs)%nat.
Proof.
  induction fs as [|[k' v'] fs IH]; intros k v Hin; [contradiction|].
  cbn [fields_depth fold_right snd]. destruct Hin as [Heq|Hin].
  - injection Heq as _ ->. apply Nat.le_max_l.
  - etransitivity; [eapply IH; eauto|apply Nat.le_max_r].
Qed.

Theorem extract_total : forall fuel root doc fields p,
  (jdepth doc < fuel)%nat -> extract fmt_num prefix fuel root doc fields <> Panic p.
Proof.
  induction fuel as [|f IH]; intros root doc fields p Hf; [lia|].
  cbn [extract]. destruct doc as [| | | | |fs]; try discriminate.
  apply ext_iter_total. intros k v Hin root0 sub q. apply IH.
  rewrite jdepth_obj in Hf. pose proof (fields_depth_in fs k v Hin). lia.
Qed.

Hypothesis fmt_num_ok : forall r, json_number_ok (fmt_num r) = true.

Lemma conv_value_wf v : wf_json v = true -> wf_json (conv_value fmt_num v) = true.
Proof. destruct v; cbn; auto. Qed.

Lemma root_add_wf root k v : wf_json root = true -> wf_json v = true -> wf_json (root_add root k v) = true.
Proof.
  intros H Hv. unfold root_add. destruct root as [| | | | |fs]; try exact H.
  rewrite wf_obj in *. apply set_field_wf; assumption.
Qed.

Lemma ext_iter_wf (rec : json -> json -> list ptree -> res json) fields : forall fs root processed root',
  (forall k v, In (k, v) fs -> forall root sub r', wf_json root = true -> rec root v sub = Ok r' -> wf_json r' = true) ->
  wf_fields fs = true -> wf_json root = true ->
  ext_iter fmt_num prefix rec fields fs root processed = Ok root' -> wf_json root' = true.
Proof.
  induction fs as [|[k v] r IH]; intros root processed root' Hr Hfs H E; cbn [ext_iter] in E;
    [injection E as <-; exact H|].
  cbn in Hfs. apply andb_prop in Hfs. destruct Hfs as [Hv Hfs].
  assert (Hr' : forall k0 v0, In (k0, v0) r -> forall root sub r', wf_json root = true -> rec root v0 sub = Ok r' -> wf_json r' = true)
    by (intros; eapply Hr; [right|..]; eauto).
  destruct (pt_find fields k) as [n|]; [|eapply IH; eauto].
  destruct (pt_children n) as [|c cs]; cbn [bind] in E.
  - assert (H1 : wf_json (root_add root (prefix ++ pt_data n) (conv_value fmt_num v)) = true)
      by (apply root_add_wf; [exact H|apply conv_value_wf, Hv]).
    destruct (_ =? 0); [injection E as <-; exact H1|eapply IH; eauto].
  - destruct (rec root v (c :: cs)) as [root1| |] eqn:Er; cbn [bind] in E; try discriminate.
    assert (H1 : wf_json root1 = true) by (eapply (Hr k v); [left; reflexivity|exact H|exact Er]).
    destruct (_ =? 0); [injection E as <-; exact H1|eapply IH; eauto].
Qed.

Lemma wf_fields_in fs k v : wf_fields fs = true -> In (k, v) fs -> wf_json v = true.
Proof.
  unfold wf_fields. rewrite forallb_forall. intros H Hin. apply (H (k, v) Hin).
Qed.

Theorem extract_wf : forall fuel root doc fields root',
  wf_json root = true -> wf_json doc = true ->
  extract fmt_num prefix fuel root doc fields = Ok root' -> wf_json root' = true.
Proof.
  induction fuel as [|f IH]; intros root doc fields root' H Hd E; cbn [extract] in E; [discriminate|].
  destruct doc as [| | | | |fs]; try (injection E as <-; exact H).
  eapply ext_iter_wf; [|exact Hd|exact H|exact E].
  intros k v Hin root0 sub r' H0 Er. eapply IH; [exact H0| |exact Er].
  eapply wf_fields_in; eauto.
Qed.
End ExtractProofs.

Theorem json_extract_do_total : forall fmt_num prefix root path doc fields p,
  json_extract_do fmt_num prefix root path doc fields <> Panic p.
Proof.
  intros. unfold json_extract_do. destruct (jdig root path); [|discriminate].
  apply extract_total. lia.
Qed.

Theorem json_extract_do_tree_wf : forall fmt_num prefix root path doc fields root',
  (forall r, json_number_ok (fmt_num r) = true) ->
  wf_json root = true -> wf_json doc = true ->
  json_extract_do fmt_num prefix root path doc fields = Ok root' -> wf_json root' = true.
Proof.
  intros fmt_num prefix root path doc fields root' Hf H Hd E. unfold json_extract_do in E.
  destruct (jdig root path); [|injection E as <-; exact H].
  eapply (extract_wf fmt_num prefix Hf); [exact H|exact Hd|exact E].
Qed.
