(* Facts about the tree operations of Base/Json.v, Model/Actions/Tree.v and Model/Actions/ExtraTree.v
   used by the specifications of Proofs/Actions/ExtraPlugins.v: what a lookup answers after set_field /
   MergeToRoot, Suicide as a permutation, Dig after an update, well-formedness. *)
From Verif Require Import Base.Sx Base.GoSem Base.Json Model.Decoders.Common Proofs.Decoders.Common
  Model.Actions.Tree Proofs.Actions.Tree Model.Actions.ExtraTree.
From Coq Require Import Lia ZifyBool Permutation.

(* ---- key equality ------------------------------------------------------------------------------ *)
Lemma N_eqb_list_eq a : forall b, N_eqb_list a b = true <-> a = b.
Proof.
  induction a as [|x a IH]; intros [|y b]; cbn; split; intros H; try reflexivity; try discriminate.
  - apply andb_prop in H. destruct H as [Hx H]. apply N.eqb_eq in Hx. apply IH in H. congruence.
  - injection H as -> ->. rewrite N.eqb_refl. apply IH. reflexivity.
Qed.
Lemma key_eqb_eq a b : key_eqb a b = true <-> a = b.
Proof. apply N_eqb_list_eq. Qed.
Lemma key_eqb_refl a : key_eqb a a = true.
Proof. apply key_eqb_eq. reflexivity. Qed.
Lemma key_eqb_neq a b : key_eqb a b = false <-> a <> b.
Proof.
  split; intros H.
  - intros E. apply key_eqb_eq in E. congruence.
  - destruct (key_eqb a b) eqn:E; [apply key_eqb_eq in E; contradiction|reflexivity].
Qed.

(* ---- set_field: the first field of that name, else a new last one ------------------------------- *)
Fixpoint set_field_rec (fs : list (bytes * json)) (k : bytes) (v : json) : list (bytes * json) :=
  match fs with
  | [] => [(k, v)]
  | (k', v') :: r => if key_eqb k' k then (k, v) :: r else (k', v') :: set_field_rec r k v
  end.

Lemma field_index_shift k : forall fs i, field_index fs k (S i) = option_map S (field_index fs k i).
Proof.
  induction fs as [|[k' v'] r IH]; intros i; cbn [field_index]; [reflexivity|].
  destruct (key_eqb k' k); [reflexivity|apply IH].
Qed.

Lemma set_field_rec_eq k v : forall fs, set_field fs k v = set_field_rec fs k v.
Proof.
  induction fs as [|[k' v'] r IH]; [reflexivity|].
  unfold set_field in *. cbn [field_index set_field_rec]. destruct (key_eqb k' k) eqn:E; [reflexivity|].
  rewrite field_index_shift. destruct (field_index r k 0) as [i|]; cbn [option_map set_at app].
  - f_equal. exact IH.
  - f_equal. exact IH.
Qed.

Lemma field_get_set_field fs k v k' :
  field_get (set_field fs k v) k' = if key_eqb k k' then Some v else field_get fs k'.
Proof.
  rewrite set_field_rec_eq. induction fs as [|[k1 v1] r IH]; cbn [set_field_rec field_get].
  - destruct (key_eqb k k'); reflexivity.
  - destruct (key_eqb k1 k) eqn:E1; cbn [field_get].
    + apply key_eqb_eq in E1. subst k1. destruct (key_eqb k k'); reflexivity.
    + rewrite IH. destruct (key_eqb k1 k') eqn:E2; [|reflexivity].
      destruct (key_eqb k k') eqn:E3; [|reflexivity].
      apply key_eqb_eq in E2, E3. subst. rewrite key_eqb_refl in E1. discriminate.
Qed.

Lemma field_get_set_field_same fs k v : field_get (set_field fs k v) k = Some v.
Proof. rewrite field_get_set_field, key_eqb_refl. reflexivity. Qed.
Lemma field_get_set_field_other fs k v k' : k <> k' -> field_get (set_field fs k v) k' = field_get fs k'.
Proof. intros H. rewrite field_get_set_field. apply key_eqb_neq in H. rewrite H. reflexivity. Qed.

(* the last value a field list gives a key *)
Fixpoint last_get (src : list (bytes * json)) (k : bytes) : option json :=
  match src with
  | [] => None
  | (k', v) :: r => match last_get r k with Some x => Some x | None => if key_eqb k' k then Some v else None end
  end.

Lemma fold_set_field_get : forall src fs k,
  field_get (fold_left (fun acc kv => set_field acc (fst kv) (snd kv)) src fs) k
  = match last_get src k with Some v => Some v | None => field_get fs k end.
Proof.
  induction src as [|[k1 v1] r IH]; intros fs k; cbn [fold_left last_get fst snd]; [reflexivity|].
  rewrite IH. destruct (last_get r k); [reflexivity|]. rewrite field_get_set_field. destruct (key_eqb k1 k); reflexivity.
Qed.

(* pipeline.MergeToRoot: afterwards every key of the source holds the source's (last) value for it,
   every other key holds what the root had *)
Theorem merge_to_root_get fs src k :
  exists fs', merge_to_root (JObj fs) src = JObj fs' /\
    field_get fs' k = match last_get src k with Some v => Some v | None => field_get fs k end.
Proof. eexists. split; [reflexivity|]. apply fold_set_field_get. Qed.

(* ---- Suicide of an object field = swap-remove: a permutation of the other fields ---------------- *)
Lemma nth_error_last {A} (l : list A) x d : nth_error l (length l - 1) = Some x -> l = removelast l ++ [x] /\ last l d = x.
Proof.
  induction l as [|y l IH]; intros H; [discriminate|].
  destruct l as [|z l'].
  - cbn in H. injection H as <-. split; reflexivity.
  - assert (H' : nth_error (z :: l') (length (z :: l') - 1) = Some x).
    { cbn [length] in *. replace (S (S (length l')) - 1)%nat with (S (length l')) in H by lia.
      replace (S (length l') - 1)%nat with (length l') by lia. exact H. }
    apply IH in H'. destruct H' as [E1 E2]. split.
    + change (removelast (y :: z :: l')) with (y :: removelast (z :: l')). cbn [app]. f_equal. exact E1.
    + exact E2.
Qed.

Theorem swap_remove_perm {A} (l : list A) i x : nth_error l i = Some x -> Permutation l (x :: swap_remove l i).
Proof.
  intros H. unfold swap_remove. rewrite H.
  assert (Hi : (i < length l)%nat) by (apply nth_error_Some; congruence).
  destruct (Nat.eqb i (length l - 1)) eqn:E.
  - apply Nat.eqb_eq in E. subst i. destruct (nth_error_last l x x H) as [El _].
    rewrite El at 1. apply Permutation_sym, Permutation_cons_append.
  - apply Nat.eqb_neq in E.
    destruct (nth_error l (length l - 1)) as [lastx|] eqn:En.
    2:{ apply nth_error_None in En. lia. }
    destruct (nth_error_last l lastx x En) as [El _].
    set (m := removelast l) in *.
    assert (Hm : (i < length m)%nat).
    { rewrite El in Hi. rewrite app_length in Hi. cbn [length] in Hi.
      assert (length l = length m + 1)%nat by (rewrite El at 1; rewrite app_length; reflexivity). lia. }
    assert (Hx : nth_error m i = Some x).
    { rewrite El in H. rewrite nth_error_app1 in H by exact Hm. exact H. }
    assert (Ef : firstn i l = firstn i m).
    { rewrite El. rewrite firstn_app. replace (i - length m)%nat with 0%nat by lia. cbn. apply app_nil_r. }
    rewrite Ef.
    pose proof (firstn_skipn i m) as Es.
    assert (Esk : skipn i m = x :: skipn (S i) m).
    { clear -Hx. revert i Hx. induction m as [|y m IH]; intros [|i] Hx; cbn in *; try discriminate.
      - congruence.
      - apply IH. exact Hx. }
    rewrite El at 1. rewrite <- Es at 1. rewrite Esk.
    rewrite <- app_assoc. cbn [app].
    apply Permutation_trans with (x :: firstn i m ++ skipn (S i) m ++ [lastx]).
    + apply Permutation_sym, Permutation_middle.
    + apply perm_skip. apply Permutation_app_head.
      apply Permutation_sym, Permutation_cons_append.
Qed.

Lemma swap_remove_length {A} (l : list A) i : (i < length l)%nat -> S (length (swap_remove l i)) = length l.
Proof.
  intros Hi. destruct (nth_error l i) as [x|] eqn:E.
  - apply swap_remove_perm in E. apply Permutation_length in E. cbn [length] in E. lia.
  - apply nth_error_None in E. lia.
Qed.

(* a lookup does not depend on the order of the fields when no key occurs twice *)
Lemma field_get_in fs k v : field_get fs k = Some v -> In (k, v) fs.
Proof.
  induction fs as [|[k' v'] r IH]; cbn; [discriminate|].
  destruct (key_eqb k' k) eqn:E; intros H.
  - apply key_eqb_eq in E. injection H as <-. left. congruence.
  - right. apply IH, H.
Qed.
Lemma field_get_nodup fs k v : NoDup (map fst fs) -> In (k, v) fs -> field_get fs k = Some v.
Proof.
  induction fs as [|[k' v'] r IH]; cbn; intros Hn Hi; [contradiction|].
  inversion Hn as [|? ? Hnot Hn']; subst.
  destruct Hi as [Hi|Hi].
  - injection Hi as -> ->. rewrite key_eqb_refl. reflexivity.
  - destruct (key_eqb k' k) eqn:E.
    + apply key_eqb_eq in E. subst k'. exfalso. apply Hnot. apply (in_map fst) in Hi. exact Hi.
    + apply IH; assumption.
Qed.
Lemma field_get_none fs k : field_get fs k = None <-> ~ In k (map fst fs).
Proof.
  induction fs as [|[k' v'] r IH]; cbn; [tauto|].
  destruct (key_eqb k' k) eqn:E.
  - apply key_eqb_eq in E. split; [discriminate|]. intros H. exfalso. apply H. left. exact E.
  - apply key_eqb_neq in E. rewrite IH. tauto.
Qed.

Theorem field_get_perm fs fs' k : NoDup (map fst fs) -> Permutation fs fs' -> field_get fs k = field_get fs' k.
Proof.
  intros Hn Hp.
  assert (Hn' : NoDup (map fst fs')).
  { eapply Permutation_NoDup; [apply Permutation_map, Hp|exact Hn]. }
  destruct (field_get fs k) as [v|] eqn:E.
  - symmetry. apply field_get_nodup; [exact Hn'|]. eapply Permutation_in; [exact Hp|]. apply field_get_in, E.
  - symmetry. apply field_get_none. intros Hi. apply field_get_none in E. apply E.
    eapply Permutation_in; [apply Permutation_sym, Permutation_map, Hp|exact Hi].
Qed.

(* field_index and field_get find the same field *)
Lemma field_index_nth k : forall fs i0 i, field_index fs k i0 = Some i ->
  (i0 <= i)%nat /\ exists v, nth_error fs (i - i0) = Some (k, v) /\ field_get fs k = Some v.
Proof.
  induction fs as [|[k' v'] r IH]; intros i0 i H; cbn [field_index] in H; [discriminate|].
  cbn [field_get]. destruct (key_eqb k' k) eqn:E.
  - injection H as <-. apply key_eqb_eq in E. subst k'. split; [lia|]. exists v'. rewrite Nat.sub_diag. split; reflexivity.
  - apply IH in H. destruct H as (Hle & v & Hn & Hg). split; [lia|]. exists v. split; [|exact Hg].
    replace (i - i0)%nat with (S (i - S i0)) by lia. exact Hn.
Qed.
Lemma field_index_none k : forall fs i0, field_index fs k i0 = None <-> field_get fs k = None.
Proof.
  induction fs as [|[k' v'] r IH]; intros i0; cbn [field_index field_get]; [tauto|].
  destruct (key_eqb k' k); [split; discriminate|apply IH].
Qed.

(* removing the first field named k from an object (Dig(k).Suicide()):
   the other fields are what is left, up to the swap-remove reordering *)
Theorem jremove_field_spec fs k v : field_get fs k = Some v ->
  exists fs', jremove (JObj fs) [k] = JObj fs' /\ Permutation fs ((k, v) :: fs') /\
    (NoDup (map fst fs) -> forall k', k' <> k -> field_get fs' k' = field_get fs k') /\
    (NoDup (map fst fs) -> field_get fs' k = None).
Proof.
  intros Hg. cbn [jremove]. destruct (field_index fs k 0) as [i|] eqn:Ei.
  2:{ apply field_index_none in Ei. congruence. }
  apply field_index_nth in Ei. destruct Ei as (_ & v' & Hn & Hg'). rewrite Nat.sub_0_r in Hn.
  assert (v' = v) by congruence. subst v'.
  exists (swap_remove fs i). split; [reflexivity|].
  pose proof (swap_remove_perm fs i (k, v) Hn) as Hp. split; [exact Hp|]. split.
  - intros Hnd k' Hk. rewrite (field_get_perm fs _ k' Hnd Hp). cbn [field_get].
    assert (key_eqb k k' = false) by (apply key_eqb_neq; congruence). rewrite H. reflexivity.
  - intros Hnd. apply field_get_none. intros Hi.
    assert (Hnd' : NoDup (map fst ((k, v) :: swap_remove fs i))).
    { eapply Permutation_NoDup; [apply Permutation_map, Hp|exact Hnd]. }
    cbn in Hnd'. inversion Hnd'. contradiction.
Qed.

(* ---- Dig after an update of the node Dig finds ---------------------------------------------------- *)
Lemma field_get_set_at_index fs k i v v' : field_index fs k 0 = Some i -> nth_error fs i = Some (k, v) ->
  field_get (set_at fs i (k, v')) k = Some v'.
Proof.
  revert i. induction fs as [|[k1 v1] r IH]; intros i Hi Hn; [discriminate|].
  cbn [field_index] in Hi. destruct (key_eqb k1 k) eqn:E.
  - injection Hi as <-. cbn. rewrite key_eqb_refl. reflexivity.
  - rewrite field_index_shift in Hi. destruct (field_index r k 0) as [j|] eqn:Ej; [|discriminate].
    injection Hi as <-. cbn [set_at field_get]. rewrite E. apply (IH j); [reflexivity|exact Hn].
Qed.

Theorem jdig_jupdate_same (f : json -> json) : forall path j v,
  jdig j path = Some v -> jdig (jupdate j path f) path = Some (f v).
Proof.
  induction path as [|k rest IH]; intros j v H; cbn [jdig jupdate] in *; [congruence|].
  destruct j as [| | | |l|fs]; try discriminate.
  - destruct (atoi_signed k) as [i|] eqn:Ea; [|discriminate].
    destruct ((0 <=? i) && (i <? len l)) eqn:Eb; [|discriminate].
    destruct (nth_error l (Z.to_nat i)) as [x|] eqn:En; [|discriminate].
    assert (Hlen : len (set_at l (Z.to_nat i) (jupdate x rest f)) = len l).
    { unfold len. f_equal. generalize (Z.to_nat i) as n. generalize (jupdate x rest f) as y. clear. intros y n. revert n.
      induction l as [|z l IHl]; intros [|n]; cbn; try reflexivity. f_equal. apply IHl. }
    assert (Hnth : nth_error (set_at l (Z.to_nat i) (jupdate x rest f)) (Z.to_nat i) = Some (jupdate x rest f)).
    { revert En. generalize (Z.to_nat i) as n. generalize (jupdate x rest f) as y. clear. intros y n. revert l.
      induction n as [|n IHn]; intros [|z l] En; cbn in *; try discriminate; [reflexivity|apply IHn, En]. }
    cbn [jdig]. rewrite Hlen, Eb, Hnth. apply IH, H.
  - destruct (field_get fs k) as [x|] eqn:Eg; [|discriminate].
    destruct (field_index fs k 0) as [i|] eqn:Ei.
    2:{ apply field_index_none in Ei. congruence. }
    pose proof Ei as Ei'. apply field_index_nth in Ei'. destruct Ei' as (_ & x' & Hn & Hg).
    rewrite Nat.sub_0_r in Hn. assert (x' = x) by congruence. subst x'.
    rewrite Hn. cbn [jdig]. rewrite (field_get_set_at_index fs k i x _ Ei Hn). apply IH, H.
Qed.

(* ---- well-formedness ------------------------------------------------------------------------------ *)
Lemma obj_set_wf k v t : wf_json t = true -> wf_json v = true -> wf_json (obj_set k v t) = true.
Proof.
  intros Ht Hv. destruct t as [| | | | |fs]; cbn [obj_set]; try exact Ht.
  rewrite wf_obj in *. apply set_field_wf; assumption.
Qed.

Lemma dig_wf : forall path j v, wf_json j = true -> dig j path = Some v -> wf_json v = true.
Proof.
  induction path as [|k rest IH]; intros j v H E; cbn [dig] in E; [injection E as <-; exact H|].
  destruct j as [| | | | |fs]; try discriminate.
  destruct (field_get fs k) as [x|] eqn:Eg; [|discriminate].
  apply (IH x); [|exact E]. eapply field_get_wf; eauto.
Qed.

Lemma coerce_obj_wf o : (forall v, o = Some v -> wf_json v = true) -> wf_json (coerce_obj o) = true.
Proof.
  intros H. destruct o as [[| | | | |s]|]; cbn [coerce_obj]; try reflexivity. apply H. reflexivity.
Qed.

Lemma ensure_nested_wf j path : wf_json j = true -> wf_json (ensure_nested j path) = true.
Proof.
  intros H. destruct path as [|k rest]; cbn [ensure_nested]; [exact H|].
  apply create_nested_wf; [|exact H]. apply coerce_obj_wf. intros v E. eapply dig_wf; eauto.
Qed.

Lemma prefix_fields_wf p fs : wf_fields fs = true -> wf_fields (prefix_fields p fs) = true.
Proof.
  unfold wf_fields, prefix_fields. induction fs as [|[k v] r IH]; cbn; [reflexivity|].
  intros H. apply andb_prop in H. destruct H as [-> H]. cbn. apply IH, H.
Qed.

Lemma fold_jremove_wf {A} (g : A -> list bytes) : forall l root, wf_json root = true ->
  wf_json (fold_left (fun r x => jremove r (g x)) l root) = true.
Proof.
  induction l as [|x l IH]; intros root H; cbn [fold_left]; [exact H|]. apply IH, jremove_wf, H.
Qed.
