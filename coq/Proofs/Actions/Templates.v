(* Proofs about Model/Actions/Templates.v: none of the join templates' hand-written start / continue checks and not
   cfg.ParseFieldSelector can index or slice out of range or exhaust its loop, on any byte string: each of them
   returns a value ([exists b, f s = Ok b], hence neither Panic nor Err). *)
From Verif Require Import Base.Sx Base.GoSem Model.Decoders.Common Proofs.Decoders.Common
  Model.Actions.Subst Proofs.Actions.Subst Model.Actions.Templates
  Base.Json Model.Actions.ExtraTree Model.Actions.ExtraPlugins Proofs.Actions.ExtraPlugins.
From Coq Require Import Lia ZifyBool.
From Coq Require Strings.String.

(* the byte lists of the model are the texts of the Go constants *)
Module TemplateConstants.
Import Coq.Strings.String.
Example template_constants :
  start_substr = bs "unhandled exception" /\ at_substr = bs "at" /\ arrow_substr = bs "--->" /\
  end_of_substr = bs "--- End of" /\ exception_substr = bs "Exception:" /\ goroutine_prefix = bs "goroutine " /\
  goroutine_suffix = bs " [" /\ line_number_part = bs ".go:" /\ panic_part1 = bs "panic" /\ panic_part2 = bs "0x" /\
  created_by_part = bs "created by ".
Proof. repeat split; reflexivity. Qed.
End TemplateConstants.

(* ---- ranges of the searches ----------------------------------------------------------------------- *)
Lemma first_non_space_from_bounds : forall l i,
  first_non_space_from l i = -1 \/ (i <= first_non_space_from l i < i + len l).
Proof.
  induction l as [|c l IH]; intros i; cbn [first_non_space_from]; [left; reflexivity|].
  rewrite len_cons. pose proof (len_nonneg l). destruct (a_is_space c); [|right; lia].
  destruct (IH (i + 1)) as [->|H1]; [left; reflexivity|right; lia].
Qed.

Lemma first_non_space_bounds l : first_non_space l = -1 \/ (0 <= first_non_space l < len l).
Proof. unfold first_non_space. destruct (first_non_space_from_bounds l 0) as [H|H]; [left; exact H|right; lia]. Qed.

Lemma index_sub_hit l needle :
  index_sub l needle = -1 \/ (0 <= index_sub l needle /\ index_sub l needle + len needle <= len l).
Proof.
  unfold index_sub. destruct (index_sub_from_bounds needle l 0) as [->|[H1 H2]]; [left; reflexivity|right; lia].
Qed.

Lemma last_index_byte_from_bounds c : forall l i best,
  (best = -1 \/ 0 <= best < i) -> 0 <= i ->
  last_index_byte_from l c i best = -1 \/ 0 <= last_index_byte_from l c i best < i + len l.
Proof.
  induction l as [|x l IH]; intros i best Hb Hi; cbn [last_index_byte_from].
  - change (len (@nil byte)) with 0. destruct Hb as [->|Hb]; [left; reflexivity|right; lia].
  - rewrite len_cons. replace (i + (len l + 1)) with (i + 1 + len l) by lia.
    apply IH; [|lia]. destruct (N.eqb x c); [right; lia|]. destruct Hb as [->|Hb]; [left; reflexivity|right; lia].
Qed.

Lemma last_index_byte_bounds l c : last_index_byte l c = -1 \/ 0 <= last_index_byte l c < len l.
Proof.
  unfold last_index_byte. pose proof (last_index_byte_from_bounds c l 0 (-1)) as H.
  replace (0 + len l) with (len l) in H by lia. apply H; [left; reflexivity|lia].
Qed.

(* ---- the loops ---------------------------------------------------------------------------------------- *)
Lemma eq_ci_from_ok : forall a b i, 0 <= i -> i + len a <= len b -> exists r, eq_ci_from a b i = Ok r.
Proof.
  induction a as [|c a IH]; intros b i Hi Hl; cbn [eq_ci_from]; [eauto|].
  rewrite len_cons in Hl. pose proof (len_nonneg a). step_idx bi.
  destruct (beq (a_to_lower c) (a_to_lower bi)); [|eauto]. apply IH; lia.
Qed.

Lemma equal_ci_ok a b : exists r, equal_ci a b = Ok r.
Proof.
  unfold equal_ci. destruct (len a =? len b) eqn:E; cbn [negb]; [|eauto].
  apply eq_ci_from_ok; lia.
Qed.

Lemma scan_back_lud_ok s : forall fuel left,
  -1 <= left < len s -> (Z.to_nat (left + 1) < fuel)%nat ->
  exists r, scan_back_lud s left fuel = Ok r /\ -1 <= r <= left.
Proof.
  induction fuel as [|f IH]; intros left Hl Hf; [lia|]. cbn [scan_back_lud].
  destruct (0 <=? left) eqn:E.
  - step_idx c. destruct (a_is_lud c).
    + destruct (IH (left - 1)) as (r & E1 & E2); [lia|lia|]. exists r. split; [exact E1|lia].
    + exists left. split; [reflexivity|lia].
  - exists left. split; [reflexivity|lia].
Qed.

Lemma ends_ident_from_ok s : forall fuel i,
  i < len s -> (Z.to_nat (i + 1) < fuel)%nat -> exists b, ends_ident_from s i fuel = Ok b.
Proof.
  induction fuel as [|f IH]; intros i Hl Hf; [lia|]. cbn [ends_ident_from].
  destruct (0 <=? i) eqn:E; [|eauto].
  step_idx c. destruct (a_is_lu c); [eauto|]. destruct (a_is_digit c); [|eauto]. apply IH; lia.
Qed.

Lemma ends_with_identifier_ok s : exists b, ends_with_identifier s = Ok b.
Proof. unfold ends_with_identifier. apply ends_ident_from_ok; unfold len; lia. Qed.

(* ---- cs_exception ------------------------------------------------------------------------------------ *)
Lemma ci_prefix_after_spaces_ok sub s : exists b, ci_prefix_after_spaces sub s = Ok b.
Proof.
  unfold ci_prefix_after_spaces. destruct (first_non_space_bounds s) as [->|H]; [cbn; eauto|].
  destruct (first_non_space s =? -1); [eauto|].
  unfold slice_from. step_slice s1. destruct (len s1 <? len sub) eqn:E; [eauto|].
  unfold slice_to. step_slice s2. apply equal_ci_ok.
Qed.

Lemma contains_at_ok s : exists b, contains_at s = Ok b.
Proof.
  unfold contains_at. destruct (first_non_space_bounds s) as [->|H]; [cbn; eauto|].
  destruct (first_non_space s =? -1); [eauto|].
  unfold slice_from. step_slice s1. destruct (has_prefix s1 at_substr) eqn:E; cbn [negb]; [|eauto].
  apply has_prefix_len in E. pose proof (len_nonneg at_substr). step_slice s2. destruct (len s2 =? 0) eqn:E0; [eauto|].
  step_idx c. eauto.
Qed.

Lemma contains_arrow_ok s : exists b, contains_arrow s = Ok b.
Proof.
  unfold contains_arrow. destruct (first_non_space_bounds s) as [->|H]; [cbn; eauto|].
  destruct (first_non_space s =? -1); [eauto|].
  unfold slice_from. step_slice s1. eauto.
Qed.

Lemma contains_exception_ok s : exists b, contains_exception s = Ok b.
Proof.
  unfold contains_exception. cbv zeta.
  destruct (index_sub_hit s exception_substr) as [->|[H1 H2]]; [cbn; eauto|].
  change (len exception_substr) with 10 in H2.
  destruct (index_sub s exception_substr <? 1) eqn:E; [eauto|].
  step_idx c. destruct (beq c 46%N); [|eauto].
  destruct (0 <? index_sub s exception_substr - 1) eqn:E2; [|eauto].
  step_idx c2. eauto.
Qed.

Lemma orelse_ok a b : (exists x, a = Ok x) -> (exists y, b = Ok y) -> exists z, orelse a b = Ok z.
Proof. intros [x ->] [y ->]. unfold orelse. cbn [bind]. destruct x; eauto. Qed.

Lemma sharp_continue_ok s : exists b, sharp_continue s = Ok b.
Proof.
  unfold sharp_continue. repeat apply orelse_ok.
  - apply contains_at_ok.
  - apply contains_arrow_ok.
  - apply ci_prefix_after_spaces_ok.
  - apply contains_exception_ok.
Qed.

(* ---- go_panic ---------------------------------------------------------------------------------------- *)
Lemma contains_goroutine_id_ok s : exists b, contains_goroutine_id s = Ok b.
Proof.
  unfold contains_goroutine_id. cbv zeta.
  destruct (index_sub_hit s goroutine_prefix) as [->|[H1 H2]]; [cbn; eauto|].
  destruct (index_sub s goroutine_prefix =? -1); [eauto|].
  pose proof (len_nonneg goroutine_prefix). unfold slice_from. step_slice s1.
  destruct (index_sub_hit s1 [SP]) as [->|[H3 H4]]; [cbn; eauto|].
  change (len [SP]) with 1 in H4.
  destruct (index_sub s1 [SP] <? 1) eqn:E; [eauto|].
  unfold slice_to. step_slice d. destruct (only_digits d); [|eauto].
  step_slice t. eauto.
Qed.

Lemma contains_line_number_ok s : exists b, contains_line_number s = Ok b.
Proof.
  unfold contains_line_number. cbv zeta.
  destruct (index_sub_hit s line_number_part) as [->|[H1 H2]]; [cbn; eauto|].
  destruct (index_sub s line_number_part =? -1); [eauto|].
  destruct (index_sub s line_number_part + len line_number_part <? len s) eqn:E; [|eauto].
  pose proof (len_nonneg line_number_part). step_idx c. eauto.
Qed.

Lemma contains_created_by_ok s : exists b, contains_created_by s = Ok b.
Proof.
  unfold contains_created_by. cbv zeta.
  destruct (index_sub_hit s created_by_part) as [->|[H1 H2]]; [cbn; eauto|].
  destruct (index_sub s created_by_part =? -1); [eauto|].
  pose proof (len_nonneg created_by_part). unfold slice_from. step_slice s1. eauto.
Qed.

Lemma contains_panic_address_ok s : exists b, contains_panic_address s = Ok b.
Proof.
  unfold contains_panic_address. cbv zeta.
  destruct (index_sub_hit s panic_part1) as [->|[H1 H2]]; [cbn; eauto|].
  destruct (index_sub s panic_part1 =? -1); [eauto|].
  pose proof (len_nonneg panic_part1). unfold slice_from. step_slice s1.
  destruct (index_sub_hit s1 panic_part2) as [->|[H3 H4]]; [cbn; eauto|].
  destruct (index_sub s1 panic_part2 =? -1); [eauto|].
  destruct (index_sub s1 panic_part2 =? 0); [eauto|].
  pose proof (len_nonneg panic_part2). step_slice s2.
  destruct (len s2 =? 0) eqn:E0; [eauto|]. step_idx c. eauto.
Qed.

Lemma contains_call_ok s : exists b, contains_call s = Ok b.
Proof.
  unfold contains_call. cbv zeta.
  destruct (last_index_byte_bounds s 41%N) as [->|H1]; [cbn; eauto|].
  destruct (last_index_byte s 41%N =? -1); [eauto|].
  unfold slice_to at 1. step_slice s1.
  destruct (last_index_byte_bounds s1 40%N) as [->|H2]; [cbn; eauto|].
  destruct (last_index_byte s1 40%N =? -1); [eauto|].
  set (right := last_index_byte s1 40%N - 1) in *.
  destruct (scan_back_lud_ok s1 (S (length s1)) right) as (left & E1 & E2); [subst right; lia|unfold len in *; subst right; lia|].
  rewrite E1. cbn [bind].
  destruct (left =? right) eqn:E3; [eauto|]. destruct (left =? -1) eqn:E4; [eauto|].
  assert (Hleft : 0 <= left < len s1) by (subst right; lia).
  step_idx c. destruct (beq c 46%N); cbn [negb]; [|eauto].
  destruct (0 <=? left - 1) eqn:E5.
  - step_idx c2. cbn [bind]. unfold slice_to.
    destruct (beq c2 41%N); step_slice s2; apply ends_with_identifier_ok.
  - cbn [bind]. unfold slice_to. step_slice s2. apply ends_with_identifier_ok.
Qed.

Lemma go_panic_continue_ok s : exists b, go_panic_continue s = Ok b.
Proof.
  unfold go_panic_continue. repeat apply orelse_ok; eauto.
  - apply contains_goroutine_id_ok.
  - apply contains_line_number_ok.
  - apply contains_created_by_ok.
  - apply contains_panic_address_ok.
  - apply contains_call_ok.
Qed.

(* ---- every check of every template --------------------------------------------------------------------- *)
Theorem template_check_ok : forall tmpl cont s, exists b, template_check tmpl cont s = Ok b.
Proof.
  intros tmpl cont s. unfold template_check.
  destruct tmpl as [|[| |]|]; destruct cont;
    try (unfold data_race_finish; eauto; fail).
  - apply go_panic_continue_ok.
  - unfold go_panic_start. eauto.
  - destruct p; try (unfold data_race_finish; eauto; fail).
  - destruct p; try (unfold data_race_finish, data_race_start; eauto; fail).
  - apply sharp_continue_ok.
  - apply ci_prefix_after_spaces_ok.
Qed.

Theorem template_check_total : forall tmpl cont s p, template_check tmpl cont s <> Panic p.
Proof. intros tmpl cont s p. destruct (template_check_ok tmpl cont s) as [b ->]. discriminate. Qed.

(* the checks without a leading blank / prefix test are what the regular expressions of template.go say, in
   the two cases the code comments single out *)
Lemma only_spaces_spec : forall l, only_spaces l = forallb a_is_space l.
Proof.
  intros l. unfold only_spaces, first_non_space.
  assert (H : forall i, 0 <= i -> (first_non_space_from l i =? -1) = forallb a_is_space l).
  { induction l as [|c l IH]; intros i Hi; cbn [first_non_space_from forallb]; [reflexivity|].
    destruct (a_is_space c); cbn [andb]; [apply IH; lia|lia]. }
  apply H. lia.
Qed.

(* ---- cfg.ParseFieldSelector ---------------------------------------------------------------------------- *)
Lemma parse_selector_loop_ok : forall fuel selector tail acc,
  (length selector < fuel)%nat -> exists r, parse_selector_loop selector tail acc fuel = Ok r.
Proof.
  induction fuel as [|f IH]; intros selector tail acc Hf; [lia|]. cbn [parse_selector_loop]. cbv zeta.
  pose proof (index_byte_bounds selector 46%N) as Hb.
  destruct (index_byte selector 46%N =? -1) eqn:E; [eauto|].
  assert (Hlen : len selector = Z.of_nat (length selector)) by reflexivity.
  destruct (0 <? index_byte selector 46%N) eqn:E0.
  - step_idx c. destruct (beq c 92%N).
    + unfold slice_to, slice_from. step_slice a. step_slice rest. apply IH. unfold len in *. lia.
    + destruct (index_byte selector 46%N + 1 <? len selector) eqn:E1.
      * step_idx c2. destruct (beq c2 46%N); unfold slice_to, slice_from.
        -- step_slice t. step_slice rest. apply IH. unfold len in *. lia.
        -- step_slice a. step_slice rest. apply IH. unfold len in *. lia.
      * cbn [bind]. unfold slice_to, slice_from. step_slice a. step_slice rest. apply IH. unfold len in *. lia.
  - cbn [bind]. destruct (index_byte selector 46%N + 1 <? len selector) eqn:E1.
    + step_idx c2. destruct (beq c2 46%N); unfold slice_to, slice_from.
      * step_slice t. step_slice rest. apply IH. unfold len in *. lia.
      * step_slice a. step_slice rest. apply IH. unfold len in *. lia.
    + cbn [bind]. unfold slice_to, slice_from. step_slice a. step_slice rest. apply IH. unfold len in *. lia.
Qed.

Theorem parse_field_selector_ok : forall selector, exists r, parse_field_selector selector = Ok r.
Proof. intros. unfold parse_field_selector. apply parse_selector_loop_ok. lia. Qed.

Theorem parse_field_selector_total : forall selector p, parse_field_selector selector <> Panic p.
Proof. intros selector p. destruct (parse_field_selector_ok selector) as [r ->]. discriminate. Qed.

(* a non-empty selector never parses to the empty path (the hypothesis c13_rename_cfg_paths_nonempty makes about
   the selector oracle, proved of the model): the path is empty only when nothing was appended, and the final
   append is skipped only when both the rest of the selector and the pending tail are empty *)
Lemma rev'_nonempty {A} (l : list A) : l <> [] -> rev' l <> [].
Proof.
  unfold rev'. rewrite <- rev_alt. destruct l as [|x l]; [contradiction|]. intros _ H.
  apply (f_equal (@length A)) in H. rewrite rev_length in H. discriminate.
Qed.

Lemma parse_selector_loop_nonempty : forall fuel selector tail acc r,
  (acc <> [] \/ len selector + len tail <> 0) ->
  parse_selector_loop selector tail acc fuel = Ok r -> r <> [].
Proof.
  induction fuel as [|f IH]; intros selector tail acc r Hne; [discriminate|]. cbn [parse_selector_loop]. cbv zeta.
  pose proof (index_byte_bounds selector 46%N) as Hb. pose proof (len_nonneg tail) as Ht. pose proof (len_nonneg selector) as Hs.
  destruct (index_byte selector 46%N =? -1) eqn:E.
  - intros H. injection H as <-. apply rev'_nonempty.
    destruct (len selector + len tail =? 0) eqn:E2; cbn [negb]; [|discriminate].
    destruct Hne as [Hne|Hne]; [exact Hne|lia].
  - destruct (0 <? index_byte selector 46%N) eqn:E0.
    + step_idx c. destruct (beq c 92%N).
      * unfold slice_to, slice_from. step_slice a. step_slice rest. apply IH. right.
        rewrite !len_app. change (len [46%N]) with 1. pose proof (len_nonneg rest). pose proof (len_nonneg a). lia.
      * destruct (index_byte selector 46%N + 1 <? len selector) eqn:E1.
        -- step_idx c2. destruct (beq c2 46%N); unfold slice_to, slice_from.
           ++ step_slice t. step_slice rest. apply IH. right. pose proof (len_nonneg rest). lia.
           ++ step_slice a. step_slice rest. apply IH. left. discriminate.
        -- cbn [bind]. unfold slice_to, slice_from. step_slice a. step_slice rest. apply IH. left. discriminate.
    + cbn [bind]. destruct (index_byte selector 46%N + 1 <? len selector) eqn:E1.
      * step_idx c2. destruct (beq c2 46%N); unfold slice_to, slice_from.
        -- step_slice t. step_slice rest. apply IH. right. pose proof (len_nonneg rest). lia.
        -- step_slice a. step_slice rest. apply IH. left. discriminate.
      * cbn [bind]. unfold slice_to, slice_from. step_slice a. step_slice rest. apply IH. left. discriminate.
Qed.

Theorem parse_field_selector_nonempty : forall selector r,
  selector <> [] -> parse_field_selector selector = Ok r -> r <> [].
Proof.
  intros selector r Hne. unfold parse_field_selector. apply parse_selector_loop_nonempty. right.
  destruct selector; [contradiction|]. rewrite len_cons. pose proof (len_nonneg selector). change (len (@nil byte)) with 0. lia.
Qed.

(* a selector without a dot is one segment, itself (what every plain field option goes through) *)
Theorem parse_field_selector_plain : forall selector,
  selector <> [] -> index_byte selector 46%N = -1 -> parse_field_selector selector = Ok [selector].
Proof.
  intros selector Hne H. unfold parse_field_selector. cbn [parse_selector_loop]. cbv zeta. rewrite H. cbn [Z.eqb].
  change (len (@nil byte)) with 0. replace (len selector + 0 =? 0) with false.
  - reflexivity.
  - destruct selector; [contradiction|]. rewrite len_cons. pose proof (len_nonneg selector). lia.
Qed.

(* the selector function the rename / move / ... models take as an oracle, instantiated with the model of
   cfg.ParseFieldSelector: the hypothesis of rename_cfg_paths_nonempty (Properties: c13_rename_cfg_paths_nonempty,
   c13_rename_total_wf) holds of it, so for this instance rename's totality needs no hypothesis at all *)
Definition selector_fn (k : bytes) : list bytes :=
  match parse_field_selector k with Ok r => r | _ => [] end.

Lemma selector_fn_nonempty : forall k, k <> [] -> selector_fn k <> [].
Proof.
  intros k Hk. unfold selector_fn. destruct (parse_field_selector_ok k) as [r E]. rewrite E.
  exact (parse_field_selector_nonempty k r Hk E).
Qed.

Theorem rename_paths_nonempty_modelled_selector : forall cfg, paths_nonempty (rename_ops selector_fn cfg) = true.
Proof. intros cfg. apply rename_cfg_paths_nonempty. exact selector_fn_nonempty. Qed.

Theorem rename_total_modelled_selector : forall preserve cfg root,
  exists r, rename_cfg_do selector_fn preserve cfg root = Ok (APass, r).
Proof. intros. apply rename_cfg_total. exact selector_fn_nonempty. Qed.
