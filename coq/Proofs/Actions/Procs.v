(* Proofs about sub-model 53 (Model/Actions/Procs.v): what the runner's Agree means for the concurrent
   per-processor streams. *)
From Verif Require Import Base.Sx Model.Actions.Procs.
From Coq Require Import Lia.

Lemma sx_eqb_sound : forall a b, sx_eqb a b = true -> a = b.
Proof.
  fix IH 1. intros a b. destruct a as [x|x|x]; destruct b as [y|y|y]; cbn [sx_eqb]; try discriminate.
  - intros H. apply Z.eqb_eq in H. now subst.
  - revert y. induction x as [|p x IHx]; intros [|q y]; cbn; try discriminate; [reflexivity|].
    intros H. apply andb_true_iff in H. destruct H as [H1 H2]. apply N.eqb_eq in H1. subst.
    specialize (IHx y H2). now inversion IHx.
  - revert y. induction x as [|p x IHx]; intros [|q y]; try discriminate; [reflexivity|].
    intros H. apply andb_true_iff in H. destruct H as [H1 H2].
    apply IH in H1. subst. specialize (IHx y H2). now inversion IHx.
Qed.

(* a clean record: n output events and their digest; anything else is a violation record *)
Definition clean_rec (r : sx) : Prop := exists n d, r = SL [SZ 0; SZ n; SB d].
Definition clean_stream (s : sx) : Prop := exists recs, s = SL recs /\ forall r, In r recs -> clean_rec r.

Lemma rec_ok_clean : forall r, rec_ok r = true -> clean_rec r.
Proof.
  intros r H. destruct r as [z|b|l]; try discriminate H.
  destruct l as [|a l]; [discriminate H|]. destruct a as [z| |]; try discriminate H.
  destruct z; try discriminate H.
  destruct l as [|b l]; [discriminate H|]. destruct b as [n| |]; try discriminate H.
  destruct l as [|c l]; [discriminate H|]. destruct c as [|d|]; try discriminate H.
  destruct l; [|discriminate H]. exists n, d. reflexivity.
Qed.

Lemma stream_ok_clean : forall s, stream_ok s = true -> clean_stream s.
Proof.
  intros s H. destruct s as [| |l]; try discriminate H. exists l. split; [reflexivity|].
  intros r Hr. apply rec_ok_clean. cbn [stream_ok] in H. rewrite forallb_forall in H. exact (H r Hr).
Qed.

Lemma side_ok_spec : forall k s, side_ok k s = true ->
  exists l, s = SL l /\ length l = k /\ forall x, In x l -> clean_stream x.
Proof.
  intros k s H. destruct s as [| |l]; try discriminate H. cbn [side_ok] in H.
  apply andb_true_iff in H. destruct H as [H1 H2]. apply Nat.eqb_eq in H1.
  exists l. split; [reflexivity|]. split; [exact H1|].
  intros x Hx. apply stream_ok_clean. rewrite forallb_forall in H2. exact (H2 x Hx).
Qed.

(* the predicate, read: K streams on either side, no violation record anywhere, and (mode 0) the concurrent
   run of every instance equals the run of a fresh instance on the same events alone *)
Theorem procs_ok_spec : forall mode k obs, procs_ok mode k obs = true ->
  exists conc solo, obs = SL [SL conc; SL solo] /\ length conc = k /\ length solo = k /\
    (forall s, In s conc \/ In s solo -> clean_stream s) /\
    (mode = 0 -> conc = solo).
Proof.
  intros mode k obs H. unfold procs_ok in H.
  destruct obs as [| |l]; try discriminate H.
  destruct l as [|c l]; [discriminate H|]. destruct l as [|s l]; [discriminate H|].
  destruct l; [|discriminate H].
  apply andb_true_iff in H. destruct H as [H H3]. apply andb_true_iff in H. destruct H as [H1 H2].
  apply side_ok_spec in H1. destruct H1 as [lc [-> [Lc Cc]]].
  apply side_ok_spec in H2. destruct H2 as [ls [-> [Ls Cs]]].
  exists lc, ls. split; [reflexivity|]. split; [exact Lc|]. split; [exact Ls|]. split.
  - intros x [Hx|Hx]; [exact (Cc x Hx)|exact (Cs x Hx)].
  - intros ->. cbn [Z.eqb] in H3. apply sx_eqb_sound in H3. now inversion H3.
Qed.

(* a record that reports a panic / Fatal / broken event (any code but 0), in any stream of either side, is never
   accepted *)
Theorem procs_violation_record_rejected : forall mode k conc solo s recs code rest,
  In s conc \/ In s solo -> s = SL recs -> In (SL (SZ code :: rest)) recs -> code <> 0 ->
  procs_ok mode k (SL [SL conc; SL solo]) = false.
Proof.
  intros mode k conc solo s recs code rest Hs -> Hr Hc.
  destruct (procs_ok mode k (SL [SL conc; SL solo])) eqn:E; [|reflexivity]. exfalso.
  apply procs_ok_spec in E. destruct E as [c' [s' [Eq [_ [_ [Cl _]]]]]]. inversion Eq; subst c' s'.
  destruct (Cl _ Hs) as [recs' [Er Hall]]. inversion Er; subst recs'.
  destruct (Hall _ Hr) as [n [d Hnd]]. inversion Hnd. congruence.
Qed.

(* the runner's verdict on a case of sub-model 53 is Agree exactly when the predicate holds *)
Theorem procs_agree_iff : forall plugins mode streams obs,
  (2 <= length streams)%nat -> mode = 0 \/ mode = 1 ->
  (c13_procs_entry 53 (SL [SL plugins; SZ mode; SL streams]) obs = Agree <->
   procs_ok mode (length streams) obs = true).
Proof.
  intros plugins mode streams obs Hk Hm. cbn [c13_procs_entry procs_run].
  replace (2 <=? Z.of_nat (length streams)) with true by (symmetry; apply Z.leb_le; lia).
  replace ((mode =? 0) || (mode =? 1)) with true by (destruct Hm; subst; reflexivity).
  cbn [andb]. destruct (procs_ok mode (length streams) obs); split; intros H; try reflexivity; discriminate H.
Qed.

(* in mode 0 a concurrent run that differs from the solo run in any way is a violation *)
Theorem procs_strict_differs_violates : forall plugins streams conc solo,
  (2 <= length streams)%nat -> conc <> solo ->
  exists m, c13_procs_entry 53 (SL [SL plugins; SZ 0; SL streams]) (SL [SL conc; SL solo]) = Violates m.
Proof.
  intros plugins streams conc solo Hk Hne. cbn [c13_procs_entry procs_run].
  replace (2 <=? Z.of_nat (length streams)) with true by (symmetry; apply Z.leb_le; lia).
  cbn [Z.eqb orb andb].
  destruct (procs_ok 0 (length streams) (SL [SL conc; SL solo])) eqn:E.
  - apply procs_ok_spec in E. destruct E as [c' [s' [Eq [_ [_ [_ Hs]]]]]]. inversion Eq; subst.
    exfalso. apply Hne. apply Hs. reflexivity.
  - eexists. reflexivity.
Qed.
