(* END-TO-END NO-WEDGE theorem of the product (Model/Pipe.v = one batching output x the flows of all
   streams): from EVERY reachable state whose batcher is neither stopped nor crashed, without taking
   any new regular event from any stream, some schedule finishes every event in hand: the processors
   finish (only stream time-outs are taken), every event handed to the output is added to the batcher
   (guard F1 holds because the schedule always adds the HEAD of a hand-over queue), the batcher
   flushes and commits everything (guard F2 never refuses: pipe_F2_redundant).

   Construction, stream by stream over the finite list of streams that have a flow in the state:
     1. the processor of the stream finishes           (Proofs/ProcDrain.v, lifted by [lift_proc]);
     2. while its hand-over queue is not empty: the batcher drains (Proofs/BatcherDrain.v, lifted by
        [lift_batcher]), takes a free batch if it has no current one ([ensure_cur]: a drained batcher
        has all its batches free), and accepts the head of the queue ([add_one]);
   then one last drain of the batcher; the accounting clause is pipe_quiescent at the final state.
   Steps about one stream never touch processor and hand-over queue of another stream, batcher steps
   other than Add touch neither ([gstep_GB_frame]), so a finished stream stays finished.

   What the proof does NOT need: the premise [0 <= n]; any fairness or size assumption on the batcher
   (the event is added with size 0, any size would do); any invariant of the processor beyond "not crashed". *)
From Verif Require Import Base.Sx Model.Batcher Model.Proc Model.StreamFlow Model.Pipe
  Proofs.Batcher Proofs.Proc Proofs.StreamFlow Proofs.Pipe.
From Verif Require Proofs.BatcherDrain Proofs.ProcDrain.
From Coq Require Import Lia ZifyBool Bool List ZArith Permutation.
Import ListNotations.
Local Open Scope Z_scope.

(* the labels of a drain: no Stop, no panic, and the only events taken from streams are time-outs *)
Definition ginternal (l : glabel) : Prop :=
  match l with
  | GP _ (PTake e _) => pkind e = 3
  | GP _ _ => True
  | GB LStop | GB LPanic => False
  | GB _ => True
  end.

(* ------------------------------------------------------------------------------------------- *)
(* reachability                                                                                  *)

Definition greach (c : cfg) (n : Z) (g : gst) : Prop := exists ls, grun c n (ginit c) ls = Some g.

Lemma greach_run c n g ls g' : greach c n g -> grun c n g ls = Some g' -> greach c n g'.
Proof. intros [ls0 H0] H. exists (ls0 ++ ls). rewrite grun_app, H0. exact H. Qed.

Lemma greach_batcher c n g : greach c n g -> exists bls, run c (init c) bls = Some (gb g).
Proof. intros [ls H]. exists (bproj ls). exact (pipe_proj_batcher c n ls g H). Qed.

Lemma greach_link c n g : greach c n g -> link n g.
Proof. intros [ls H]. exact (pipe_link c n ls g H). Qed.

Lemma greach_finv c n g s : greach c n g -> finv (gflow n g s).
Proof. intros [ls H]. exact (finv_reachable n false _ _ (pipe_proj_flow c n ls g s H)). Qed.

Lemma greach_not_pcrashed c n g s : greach c n g -> pcrashed (proc (gflow n g s)) = false.
Proof.
  intros [ls H]. pose proof (frun_proc _ _ _ (pipe_proj_flow c n ls g s H)) as Hp. cbn [finit proc] in Hp.
  exact (ProcDrain.reachable_not_crashed n _ _ Hp).
Qed.

(* ------------------------------------------------------------------------------------------- *)
(* the flows after a step                                                                        *)

Lemma gflow_gf_eq n g g' : gf g' = gf g -> forall s, gflow n g' s = gflow n g s.
Proof. intros H s. unfold gflow. rewrite H. reflexivity. Qed.

Lemma gflow_gf_set n g g' s f' : gf g' = gset (gf g) s f' ->
  forall s', gflow n g' s' = if s' =? s then f' else gflow n g s'.
Proof. intros H s'. unfold gflow. rewrite H, gget_gset. destruct (s' =? s); reflexivity. Qed.

(* processor and hand-over queue of stream s are the same in g and g' *)
Definition same_po (n : Z) (g g' : gst) (s : Z) : Prop :=
  proc (gflow n g' s) = proc (gflow n g s) /\ outq (gflow n g' s) = outq (gflow n g s).

Lemma same_po_refl n g s : same_po n g g s.
Proof. split; reflexivity. Qed.

Lemma same_po_trans n g1 g2 g3 s : same_po n g1 g2 s -> same_po n g2 g3 s -> same_po n g1 g3 s.
Proof. intros [H1 H2] [H3 H4]. split; congruence. Qed.

Lemma same_po_of_eq n g g' s : gflow n g' s = gflow n g s -> same_po n g g' s.
Proof. intros H. unfold same_po. rewrite H. split; reflexivity. Qed.

Definition not_add (bl : label) : Prop := match bl with LAdd _ => False | _ => True end.

(* a batcher step other than Add touches no processor and no hand-over queue *)
Lemma gstep_GB_frame c n g bl g' : link n g -> gstep c n g (GB bl) = Some g' -> not_add bl ->
  forall s, same_po n g g' s.
Proof.
  intros L H Hna s. pose proof (gstep_GB _ _ _ _ _ H) as [_ Hf].
  destruct bl; try contradiction; try (apply same_po_of_eq; exact (gflow_gf_eq n g g' Hf s)).
  (* Commit *)
  destruct (Model.StreamFlow.ordered (pev_of e)); [|apply same_po_of_eq; exact (gflow_gf_eq n g g' Hf s)].
  destruct Hf as [f' [Hf Hgf]]. unfold same_po. rewrite (gflow_gf_set n g g' _ _ Hgf s).
  destruct (Z.eqb_spec s (esrc e)) as [->|Hne]; [|split; reflexivity].
  destruct (L (esrc e)) as [Ls _]. revert Hf. cbn [fstep]. rewrite Ls.
  destruct (addq (gflow n g (esrc e))) as [|x r]; [discriminate|].
  destruct (pseq x =? pseq (pev_of e)); [|discriminate].
  intros Hf; inversion Hf; subst f'; cbn [proc outq]. split; reflexivity.
Qed.

(* ... and is enabled in the product as soon as the batcher allows it (F2 never refuses) *)
Lemma gstep_GB_enabled c n g bl b' : (retriable c = false \/ deadq c = false) -> greach c n g ->
  step c (gb g) bl = Some b' -> not_add bl -> exists g', gstep c n g (GB bl) = Some g'.
Proof.
  intros Hcfg [ls Hr] Hs Hna.
  destruct bl; try contradiction; try (cbn [gstep]; rewrite Hs; eexists; reflexivity).
  exact (pipe_F2_redundant c n ls g e b' Hcfg Hr Hs).
Qed.

Lemma binternal_not_add bl : BatcherDrain.internal bl -> not_add bl.
Proof. destruct bl; cbn; auto. Qed.

Lemma binternal_ginternal bl : BatcherDrain.internal bl -> ginternal (GB bl).
Proof. destruct bl; cbn; auto. Qed.

Lemma pinternal_ginternal s pl : ProcDrain.internal pl -> ginternal (GP s pl).
Proof. destruct pl; cbn; auto. Qed.

(* ------------------------------------------------------------------------------------------- *)
(* (2) a batcher run without Add / Stop is a product run                                         *)

Lemma lift_batcher c n : (retriable c = false \/ deadq c = false) ->
  forall bls g b', greach c n g -> Forall BatcherDrain.internal bls -> run c (gb g) bls = Some b' ->
  exists g', grun c n g (map GB bls) = Some g' /\ gb g' = b' /\ forall s, same_po n g g' s.
Proof.
  intros Hcfg bls. induction bls as [|l r IH]; intros g b' Hre Hint Hrun; cbn [run] in Hrun.
  - inversion Hrun; subst b'. exists g. split; [reflexivity|]. split; [reflexivity|]. intros s. apply same_po_refl.
  - destruct (step c (gb g) l) as [b1|] eqn:Hs; [|discriminate].
    inversion Hint as [|? ? Hl Hr']; subst.
    pose proof (binternal_not_add _ Hl) as Hna.
    destruct (gstep_GB_enabled c n g l b1 Hcfg Hre Hs Hna) as [g1 Hg1].
    pose proof (gstep_GB _ _ _ _ _ Hg1) as [Hs1 _]. rewrite Hs in Hs1. inversion Hs1 as [Hb1].
    assert (Hre1 : greach c n g1).
    { apply (greach_run c n g [GB l] g1 Hre). cbn [grun]. rewrite Hg1. reflexivity. }
    rewrite Hb1 in Hrun.
    destruct (IH g1 b' Hre1 Hr' Hrun) as [g' [Hrun' [Hgb Hfr]]].
    exists g'. split; [cbn [map grun]; rewrite Hg1; exact Hrun'|]. split; [exact Hgb|].
    intros s. eapply same_po_trans; [|apply Hfr].
    exact (gstep_GB_frame c n g l g1 (greach_link c n g Hre) Hg1 Hna s).
Qed.

Lemma Forall_map_GB bls : Forall BatcherDrain.internal bls -> Forall ginternal (map GB bls).
Proof. intros H. induction H; cbn [map]; constructor; [apply binternal_ginternal; assumption|assumption]. Qed.

Lemma Forall_map_GP s pls : Forall ProcDrain.internal pls -> Forall ginternal (map (GP s) pls).
Proof. intros H. induction H; cbn [map]; constructor; [apply pinternal_ginternal; assumption|assumption]. Qed.

(* the batcher of a live reachable state drains inside the product; flows keep processor and hand-over queue *)
Lemma drain_batcher c n g : 0 < workers c -> (retriable c = false \/ deadq c = false) ->
  greach c n g -> stopped (gb g) = false -> crashed (gb g) = false ->
  exists ls' g', Forall ginternal ls' /\ grun c n g ls' = Some g' /\
    stopped (gb g') = false /\ crashed (gb g') = false /\
    flight (gb g') = [] /\ queue (gb g') = [] /\ deciding (gb g') = false /\ cur_list (gb g') = [] /\
    forall s, same_po n g g' s.
Proof.
  intros Hw Hcfg Hre Hst Hcr. destruct (greach_batcher c n g Hre) as [bls0 Hb0].
  destruct (BatcherDrain.batcher_can_always_drain_strong c bls0 (gb g) Hw Hb0 Hst Hcr)
    as (bls & b1 & Hint & Hrun & Hst1 & Hcr1 & _ & Hfl & Hq & Hdec & Hcu & _).
  destruct (lift_batcher c n Hcfg bls g b1 Hre Hint Hrun) as [g1 [Hrun1 [Hgb Hfr]]].
  exists (map GB bls), g1. split; [apply Forall_map_GB; exact Hint|]. split; [exact Hrun1|].
  rewrite Hgb. repeat (split; [assumption|]). exact Hfr.
Qed.

(* ------------------------------------------------------------------------------------------- *)
(* (1) a processor run of one stream is a product run                                            *)

Lemma lift_proc c n s : forall pls g p', prun (proc (gflow n g s)) pls = Some p' ->
  exists g', grun c n g (map (GP s) pls) = Some g' /\ gb g' = gb g /\ proc (gflow n g' s) = p' /\
    forall s', s' <> s -> gflow n g' s' = gflow n g s'.
Proof.
  intros pls. induction pls as [|l r IH]; intros g p' Hrun; cbn [prun] in Hrun.
  - inversion Hrun; subst p'. exists g. repeat split; reflexivity.
  - destruct (pstep (proc (gflow n g s)) l) as [p1|] eqn:Hp; [|discriminate].
    assert (Hf : exists f1, fstep (gflow n g s) (FProc l) = Some f1 /\ proc f1 = p1).
    { cbn [fstep]. rewrite Hp. eexists. split; reflexivity. }
    destruct Hf as [f1 [Hf Hpf]].
    set (g1 := {| gb := gb g; gf := gset (gf g) s f1 |}).
    assert (Hg1 : gstep c n g (GP s l) = Some g1) by (cbn [gstep]; rewrite Hf; reflexivity).
    assert (Hfl : forall s', gflow n g1 s' = if s' =? s then f1 else gflow n g s').
    { intros s'. apply (gflow_gf_set n g g1 s f1). reflexivity. }
    assert (Hrun1 : prun (proc (gflow n g1 s)) r = Some p').
    { rewrite Hfl, Z.eqb_refl, Hpf. exact Hrun. }
    destruct (IH g1 p' Hrun1) as [g' [Hrun' [Hgb [Hpr Hoth]]]].
    exists g'. split; [cbn [map grun]; rewrite Hg1; exact Hrun'|]. split; [rewrite Hgb; reflexivity|].
    split; [exact Hpr|]. intros s' Hne. rewrite (Hoth s' Hne), Hfl.
    destruct (Z.eqb_spec s' s); [contradiction|reflexivity].
Qed.

(* the processor of stream s finishes *)
Lemma finish_proc c n g s : greach c n g ->
  exists ls' g', Forall ginternal ls' /\ grun c n g ls' = Some g' /\ gb g' = gb g /\
    stack (proc (gflow n g' s)) = [] /\ held (proc (gflow n g' s)) = [] /\
    forall s', s' <> s -> gflow n g' s' = gflow n g s'.
Proof.
  intros Hre.
  destruct (ProcDrain.can_finish_from (proc (gflow n g s)) (greach_not_pcrashed c n g s Hre))
    as [p' [Hrun [Hint [_ [Hst [Hh _]]]]]].
  destruct (lift_proc c n s _ g p' Hrun) as [g' [Hrun' [Hgb [Hpr Hoth]]]].
  eexists. exists g'. split; [apply Forall_map_GP; exact Hint|]. split; [exact Hrun'|]. split; [exact Hgb|].
  rewrite Hpr. repeat (split; [assumption|]). exact Hoth.
Qed.

(* ------------------------------------------------------------------------------------------- *)
(* (3) the add loop                                                                              *)

(* a drained batcher has a current batch or takes a free one: afterwards it accepts an Add *)
Lemma ensure_cur c n g : 0 < workers c -> greach c n g ->
  stopped (gb g) = false -> crashed (gb g) = false ->
  flight (gb g) = [] -> deciding (gb g) = false -> cur_list (gb g) = [] ->
  exists ls' g', Forall ginternal ls' /\ grun c n g ls' = Some g' /\ gf g' = gf g /\
    stopped (gb g') = false /\ crashed (gb g') = false /\ deciding (gb g') = false /\ cur (gb g') = Some [].
Proof.
  intros Hw Hre Hst Hcr Hfl Hdec Hcu. unfold cur_list in Hcu.
  destruct (cur (gb g)) as [l0|] eqn:Hc.
  - subst l0. exists [], g. split; [constructor|]. split; [reflexivity|]. split; [reflexivity|].
    split; [exact Hst|]. split; [exact Hcr|]. split; [exact Hdec|exact Hc].
  - destruct (greach_batcher c n g Hre) as [bls Hb]. pose proof (wf_count _ _ (wf_reach _ _ _ Hb)) as Hn.
    unfold cur_count in Hn. rewrite Hfl, Hc in Hn. cbn [length] in Hn.
    assert (Hs : step c (gb g) LFree =
                 Some (upd (gb g) (Some []) (deciding (gb g)) (free (gb g) - 1) (flight (gb g)) (queue (gb g))
                           (outSeq (gb g)) (commitSeq (gb g)) (stopped (gb g)))).
    { unfold step. rewrite Hcr, Hc. replace (0 <? free (gb g)) with true by lia. reflexivity. }
    eexists [GB LFree], _. split; [repeat constructor|].
    split; [cbn [grun gstep]; rewrite Hs; reflexivity|].
    cbn [gb gf upd stopped crashed deciding cur]. split; [reflexivity|].
    split; [exact Hst|]. split; [exact Hcr|]. split; [exact Hdec|reflexivity].
Qed.

Lemma gstep_LAdd c n g e b' f' : step c (gb g) (LAdd e) = Some b' ->
  fstep (gflow n g (esrc e)) (FAdd (pev_of e)) = Some f' ->
  gstep c n g (GB (LAdd e)) = Some {| gb := b'; gf := gset (gf g) (esrc e) f' |}.
Proof. intros H1 H2. cbn [gstep]. rewrite H1, H2. reflexivity. Qed.

(* the batcher event of an event waiting in the hand-over queue of stream s (any size would do) *)
Definition bev_of (s : Z) (x : pev) : Model.Batcher.ev := {| eid := pseq x; esrc := s; esize := 0; ekind := pkind x |}.

Lemma pev_of_bev_of s x : pev_of (bev_of s x) = x.
Proof. destruct x; reflexivity. Qed.

(* drain, take a batch, add the head of the queue of stream s *)
Lemma add_one c n g s x r : 0 < workers c -> (retriable c = false \/ deadq c = false) ->
  greach c n g -> stopped (gb g) = false -> crashed (gb g) = false ->
  outq (gflow n g s) = x :: r ->
  exists ls' g', Forall ginternal ls' /\ grun c n g ls' = Some g' /\
    stopped (gb g') = false /\ crashed (gb g') = false /\
    proc (gflow n g' s) = proc (gflow n g s) /\ outq (gflow n g' s) = r /\
    forall s', s' <> s -> same_po n g g' s'.
Proof.
  intros Hw Hcfg Hre Hst Hcr Hq.
  destruct (drain_batcher c n g Hw Hcfg Hre Hst Hcr)
    as (ls1 & g1 & Hi1 & Hr1 & Hst1 & Hcr1 & Hfl1 & _ & Hdec1 & Hcu1 & Hfr1).
  pose proof (greach_run c n g ls1 g1 Hre Hr1) as Hre1.
  destruct (ensure_cur c n g1 Hw Hre1 Hst1 Hcr1 Hfl1 Hdec1 Hcu1)
    as (ls2 & g2 & Hi2 & Hr2 & Hgf2 & Hst2 & Hcr2 & Hdec2 & Hcur2).
  pose proof (greach_run c n g1 ls2 g2 Hre1 Hr2) as Hre2.
  pose proof (gflow_gf_eq n g1 g2 Hgf2) as Hfl2.
  (* the flow of s in g2 *)
  destruct (Hfr1 s) as [Hp1 Ho1].
  assert (Hq2 : outq (gflow n g2 s) = x :: r) by (rewrite Hfl2, Ho1; exact Hq).
  destruct (greach_link c n g2 Hre2 s) as [Hsync _].
  assert (Hord : Model.StreamFlow.ordered x = true).
  { apply (split_members _ (greach_finv c n g2 s Hre2) x). apply in_or_app; right. apply in_or_app; right.
    rewrite Hq2. left; reflexivity. }
  set (e := bev_of s x).
  assert (Hsb : exists b3, step c (gb g2) (LAdd e) = Some b3 /\ stopped b3 = false /\ crashed b3 = false).
  { unfold step. rewrite Hcr2, Hcur2, Hst2, Hdec2. cbn [negb andb]. eexists. split; [reflexivity|].
    cbn [stopped crashed upd]. split; [reflexivity|exact Hcr2]. }
  destruct Hsb as (b3 & Hsb & Hst3 & Hcr3).
  set (f3 := {| proc := proc (gflow n g2 s); outq := r; addq := addq (gflow n g2 s) ++ [x];
                commits := commits (gflow n g2 s); sync_out := sync_out (gflow n g2 s) |}).
  assert (Hsf : fstep (gflow n g2 (esrc e)) (FAdd (pev_of e)) = Some f3).
  { unfold e. rewrite pev_of_bev_of. change (esrc (bev_of s x)) with s.
    unfold f3. cbn [fstep]. rewrite Hord. cbn [negb]. rewrite Hsync, Hq2, Z.eqb_refl. reflexivity. }
  pose proof (gstep_LAdd c n g2 e b3 f3 Hsb Hsf) as Hg3.
  change (esrc e) with s in Hg3.
  set (g3 := {| gb := b3; gf := gset (gf g2) s f3 |}) in Hg3.
  assert (Hfl3 : forall s', gflow n g3 s' = if s' =? s then f3 else gflow n g2 s').
  { intros s'. apply (gflow_gf_set n g2 g3 s f3). reflexivity. }
  exists (ls1 ++ ls2 ++ [GB (LAdd e)]), g3.
  split; [apply Forall_app; split; [exact Hi1|apply Forall_app; split; [exact Hi2|repeat constructor]]|].
  split; [rewrite grun_app, Hr1, grun_app, Hr2; cbn [grun]; rewrite Hg3; reflexivity|].
  split; [exact Hst3|]. split; [exact Hcr3|].
  rewrite Hfl3, Z.eqb_refl. unfold f3. cbn [proc outq]. split; [rewrite Hfl2; exact Hp1|]. split; [reflexivity|].
  intros s' Hne. unfold same_po. rewrite Hfl3. destruct (Z.eqb_spec s' s); [contradiction|].
  rewrite Hfl2. exact (Hfr1 s').
Qed.

(* until the hand-over queue of stream s is empty *)
Lemma add_all c n s : 0 < workers c -> (retriable c = false \/ deadq c = false) ->
  forall k g, length (outq (gflow n g s)) = k ->
  greach c n g -> stopped (gb g) = false -> crashed (gb g) = false ->
  exists ls' g', Forall ginternal ls' /\ grun c n g ls' = Some g' /\
    stopped (gb g') = false /\ crashed (gb g') = false /\
    proc (gflow n g' s) = proc (gflow n g s) /\ outq (gflow n g' s) = [] /\
    forall s', s' <> s -> same_po n g g' s'.
Proof.
  intros Hw Hcfg k. induction k as [|k IH]; intros g Hlen Hre Hst Hcr.
  - exists [], g. split; [constructor|]. split; [reflexivity|]. split; [exact Hst|]. split; [exact Hcr|].
    split; [reflexivity|]. split; [apply length_zero_iff_nil; exact Hlen|]. intros s' _. apply same_po_refl.
  - destruct (outq (gflow n g s)) as [|x r] eqn:Hq; [discriminate|]. cbn [length] in Hlen.
    destruct (add_one c n g s x r Hw Hcfg Hre Hst Hcr Hq) as (ls1 & g1 & Hi1 & Hr1 & Hst1 & Hcr1 & Hp1 & Hq1 & Hfr1).
    assert (Hlen1 : length (outq (gflow n g1 s)) = k) by (rewrite Hq1; lia).
    destruct (IH g1 Hlen1 (greach_run c n g ls1 g1 Hre Hr1) Hst1 Hcr1)
      as (ls2 & g2 & Hi2 & Hr2 & Hst2 & Hcr2 & Hp2 & Hq2 & Hfr2).
    exists (ls1 ++ ls2), g2. split; [apply Forall_app; split; assumption|].
    split; [rewrite grun_app, Hr1; exact Hr2|]. split; [exact Hst2|]. split; [exact Hcr2|].
    split; [congruence|]. split; [exact Hq2|].
    intros s' Hne. eapply same_po_trans; [apply Hfr1|apply Hfr2]; exact Hne.
Qed.

(* ------------------------------------------------------------------------------------------- *)
(* one stream, then all streams                                                                  *)

(* nothing of stream s is in its processor or waits for the batcher *)
Definition sfin (n : Z) (g : gst) (s : Z) : Prop :=
  stack (proc (gflow n g s)) = [] /\ held (proc (gflow n g s)) = [] /\ outq (gflow n g s) = [].

Lemma sfin_same n g g' s : same_po n g g' s -> sfin n g s -> sfin n g' s.
Proof. intros [Hp Ho] (H1 & H2 & H3). unfold sfin. rewrite Hp, Ho. auto. Qed.

Lemma finish_stream c n g s : 0 < workers c -> (retriable c = false \/ deadq c = false) ->
  greach c n g -> stopped (gb g) = false -> crashed (gb g) = false ->
  exists ls' g', Forall ginternal ls' /\ grun c n g ls' = Some g' /\
    stopped (gb g') = false /\ crashed (gb g') = false /\ sfin n g' s /\
    forall s', s' <> s -> same_po n g g' s'.
Proof.
  intros Hw Hcfg Hre Hst Hcr.
  destruct (finish_proc c n g s Hre) as (ls1 & g1 & Hi1 & Hr1 & Hgb1 & Hs1 & Hh1 & Hoth1).
  pose proof (greach_run c n g ls1 g1 Hre Hr1) as Hre1.
  rewrite <- Hgb1 in Hst, Hcr.
  destruct (add_all c n s Hw Hcfg _ g1 eq_refl Hre1 Hst Hcr) as (ls2 & g2 & Hi2 & Hr2 & Hst2 & Hcr2 & Hp2 & Hq2 & Hfr2).
  exists (ls1 ++ ls2), g2. split; [apply Forall_app; split; assumption|].
  split; [rewrite grun_app, Hr1; exact Hr2|]. split; [exact Hst2|]. split; [exact Hcr2|].
  split; [unfold sfin; rewrite Hp2; auto|].
  intros s' Hne. eapply same_po_trans; [apply same_po_of_eq; exact (Hoth1 s' Hne)|exact (Hfr2 s' Hne)].
Qed.

Lemma finish_streams c n : 0 < workers c -> (retriable c = false \/ deadq c = false) ->
  forall L g, greach c n g -> stopped (gb g) = false -> crashed (gb g) = false ->
  exists ls' g', Forall ginternal ls' /\ grun c n g ls' = Some g' /\
    stopped (gb g') = false /\ crashed (gb g') = false /\
    (forall s, In s L -> sfin n g' s) /\ (forall s, ~ In s L -> same_po n g g' s).
Proof.
  intros Hw Hcfg L. induction L as [|s L IH]; intros g Hre Hst Hcr.
  - exists [], g. split; [constructor|]. split; [reflexivity|]. split; [exact Hst|]. split; [exact Hcr|].
    split; [intros s []|]. intros s _. apply same_po_refl.
  - destruct (finish_stream c n g s Hw Hcfg Hre Hst Hcr) as (ls1 & g1 & Hi1 & Hr1 & Hst1 & Hcr1 & Hfin1 & Hfr1).
    destruct (IH g1 (greach_run c n g ls1 g1 Hre Hr1) Hst1 Hcr1) as (ls2 & g2 & Hi2 & Hr2 & Hst2 & Hcr2 & Hfin2 & Hfr2).
    exists (ls1 ++ ls2), g2. split; [apply Forall_app; split; assumption|].
    split; [rewrite grun_app, Hr1; exact Hr2|]. split; [exact Hst2|]. split; [exact Hcr2|]. split.
    + intros s0 Hin. destruct (in_dec Z.eq_dec s0 L) as [HinL|HninL]; [exact (Hfin2 s0 HinL)|].
      destruct Hin as [<-|Hin]; [|contradiction]. exact (sfin_same n g1 g2 s (Hfr2 s HninL) Hfin1).
    + intros s0 Hnin. assert (Hne : s0 <> s) by (intros ->; apply Hnin; left; reflexivity).
      assert (HninL : ~ In s0 L) by (intros H; apply Hnin; right; exact H).
      eapply same_po_trans; [exact (Hfr1 s0 Hne)|exact (Hfr2 s0 HninL)].
Qed.

(* a stream without an entry in the association list is in its initial state: nothing in hand *)
Lemma gget_none l s : ~ In s (map fst l) -> gget l s = None.
Proof.
  induction l as [|[k v] r IH]; cbn [map fst In gget]; intros H; [reflexivity|].
  destruct (Z.eqb_spec k s) as [->|Hne]; [exfalso; apply H; left; reflexivity|]. apply IH. tauto.
Qed.

Lemma sfin_absent n g s : ~ In s (map fst (gf g)) -> sfin n g s.
Proof. intros H. unfold sfin, gflow. rewrite (gget_none _ _ H). cbn. auto. Qed.

(* ------------------------------------------------------------------------------------------- *)
(* the theorem                                                                                   *)

(* the premise [0 <= n] of the theorem is not used; the drain also leaves the batcher not stopped *)
Lemma pipe_drain_core :
  forall c n ls g, 0 < workers c -> (retriable c = false \/ deadq c = false) ->
    grun c n (ginit c) ls = Some g -> stopped (gb g) = false -> crashed (gb g) = false ->
    exists ls' g', Forall ginternal ls' /\ grun c n g ls' = Some g' /\ stopped (gb g') = false /\
      crashed (gb g') = false /\ flight (gb g') = [] /\ queue (gb g') = [] /\ cur_list (gb g') = [] /\
      rev (committed (gb g')) = rev (added (gb g')) /\
      forall s, let f := gflow n g' s in
        stack (proc f) = [] /\ held (proc f) = [] /\ outq f = [] /\ addq f = [] /\
        (forall e, In e (ftaken (sproj s (ls ++ ls'))) -> In e (commits f) \/ In e (dropped (proc f))).
Proof.
  intros c n ls g Hw Hcfg Hrun Hst Hcr.
  assert (Hre : greach c n g) by (exists ls; exact Hrun).
  (* every stream finishes and hands everything to the batcher *)
  destruct (finish_streams c n Hw Hcfg (map fst (gf g)) g Hre Hst Hcr)
    as (ls1 & g1 & Hi1 & Hr1 & Hst1 & Hcr1 & Hfin1 & Hfr1).
  assert (Hall1 : forall s, sfin n g1 s).
  { intros s. destruct (in_dec Z.eq_dec s (map fst (gf g))) as [Hin|Hnin]; [exact (Hfin1 s Hin)|].
    exact (sfin_same n g g1 s (Hfr1 s Hnin) (sfin_absent n g s Hnin)). }
  pose proof (greach_run c n g ls1 g1 Hre Hr1) as Hre1.
  (* the batcher flushes and commits *)
  destruct (drain_batcher c n g1 Hw Hcfg Hre1 Hst1 Hcr1)
    as (ls2 & g2 & Hi2 & Hr2 & Hst2 & Hcr2 & Hfl2 & Hq2 & _ & Hcu2 & Hfr2).
  assert (Hrun2 : grun c n (ginit c) (ls ++ ls1 ++ ls2) = Some g2).
  { rewrite grun_app, Hrun, grun_app, Hr1. exact Hr2. }
  pose proof (exactly_once_at_quiescence c _ _ Hcfg (pipe_proj_batcher c n _ g2 Hrun2) Hfl2 Hcu2) as Hco.
  exists (ls1 ++ ls2), g2. split; [apply Forall_app; split; assumption|].
  split; [rewrite grun_app, Hr1; exact Hr2|].
  repeat (split; [assumption|]).
  intros s f. destruct (sfin_same n g1 g2 s (Hfr2 s) (Hall1 s)) as (Hs & Hh & Ho). fold f in Hs, Hh, Ho.
  split; [exact Hs|]. split; [exact Hh|]. split; [exact Ho|].
  (* nothing is left between Add and Commit: the batcher committed all it was given *)
  assert (Ha : addq f = []).
  { destruct (pipe_link c n _ g2 Hrun2 s) as [_ [La Lc]]. fold f in La, Lc.
    rewrite Hco, La, map_app in Lc. destruct (addq f) as [|x r]; [reflexivity|].
    apply (f_equal (@length Z)) in Lc. rewrite app_length in Lc. cbn [map length] in Lc. lia. }
  split; [exact Ha|].
  intros e He. pose proof (pipe_quiescent c n _ g2 s Hrun2 Hs Hh Ho Hco) as Hperm. fold f in Hperm.
  apply (Permutation_in _ (Permutation_sym Hperm)) in He. apply in_app_or in He.
  destruct He as [He|He]; [left; exact He|right]. apply filter_In in He. exact (proj1 He).
Qed.

Theorem pipe_can_always_drain :
  forall c n ls g, 0 < workers c -> 0 <= n -> (retriable c = false \/ deadq c = false) ->
    grun c n (ginit c) ls = Some g -> stopped (gb g) = false -> crashed (gb g) = false ->
    exists ls' g', Forall ginternal ls' /\ grun c n g ls' = Some g' /\
      crashed (gb g') = false /\ flight (gb g') = [] /\ queue (gb g') = [] /\ cur_list (gb g') = [] /\
      rev (committed (gb g')) = rev (added (gb g')) /\
      forall s, let f := gflow n g' s in
        stack (proc f) = [] /\ held (proc f) = [] /\ outq f = [] /\ addq f = [] /\
        (forall e, In e (ftaken (sproj s (ls ++ ls'))) -> In e (commits f) \/ In e (dropped (proc f))).
Proof.
  intros c n ls g Hw _ Hcfg Hrun Hst Hcr.
  destruct (pipe_drain_core c n ls g Hw Hcfg Hrun Hst Hcr) as (ls' & g' & Hi & Hr & _ & Hrest).
  exists ls', g'. split; [exact Hi|]. split; [exact Hr|]. exact Hrest.
Qed.

(* the drain takes no regular event: what the streams had been given before the drain is all there is
   to account for, and all of it is committed or was dropped by an action *)
Lemma ginternal_takes_nothing s ls' : Forall ginternal ls' -> ftaken (sproj s ls') = [].
Proof.
  intros H. induction H as [|l r Hl _ IH]; [reflexivity|].
  change (sproj s (l :: r)) with (slabels s l ++ sproj s r).
  unfold ftaken in *. rewrite fproj_app. unfold taken in *. rewrite flat_map_app, IH, app_nil_r.
  destruct l as [bl|s' pl]; cbn [slabels].
  - destruct bl; try reflexivity.
    + destruct (esrc e =? s); reflexivity.
    + destruct ((esrc e =? s) && Model.StreamFlow.ordered (pev_of e)); reflexivity.
  - destruct (s' =? s); [|reflexivity]. cbn [fproj flat_map]. rewrite app_nil_r.
    destruct pl; try reflexivity. cbn [taken1]. cbn [ginternal] in Hl.
    unfold ordered. rewrite Hl. reflexivity.
Qed.

Corollary pipe_drain_accounts_for_the_past :
  forall c n ls g, 0 < workers c -> (retriable c = false \/ deadq c = false) ->
    grun c n (ginit c) ls = Some g -> stopped (gb g) = false -> crashed (gb g) = false ->
    exists ls' g', Forall ginternal ls' /\ grun c n g ls' = Some g' /\ stopped (gb g') = false /\
      forall s, ftaken (sproj s (ls ++ ls')) = ftaken (sproj s ls) /\
        forall e, In e (ftaken (sproj s ls)) ->
          In e (commits (gflow n g' s)) \/ In e (dropped (proc (gflow n g' s))).
Proof.
  intros c n ls g Hw Hcfg Hrun Hst Hcr.
  destruct (pipe_drain_core c n ls g Hw Hcfg Hrun Hst Hcr) as (ls' & g' & Hi & Hr & Hst' & _ & _ & _ & _ & _ & Hall).
  exists ls', g'. split; [exact Hi|]. split; [exact Hr|]. split; [exact Hst'|]. intros s.
  assert (Heq : ftaken (sproj s (ls ++ ls')) = ftaken (sproj s ls)).
  { rewrite sproj_app. unfold ftaken. rewrite fproj_app. unfold taken. rewrite flat_map_app.
    pose proof (ginternal_takes_nothing s ls' Hi) as H0. unfold ftaken, taken in H0. rewrite H0, app_nil_r. reflexivity. }
  split; [exact Heq|]. intros e He. destruct (Hall s) as (_ & _ & _ & _ & Hacc). apply Hacc. rewrite Heq. exact He.
Qed.

(* ------------------------------------------------------------------------------------------- *)
(* non-vacuity                                                                                   *)

(* A. the state reached by [nv_run] of Proofs/Pipe.v: two streams; batch 0 (one event of each stream) is
   inside its commit section with both events committed; event 2 of stream 0 is added, sits in the
   current batch and waits (addq of stream 0); nothing in the processors *)
Definition nv_drain : list glabel :=
  [ GB (LCommitEnd 0 1);
    GB LTick; GB (LSeal 1 1 2 5); GB (LPush 1); GB (LTake 1); GB (LOutBegin 1 1); GB (LOutEnd 1 1 2);
    GB (LCommitBegin 1 1); GB (LCommitEv (bev 2 0)); GB (LCommitEnd 1 2) ].

Example pipe_drain_nonvacuous :
  exists g g',
    grun nv_c 1 (ginit nv_c) nv_run = Some g /\
    stopped (gb g) = false /\ crashed (gb g) = false /\
    map bstage (flight (gb g)) = [Committing 2] /\ cur (gb g) = Some [bev 2 0] /\ addq (gflow 1 g 0) = [ev 2 0] /\
    Forall ginternal nv_drain /\ grun nv_c 1 g nv_drain = Some g' /\
    crashed (gb g') = false /\ flight (gb g') = [] /\ queue (gb g') = [] /\ cur_list (gb g') = [] /\
    rev (committed (gb g')) = rev (added (gb g')) /\ rev (committed (gb g')) = [bev 1 1; bev 1 0; bev 2 0] /\
    map fst (gf g') = [0; 1] /\
    (let f := gflow 1 g' 0 in
     stack (proc f) = [] /\ held (proc f) = [] /\ outq f = [] /\ addq f = [] /\ rev (commits f) = [ev 1 0; ev 2 0] /\
     ftaken (sproj 0 (nv_run ++ nv_drain)) = [ev 1 0; ev 2 0]) /\
    (let f := gflow 1 g' 1 in
     stack (proc f) = [] /\ held (proc f) = [] /\ outq f = [] /\ addq f = [] /\ rev (commits f) = [ev 1 0] /\
     ftaken (sproj 1 (nv_run ++ nv_drain)) = [ev 1 0]).
Proof.
  eexists. eexists. split; [vm_compute; reflexivity|].
  do 5 (split; [vm_compute; reflexivity|]).
  split; [unfold nv_drain; repeat constructor|].
  split; [vm_compute; reflexivity|].
  do 7 (split; [vm_compute; reflexivity|]).
  split; vm_compute; repeat split; reflexivity.
Qed.

(* B. the same run continued until every component has something in hand:
   stream 1 (one action): event 2 is HELD by action 0;
   stream 0: event 3 passed and waits in the hand-over queue, event 4 is inside Do of action 0;
   batcher (2 batch objects): batch 0 in its commit section, event 2 of stream 0 in the current batch, no free batch. *)
Definition nv_more : list glabel :=
  [ GP 1 (PTake (ev 2 0) 0); GP 1 (PDo (ev 2 0) 0 false); GP 1 (PResult (ev 2 0) 0 RHold);
    GP 0 (PTake (ev 3 0) 0); GP 0 (PDo (ev 3 0) 0 false); GP 0 (PResult (ev 3 0) 0 RPass); GP 0 (POut (ev 3 0));
    GP 0 (PTake (ev 4 0) 0); GP 0 (PDo (ev 4 0) 0 false) ].

(* the drain: the processors finish (stream 1 by a time-out that makes action 0 flush what it holds), the three
   events handed to the output are added as batches become available (each one the head of its stream's queue),
   the batcher flushes and commits *)
Definition nv_drain_more : list glabel :=
  [ GP 0 (PResult (ev 4 0) 0 RPass); GP 0 (POut (ev 4 0));
    GP 1 (PTake (ev 0 3) 0); GP 1 (PDo (ev 0 3) 0 true); GP 1 (PPropagate (ev 2 0) 1); GP 1 (POut (ev 2 0));
    GP 1 (PResult (ev 0 3) 0 RDiscard);
    GB (LCommitEnd 0 1);
    GB (LAdd (bev 3 0)); GB (LSeal 1 2 1 10); GB (LPush 1);
    GB LFree; GB (LAdd (bev 2 1)); GB (LNotReady 1 5 0 100); GB (LAdd (bev 4 0)); GB (LSeal 2 2 1 10); GB (LPush 2);
    GB (LTake 1); GB (LOutBegin 1 2); GB (LOutEnd 1 2 1);
    GB (LCommitBegin 1 2); GB (LCommitEv (bev 2 0)); GB (LCommitEv (bev 3 0)); GB (LCommitEnd 1 1);
    GB (LTake 2); GB (LOutBegin 2 2); GB (LOutEnd 2 2 1);
    GB (LCommitBegin 2 2); GB (LCommitEv (bev 2 1)); GB (LCommitEv (bev 4 0)); GB (LCommitEnd 2 1) ].

Example pipe_drain_nonvacuous_all_components :
  exists g g',
    grun nv_c 1 (ginit nv_c) (nv_run ++ nv_more) = Some g /\
    stopped (gb g) = false /\ crashed (gb g) = false /\
    map bstage (flight (gb g)) = [Committing 2] /\ cur (gb g) = Some [bev 2 0] /\ free (gb g) = 0 /\
    held (proc (gflow 1 g 1)) = [(0, ev 2 0)] /\
    outq (gflow 1 g 0) = [ev 3 0] /\ map fev (stack (proc (gflow 1 g 0))) = [ev 4 0] /\ addq (gflow 1 g 0) = [ev 2 0] /\
    Forall ginternal nv_drain_more /\ grun nv_c 1 g nv_drain_more = Some g' /\
    crashed (gb g') = false /\ flight (gb g') = [] /\ queue (gb g') = [] /\ cur_list (gb g') = [] /\
    rev (committed (gb g')) = rev (added (gb g')) /\
    rev (committed (gb g')) = [bev 1 1; bev 1 0; bev 2 0; bev 3 0; bev 2 1; bev 4 0] /\
    map fst (gf g') = [0; 1] /\
    (let f := gflow 1 g' 0 in
     stack (proc f) = [] /\ held (proc f) = [] /\ outq f = [] /\ addq f = [] /\
     rev (commits f) = [ev 1 0; ev 2 0; ev 3 0; ev 4 0] /\ dropped (proc f) = [] /\
     ftaken (sproj 0 ((nv_run ++ nv_more) ++ nv_drain_more)) = [ev 1 0; ev 2 0; ev 3 0; ev 4 0]) /\
    (let f := gflow 1 g' 1 in
     stack (proc f) = [] /\ held (proc f) = [] /\ outq f = [] /\ addq f = [] /\
     rev (commits f) = [ev 1 0; ev 2 0] /\ dropped (proc f) = [] /\
     ftaken (sproj 1 ((nv_run ++ nv_more) ++ nv_drain_more)) = [ev 1 0; ev 2 0]).
Proof.
  eexists. eexists. split; [vm_compute; reflexivity|].
  do 9 (split; [vm_compute; reflexivity|]).
  split; [unfold nv_drain_more; repeat constructor|].
  split; [vm_compute; reflexivity|].
  do 7 (split; [vm_compute; reflexivity|]).
  split; vm_compute; repeat split; reflexivity.
Qed.

(* guard F1 is a real guard on the way: once both events of stream 0 wait for the batcher, the younger one is
   refused (by the flow, not by the batcher) while the older one is accepted *)
Example pipe_drain_F1_guards :
  forall g, grun nv_c 1 (ginit nv_c) (nv_run ++ nv_more ++ firstn 8 nv_drain_more) = Some g ->
    outq (gflow 1 g 0) = [ev 3 0; ev 4 0] /\
    gstep nv_c 1 g (GB (LAdd (bev 4 0))) = None /\ step nv_c (gb g) (LAdd (bev 4 0)) <> None /\
    gstep nv_c 1 g (GB (LAdd (bev 3 0))) <> None.
Proof.
  intros g H. vm_compute in H. inversion H; subst g; clear H.
  split; [vm_compute; reflexivity|]. split; [vm_compute; reflexivity|]. split; vm_compute; discriminate.
Qed.

(* the premises of the theorem hold of state B: the theorem applies to it *)
Example pipe_can_always_drain_applies :
  forall g, grun nv_c 1 (ginit nv_c) (nv_run ++ nv_more) = Some g ->
    exists ls' g', Forall ginternal ls' /\ grun nv_c 1 g ls' = Some g' /\
      flight (gb g') = [] /\ cur_list (gb g') = [] /\ rev (committed (gb g')) = rev (added (gb g')) /\
      forall s, stack (proc (gflow 1 g' s)) = [] /\ held (proc (gflow 1 g' s)) = [] /\
                outq (gflow 1 g' s) = [] /\ addq (gflow 1 g' s) = [].
Proof.
  intros g H.
  assert (Hlive : stopped (gb g) = false /\ crashed (gb g) = false).
  { vm_compute in H. inversion H; subst g. split; reflexivity. }
  destruct Hlive as [Hst Hcr].
  destruct (pipe_can_always_drain nv_c 1 _ g ltac:(cbn; lia) ltac:(lia) (or_introl eq_refl) H Hst Hcr)
    as (ls' & g' & Hi & Hr & _ & Hfl & _ & Hcu & Hco & Hall).
  exists ls', g'. repeat (split; [assumption|]). intros s. destruct (Hall s) as (H1 & H2 & H3 & H4 & _). auto.
Qed.

Print Assumptions pipe_drain_accounts_for_the_past.
Print Assumptions pipe_drain_nonvacuous.
Print Assumptions pipe_drain_nonvacuous_all_components.
Print Assumptions pipe_can_always_drain.
