(* Proofs about Model/StreamFlow.v: the end-to-end life of the events of ONE stream = the logical
   processor of the stream (Model/Proc.v) + the queue of events handed to the output and not yet
   added to the batcher (outq) + the queue of events added and not yet committed (addq) + the commit
   history.  Everything rests on one equation kept by every step ([fi_split]):
       ordered events handed to the output, oldest first  =  committed ++ added ++ waiting
   and on the processor invariant [pinv] (Proofs/Proc.v), carried through the FProc steps.
   Final named statements: Proofs/StreamFlowTheorems.v. *)
From Verif Require Import Base.Sx Model.Proc Model.StreamFlow Proofs.Proc.
From Coq Require Import Lia ZifyBool Bool List ZArith Sorted Permutation.
Import ListNotations.
Local Open Scope Z_scope.

(* Model/StreamFlow.v and Proofs/Proc.v each define [ordered] (kind 0 or 2); it is the same function.
   Below, [ordered] is the one of Proofs/Proc.v. *)
Lemma ordered_same : Model.StreamFlow.ordered = ordered.
Proof. reflexivity. Qed.

(* ------------------------------------------------------------------------------------------- *)
(* generic                                                                                       *)

Lemma frun_invariant (P : fst_ -> Prop) :
  (forall s l s', P s -> fstep s l = Some s' -> P s') ->
  forall ls s s', P s -> frun s ls = Some s' -> P s'.
Proof.
  intros Hstep ls. induction ls as [|l r IH]; intros s s' Hs Hr; cbn [frun] in Hr.
  - inversion Hr; subst; exact Hs.
  - destruct (fstep s l) as [s1|] eqn:E; [|discriminate]. eapply IH; [eapply Hstep; eauto|exact Hr].
Qed.

Lemma frun_app s a b : frun s (a ++ b) = match frun s a with Some s' => frun s' b | None => None end.
Proof.
  revert s; induction a as [|l r IH]; intros s; cbn [frun app]; [reflexivity|].
  destruct (fstep s l); [apply IH|reflexivity].
Qed.

(* the processor labels of a flow trace *)
Fixpoint fproj (ls : list flabel) : list plabel :=
  match ls with
  | [] => []
  | FProc l :: r => l :: fproj r
  | _ :: r => fproj r
  end.

(* the ordered events taken from the stream along a flow trace, in order *)
Definition ftaken (ls : list flabel) : list pev := taken (fproj ls).

Lemma fproj_app a b : fproj (a ++ b) = fproj a ++ fproj b.
Proof.
  induction a as [|l r IH]; cbn [fproj app]; [reflexivity|]. destruct l; cbn [app]; rewrite IH; reflexivity.
Qed.

Lemma In_fproj l ls : In l (fproj ls) <-> In (FProc l) ls.
Proof.
  induction ls as [|x r IH]; cbn [fproj In]; [tauto|].
  destruct x; cbn [In]; rewrite IH; split; intros H; try tauto.
  - destruct H as [->|H]; auto.
  - destruct H as [H|H]; [inversion H; auto|auto].
  - destruct H as [H|H]; [discriminate|auto].
  - destruct H as [H|H]; [discriminate|auto].
Qed.

Lemma In_ftaken e ls : In e (ftaken ls) <-> ordered e = true /\ exists start, In (FProc (PTake e start)) ls.
Proof.
  unfold ftaken. rewrite In_taken. split; intros [Ho [start H]]; (split; [exact Ho|exists start]); apply In_fproj; exact H.
Qed.

Ltac fstep_split H :=
  repeat match type of H with
  | (if ?x then _ else _) = Some _ => destruct x eqn:?; try discriminate H
  | match ?x with _ => _ end = Some _ => destruct x eqn:?; try discriminate H
  end.

(* what a step does to the processor component *)
Lemma fstep_proc s l s' : fstep s l = Some s' ->
  match l with FProc pl => pstep (proc s) pl = Some (proc s') | _ => proc s' = proc s end.
Proof.
  destruct l as [pl|e|e]; cbn [fstep]; intros H; fstep_split H; inversion H; subst; reflexivity.
Qed.

Lemma frun_proc ls : forall s s', frun s ls = Some s' -> prun (proc s) (fproj ls) = Some (proc s').
Proof.
  induction ls as [|l r IH]; intros s s' H; cbn [frun] in H.
  - inversion H; subst; reflexivity.
  - destruct (fstep s l) as [s1|] eqn:E; [|discriminate]. pose proof (fstep_proc _ _ _ E) as Hp.
    specialize (IH _ _ H). destruct l; cbn [fproj prun]; [rewrite Hp; exact IH|rewrite <- Hp; exact IH..].
Qed.

Lemma fstep_sync s l s' : fstep s l = Some s' -> sync_out s' = sync_out s.
Proof.
  destruct l as [pl|e|e]; cbn [fstep]; intros H; fstep_split H; inversion H; subst; reflexivity.
Qed.

(* what a processor step does to the output history *)
Lemma pstep_outs s l s' : pstep s l = Some s' ->
  outs s' = match l with
            | POut _ => match stack s with f :: _ => fev f :: outs s | [] => outs s end
            | _ => outs s
            end.
Proof.
  intros H. destruct s as [n st h lt o d c].
  destruct l as [e start|e a busy|e next|parent k|e idx|e idx|e a r|e]; pstep_inv H; reflexivity.
Qed.

(* ------------------------------------------------------------------------------------------- *)
(* the invariant                                                                                 *)

Record finv (s : fst_) : Prop := {
  fi_proc : pinv (proc s);
  fi_split : filter ordered (rev (outs (proc s))) = rev (commits s) ++ addq s ++ outq s;
  fi_sync : sync_out s = true -> addq s = []
}.

Lemma finv_init n sync : finv (finit n sync).
Proof.
  split; cbn; [|reflexivity|reflexivity].
  split; [apply struct_init|apply ord_init].
Qed.

Lemma finv_step s l s' : finv s -> fstep s l = Some s' -> finv s'.
Proof.
  intros [[Hst Hord] Hsplit Hsync] Hstep.
  destruct l as [pl|e|e]; cbn [fstep] in Hstep.
  - (* a processor step *)
    destruct (pstep (proc s) pl) as [p'|] eqn:E; [|discriminate]. inversion Hstep; subst s'; clear Hstep.
    cbn [proc outq addq commits sync_out]. split; cbn [proc outq addq commits sync_out].
    + split; [eapply struct_step|eapply ord_step]; eauto.
    + rewrite (pstep_outs _ _ _ E).
      destruct pl; try (rewrite app_nil_r; exact Hsplit).
      destruct (stack (proc s)) as [|f st]; [rewrite app_nil_r; exact Hsplit|].
      cbn [rev]. rewrite filter_app, Hsplit. cbn [filter]. change (Model.StreamFlow.ordered (fev f)) with (ordered (fev f)).
      destruct (ordered (fev f)); [|rewrite !app_nil_r; reflexivity].
      rewrite <- !app_assoc. reflexivity.
    + exact Hsync.
  - (* Add *)
    destruct (negb (Model.StreamFlow.ordered e)); [inversion Hstep; subst; split; [split|..]; assumption|].
    destruct (sync_out s) eqn:Es; [discriminate|].
    destruct (outq s) as [|x r] eqn:Eq; [discriminate|]. destruct (pseq x =? pseq e); [|discriminate].
    inversion Hstep; subst s'; clear Hstep. split; cbn [proc outq addq commits sync_out].
    + split; assumption.
    + rewrite Hsplit. rewrite <- !app_assoc. reflexivity.
    + intros Ht; congruence.
  - (* Commit *)
    destruct (sync_out s) eqn:Es.
    + destruct (outq s) as [|x r] eqn:Eq; [discriminate|]. destruct (pseq x =? pseq e); [|discriminate].
      inversion Hstep; subst s'; clear Hstep. split; cbn [proc outq addq commits sync_out].
      * split; assumption.
      * rewrite Hsplit, (Hsync eq_refl). cbn [rev app]. rewrite <- !app_assoc. reflexivity.
      * exact Hsync.
    + destruct (addq s) as [|x r] eqn:Eq; [discriminate|]. destruct (pseq x =? pseq e); [|discriminate].
      inversion Hstep; subst s'; clear Hstep. split; cbn [proc outq addq commits sync_out].
      * split; assumption.
      * rewrite Hsplit. cbn [rev app]. rewrite <- !app_assoc. reflexivity.
      * intros Ht; congruence.
Qed.

Lemma finv_run ls s s' : finv s -> frun s ls = Some s' -> finv s'.
Proof. apply (frun_invariant finv). intros; eapply finv_step; eauto. Qed.

Lemma finv_reachable n sync ls s : frun (finit n sync) ls = Some s -> finv s.
Proof. apply finv_run, finv_init. Qed.

(* ------------------------------------------------------------------------------------------- *)
(* consequences of the split                                                                     *)

(* F1 *)
Lemma out_history_split n sync ls s : frun (finit n sync) ls = Some s ->
  map pseq (filter ordered (rev (outs (proc s)))) = map pseq (rev (commits s)) ++ map pseq (addq s) ++ map pseq (outq s).
Proof. intros H. rewrite (fi_split _ (finv_reachable _ _ _ _ H)), !map_app. reflexivity. Qed.

Lemma sync_addq_nil n ls s : frun (finit n true) ls = Some s -> addq s = [].
Proof.
  intros H. apply (fi_sync _ (finv_reachable _ _ _ _ H)).
  revert H. generalize (finit n true), (eq_refl : sync_out (finit n true) = true). intros s0 H0 H.
  revert s0 H0 H. induction ls as [|l r IH]; intros s0 H0 H; cbn [frun] in H.
  - inversion H; subst; exact H0.
  - destruct (fstep s0 l) as [s1|] eqn:E; [|discriminate]. apply (IH s1); [|exact H].
    rewrite (fstep_sync _ _ _ E). exact H0.
Qed.

Lemma split_sorted s : finv s -> StronglySorted Z.lt (map pseq (rev (commits s) ++ addq s ++ outq s)).
Proof.
  intros [[_ Hord] Hsplit _]. rewrite <- Hsplit, filter_rev', map_rev. apply sorted_gt_rev.
  exact (oo_outs _ _ _ _ Hord).
Qed.

Lemma sorted_app_l (l1 l2 : list Z) : StronglySorted Z.lt (l1 ++ l2) -> StronglySorted Z.lt l1.
Proof.
  induction l1 as [|x r IH]; cbn [app]; intros H; [constructor|].
  inversion H as [|? ? Hs Hall]; subst. constructor; [auto|]. apply Forall_app in Hall. tauto.
Qed.

Lemma sorted_app_r (l1 l2 : list Z) : StronglySorted Z.lt (l1 ++ l2) -> StronglySorted Z.lt l2.
Proof.
  induction l1 as [|x r IH]; cbn [app]; intros H; [exact H|]. inversion H; subst; auto.
Qed.

Lemma sorted_app_lt (l1 l2 : list Z) : StronglySorted Z.lt (l1 ++ l2) ->
  forall a b, In a l1 -> In b l2 -> a < b.
Proof.
  induction l1 as [|x r IH]; cbn [app]; intros H a b Ha Hb; [destruct Ha|].
  inversion H as [|? ? Hs Hall]; subst. destruct Ha as [<-|Ha]; [|eauto].
  rewrite Forall_forall in Hall. apply Hall. apply in_or_app; right; exact Hb.
Qed.

Lemma sorted_nodup (l : list Z) : StronglySorted Z.lt l -> NoDup l.
Proof.
  induction 1 as [|x l Hs IH Hall]; constructor; [|exact IH].
  intros Hin. rewrite Forall_forall in Hall. specialize (Hall _ Hin). lia.
Qed.

(* F2 *)
Lemma commits_increasing n sync ls s : frun (finit n sync) ls = Some s ->
  StronglySorted Z.lt (map pseq (rev (commits s))).
Proof.
  intros H. pose proof (split_sorted _ (finv_reachable _ _ _ _ H)) as Hs.
  rewrite map_app in Hs. exact (sorted_app_l _ _ Hs).
Qed.

Lemma commits_nodup n sync ls s : frun (finit n sync) ls = Some s -> NoDup (map pseq (commits s)).
Proof.
  intros H. apply commits_increasing, sorted_nodup in H. rewrite map_rev in H.
  apply NoDup_rev in H. rewrite rev_involutive in H. exact H.
Qed.

(* the queues are in read order too, and everything committed is older than everything queued *)
Lemma queues_increasing n sync ls s : frun (finit n sync) ls = Some s ->
  StronglySorted Z.lt (map pseq (addq s ++ outq s)) /\
  (forall c q, In c (commits s) -> In q (addq s ++ outq s) -> pseq c < pseq q).
Proof.
  intros H. pose proof (split_sorted _ (finv_reachable _ _ _ _ H)) as Hs.
  rewrite map_app in Hs. split; [exact (sorted_app_r _ _ Hs)|].
  intros c q Hc Hq. apply (sorted_app_lt _ _ Hs); apply in_map; [apply -> in_rev; exact Hc|exact Hq].
Qed.

(* whatever is in a queue or committed is an ordered event that was handed to the output *)
Lemma split_members s : finv s -> forall x, In x (commits s ++ addq s ++ outq s) ->
  ordered x = true /\ In x (outs (proc s)).
Proof.
  intros Hinv x Hin.
  assert (Hin' : In x (filter ordered (rev (outs (proc s))))).
  { rewrite (fi_split _ Hinv). apply in_app_or in Hin. apply in_or_app. destruct Hin as [Hin|Hin]; [left|right; exact Hin].
    apply -> in_rev. exact Hin. }
  apply filter_In in Hin' as [Hin' Ho]. split; [exact Ho|]. apply in_rev. exact Hin'.
Qed.

Lemma filter_all {A} (p : A -> bool) l : (forall x, In x l -> p x = true) -> filter p l = l.
Proof.
  induction l as [|x r IH]; intros H; cbn [filter]; [reflexivity|].
  rewrite (H x (or_introl eq_refl)), IH; [reflexivity|]. intros y Hy. apply H. right; exact Hy.
Qed.

(* ------------------------------------------------------------------------------------------- *)
(* conservation                                                                                  *)

Notation cnt := (count_occ pev_eq_dec).

(* every place an accepted event of the stream can be *)
Definition fplaces (s : fst_) : list pev :=
  commits s ++ addq s ++ outq s ++ dropped (proc s) ++ map snd (held (proc s)) ++ map fev (stack (proc s)).

Lemma cnt_filter (p : pev -> bool) l x : cnt (filter p l) x = if p x then cnt l x else 0%nat.
Proof.
  induction l as [|y r IH]; cbn [filter count_occ]; [destruct (p x); reflexivity|].
  destruct (p y) eqn:Hy; cbn [count_occ]; rewrite IH; destruct (pev_eq_dec y x) as [->|Hne]; try reflexivity.
  - rewrite Hy. reflexivity.
  - rewrite Hy. reflexivity.
Qed.

Lemma cnt_rev l x : cnt (rev l) x = cnt l x.
Proof. apply (Permutation_count_occ pev_eq_dec). apply Permutation_sym, Permutation_rev. Qed.

Lemma fplaces_cnt s : finv s -> forall e, ordered e = true -> cnt (fplaces s) e = cnt (places (proc s)) e.
Proof.
  intros Hinv e He. unfold fplaces, places.
  assert (H : cnt (outs (proc s)) e = cnt (commits s ++ addq s ++ outq s) e).
  { rewrite <- (cnt_rev (outs (proc s))).
    pose proof (cnt_filter ordered (rev (outs (proc s))) e) as Hf. rewrite He in Hf. rewrite <- Hf, (fi_split _ Hinv).
    rewrite !count_occ_app, cnt_rev. reflexivity. }
  rewrite !count_occ_app in *. lia.
Qed.

Lemma fconservation_cnt n sync ls s : frun (finit n sync) ls = Some s ->
  NoDup (ftaken ls) /\ forall e, ordered e = true -> cnt (fplaces s) e = cnt (ftaken ls) e.
Proof.
  intros H. pose proof (finv_reachable _ _ _ _ H) as Hinv. apply frun_proc in H. cbn [finit proc] in H.
  destruct (conservation_cnt _ _ _ H) as [Hnd Hc]. split; [exact Hnd|].
  intros e He. rewrite (fplaces_cnt _ Hinv e He). apply Hc; exact He.
Qed.

(* F3, permutation form *)
Lemma fconservation_perm n sync ls s : frun (finit n sync) ls = Some s ->
  Permutation (filter ordered (fplaces s)) (ftaken ls) /\ NoDup (ftaken ls).
Proof.
  intros H. destruct (fconservation_cnt _ _ _ _ H) as [Hnd Hc]. split; [|exact Hnd].
  apply (Permutation_count_occ pev_eq_dec). intros x. rewrite cnt_filter. destruct (ordered x) eqn:Hx; [auto|].
  symmetry. apply count_occ_not_In. intros Hin. apply In_ftaken in Hin. destruct Hin; congruence.
Qed.

(* F3, counting form *)
Lemma fconservation_once n sync ls s : frun (finit n sync) ls = Some s ->
  forall e, ordered e = true ->
    ((exists start, In (FProc (PTake e start)) ls) -> cnt (fplaces s) e = 1%nat) /\
    (~ (exists start, In (FProc (PTake e start)) ls) -> ~ In e (fplaces s)).
Proof.
  intros H e He. destruct (fconservation_cnt _ _ _ _ H) as [Hnd Hc]. rewrite (Hc e He). split.
  - intros Hex. assert (Hin : In e (ftaken ls)) by (apply In_ftaken; auto).
    pose proof (proj1 (NoDup_count_occ pev_eq_dec _) Hnd e). apply (count_occ_In pev_eq_dec) in Hin. lia.
  - intros Hno Hin. apply (count_occ_In pev_eq_dec) in Hin. rewrite (Hc e He) in Hin.
    apply (count_occ_In pev_eq_dec) in Hin. apply In_ftaken in Hin. tauto.
Qed.

(* at quiescence: each accepted event ended in exactly one commit or one silent drop *)
Lemma quiescent_all_accounted n sync ls s : frun (finit n sync) ls = Some s ->
  stack (proc s) = [] -> held (proc s) = [] -> outq s = [] -> addq s = [] ->
  Permutation (commits s ++ filter ordered (dropped (proc s))) (ftaken ls).
Proof.
  intros H Hst Hh Hq Ha. destruct (fconservation_perm _ _ _ _ H) as [Hp _].
  pose proof (split_members _ (finv_reachable _ _ _ _ H)) as Hm.
  unfold fplaces in Hp. rewrite Hst, Hh, Hq, Ha in Hp. cbn [map app] in Hp. rewrite app_nil_r, filter_app in Hp.
  rewrite filter_all in Hp; [exact Hp|]. intros x Hx. apply Hm. apply in_or_app; left; exact Hx.
Qed.

(* ------------------------------------------------------------------------------------------- *)
(* the commit step                                                                               *)

(* a commit takes the oldest event handed to the output and not yet committed *)
Lemma fcommit_inv s e s' : finv s -> fstep s (FCommit e) = Some s' ->
  exists x rest, pseq x = pseq e /\ commits s' = x :: commits s /\ proc s' = proc s /\
                 addq s ++ outq s = x :: rest /\ addq s' ++ outq s' = rest.
Proof.
  intros Hinv H. cbn [fstep] in H. destruct (sync_out s) eqn:Es.
  - destruct (outq s) as [|x r] eqn:Eq; [discriminate|]. destruct (pseq x =? pseq e) eqn:Ex; [|discriminate].
    inversion H; subst s'; clear H. cbn [proc outq addq commits]. exists x, r.
    rewrite (fi_sync _ Hinv Es). cbn [app]. repeat split; lia.
  - destruct (addq s) as [|x r] eqn:Eq; [discriminate|]. destruct (pseq x =? pseq e) eqn:Ex; [|discriminate].
    inversion H; subst s'; clear H. cbn [proc outq addq commits]. exists x, (r ++ outq s).
    cbn [app]. repeat split; lia.
Qed.

(* F5 *)
Lemma commit_was_handed_to_output n sync ls s e s' : frun (finit n sync) ls = Some s ->
  fstep s (FCommit e) = Some s' ->
  exists e', commits s' = e' :: commits s /\ pseq e' = pseq e /\ ordered e' = true /\ In e' (outs (proc s)).
Proof.
  intros Hrun Hc. pose proof (finv_reachable _ _ _ _ Hrun) as Hinv.
  destruct (fcommit_inv _ _ _ Hinv Hc) as [x [rest [Hx [Hcm [_ [Hq _]]]]]].
  exists x. split; [exact Hcm|]. split; [exact Hx|]. apply (split_members _ Hinv).
  apply in_or_app; right. rewrite Hq. left; reflexivity.
Qed.

Lemma committed_were_handed_to_output n sync ls s : frun (finit n sync) ls = Some s ->
  forall x, In x (commits s) -> ordered x = true /\ In x (outs (proc s)).
Proof.
  intros Hrun x Hx. apply (split_members _ (finv_reachable _ _ _ _ Hrun)). apply in_or_app; left; exact Hx.
Qed.

(* F4: the frontier *)
Lemma frontier n sync ls s e s' : frun (finit n sync) ls = Some s ->
  fstep s (FCommit e) = Some s' ->
  exists e', commits s' = e' :: commits s /\ pseq e' = pseq e /\
    forall x, In x (ftaken ls) -> pseq x < pseq e' -> In x (commits s') \/ In x (dropped (proc s')).
Proof.
  intros Hrun Hc. pose proof (finv_reachable _ _ _ _ Hrun) as Hinv.
  destruct (fcommit_inv _ _ _ Hinv Hc) as [x [rest [Hx [Hcm [Hp [Hq _]]]]]].
  exists x. split; [exact Hcm|]. split; [exact Hx|]. intros y Hy Hlt. rewrite Hcm, Hp.
  pose proof (proj1 (In_ftaken _ _) Hy) as [Hoy _].
  (* x is out *)
  destruct (split_members _ Hinv x) as [Hox Hxout]; [apply in_or_app; right; rewrite Hq; left; reflexivity|].
  (* y is in exactly the places of the processor *)
  assert (Hyp : In y (places (proc s))).
  { apply frun_proc in Hrun. cbn [finit proc] in Hrun. pose proof (conservation_perm _ _ _ Hrun) as Hperm.
    apply Permutation_sym in Hperm. apply (Permutation_in _ Hperm) in Hy. apply filter_In in Hy. tauto. }
  pose proof (split_sorted _ Hinv) as Hsorted.
  destruct Hinv as [[_ Hord] Hsplit _]. unfold ord_st in Hord.
  unfold places in Hyp. apply in_app_or in Hyp as [Hyo|Hyp].
  - (* handed to the output: before x in the history, hence committed *)
    assert (Hin : In y (filter ordered (rev (outs (proc s))))).
    { apply filter_In. split; [apply -> in_rev; exact Hyo|exact Hoy]. }
    rewrite Hsplit, Hq in Hin. apply in_app_or in Hin as [Hin|[<-|Hin]].
    + left. right. apply in_rev. exact Hin.
    + lia.
    + exfalso. rewrite Hq, map_app in Hsorted.
      apply sorted_app_r in Hsorted. cbn [map] in Hsorted. inversion Hsorted as [|? ? _ Hall]; subst.
      rewrite Forall_forall in Hall. specialize (Hall (pseq y) (in_map pseq _ _ Hin)). lia.
  - apply in_app_or in Hyp as [Hyd|Hyp]; [right; exact Hyd|]. exfalso.
    apply in_app_or in Hyp as [Hyh|Hys].
    + apply in_map_iff in Hyh as [[j y'] [Hj Hyh]]. cbn [snd] in Hj; subst y'.
      pose proof (oo_outs_held _ _ _ _ Hord x j y Hxout Hyh Hox Hoy). lia.
    + pose proof (oo_outs_stack _ _ _ _ Hord x y Hxout Hys Hox Hoy). lia.
Qed.

(* ... and therefore nowhere else *)
Lemma frontier_not_pending n sync ls s e s' : frun (finit n sync) ls = Some s ->
  fstep s (FCommit e) = Some s' ->
  exists e', commits s' = e' :: commits s /\ pseq e' = pseq e /\
    forall x, In x (ftaken ls) -> pseq x < pseq e' ->
      ~ In x (addq s' ++ outq s' ++ map snd (held (proc s')) ++ map fev (stack (proc s'))).
Proof.
  intros Hrun Hc. destruct (frontier _ _ _ _ _ _ Hrun Hc) as [x [Hcm [Hx Hf]]].
  exists x. split; [exact Hcm|]. split; [exact Hx|]. intros y Hy Hlt Hin.
  assert (Hrun' : frun (finit n sync) (ls ++ [FCommit e]) = Some s').
  { rewrite frun_app, Hrun. cbn [frun]. rewrite Hc. reflexivity. }
  pose proof (proj1 (In_ftaken _ _) Hy) as [Hoy [start Hst]].
  destruct (fconservation_once _ _ _ _ Hrun' y Hoy) as [Hone _].
  specialize (Hone ltac:(exists start; apply in_or_app; left; exact Hst)).
  unfold fplaces in Hone. rewrite !count_occ_app in Hone.
  rewrite !in_app_iff in Hin. rewrite !(count_occ_In pev_eq_dec) in Hin.
  destruct (Hf y Hy Hlt) as [H1|H1]; apply (count_occ_In pev_eq_dec) in H1; lia.
Qed.

(* ------------------------------------------------------------------------------------------- *)
(* necessity of guard F0 (added to [fstep] for these theorems): the model that accepts Batcher.Add *)
(* for a synchronous output loses the split and the frontier                                      *)

Definition fstep_noF0 (s : fst_) (l : flabel) : option fst_ :=
  match l with
  | FAdd e =>
      if negb (Model.StreamFlow.ordered e) then Some s else
      match outq s with
      | x :: r => if pseq x =? pseq e
                  then Some {| proc := proc s; outq := r; addq := addq s ++ [x]; commits := commits s; sync_out := sync_out s |}
                  else None
      | [] => None
      end
  | _ => fstep s l
  end.

Fixpoint frun_noF0 (s : fst_) (ls : list flabel) : option fst_ :=
  match ls with
  | [] => Some s
  | l :: r => match fstep_noF0 s l with Some s' => frun_noF0 s' r | None => None end
  end.

Lemma fstep_noF0_weaker s l s' : fstep s l = Some s' -> fstep_noF0 s l = Some s'.
Proof.
  destruct l as [pl|e|e]; cbn [fstep_noF0]; auto. cbn [fstep]. intros H.
  destruct (negb (Model.StreamFlow.ordered e)); [exact H|]. destruct (sync_out s); [discriminate|exact H].
Qed.

(* synchronous output, no action: e1 and e2 are handed to the output, e1 is "added", e2 is committed *)
Definition w_sync_add : list flabel :=
  [FProc (PTake (ev 1 0) 0); FProc (POut (ev 1 0)); FProc (PTake (ev 2 0) 0); FProc (POut (ev 2 0));
   FAdd (ev 1 0); FCommit (ev 2 0)].

Lemma out_history_split_noF0_refuted :
  exists n sync ls s, frun_noF0 (finit n sync) ls = Some s /\
    map pseq (filter ordered (rev (outs (proc s)))) <> map pseq (rev (commits s)) ++ map pseq (addq s) ++ map pseq (outq s).
Proof.
  exists 0, true, w_sync_add.
  destruct (frun_noF0 (finit 0 true) w_sync_add) as [s|] eqn:E; [|vm_compute in E; discriminate].
  exists s. split; [reflexivity|]. vm_compute in E. inversion E; subst s. vm_compute. discriminate.
Qed.

Lemma frontier_noF0_refuted :
  exists n sync ls s e s' x, frun_noF0 (finit n sync) ls = Some s /\ fstep_noF0 s (FCommit e) = Some s' /\
    In x (ftaken ls) /\ pseq x < pseq e /\ ~ (In x (commits s') \/ In x (dropped (proc s'))).
Proof.
  exists 0, true, (removelast w_sync_add).
  destruct (frun_noF0 (finit 0 true) (removelast w_sync_add)) as [s|] eqn:E; [|vm_compute in E; discriminate].
  exists s, (ev 2 0).
  destruct (fstep_noF0 s (FCommit (ev 2 0))) as [s'|] eqn:E2;
    [|exfalso; vm_compute in E; inversion E; subst s; vm_compute in E2; discriminate].
  exists s', (ev 1 0). split; [reflexivity|]. split; [reflexivity|].
  vm_compute in E. inversion E; subst s. vm_compute in E2. inversion E2; subst s'.
  split; [vm_compute; auto|]. split; [vm_compute; reflexivity|].
  cbn. intros [[H|[]]|[]]. discriminate H.
Qed.

(* the guarded model rejects that trace at the Add *)
Lemma F0_rejects_sync_add : frun (finit 0 true) w_sync_add = None /\
  (forall s, frun (finit 0 true) (firstn 4 w_sync_add) = Some s -> fstep s (FAdd (ev 1 0)) = None).
Proof.
  split; [vm_compute; reflexivity|]. intros s H. vm_compute in H. inversion H; subst s. vm_compute. reflexivity.
Qed.
