(* NO-WEDGE theorem of the batcher model (Model/Batcher.v): from every reachable, not stopped, not crashed
   state the heartbeat and the workers alone (no new Add, no Stop), with an output that eventually
   succeeds, can flush and commit everything that was added.

   Method: an explicit scheduler [next] (always works on the OLDEST batch in flight, then on the
   critical section / current batch), a progress lemma (the label chosen by the scheduler is enabled in
   every reachable live state and strictly decreases a natural-number measure), and the description of
   the states in which the scheduler has nothing left to do. *)
From Verif Require Import Base.Sx Model.Batcher Proofs.Batcher.
From Coq Require Import Lia ZifyBool Bool List ZArith.
Import ListNotations.
Local Open Scope Z_scope.

Definition internal (l : label) : Prop :=
  match l with LAdd _ | LStop | LPanic => False | _ => True end.

(* ------------------------------------------------------------------------------------------- *)
(* reachability                                                                                  *)

Definition reach (c : cfg) (s : st) : Prop := exists ls, run c (init c) ls = Some s.

Lemma run_app c ls1 : forall s ls2,
  run c s (ls1 ++ ls2) = match run c s ls1 with Some s1 => run c s1 ls2 | None => None end.
Proof.
  induction ls1 as [|l r IH]; intros s ls2; cbn [run app]; [reflexivity|].
  destruct (step c s l) as [s1|]; [apply IH|reflexivity].
Qed.

Lemma reach_run c s ls s' : reach c s -> run c s ls = Some s' -> reach c s'.
Proof. intros [ls0 H0] H. exists (ls0 ++ ls). rewrite run_app, H0. exact H. Qed.

Lemma reach_step c s l s' : reach c s -> step c s l = Some s' -> reach c s'.
Proof. intros Hr H. apply (reach_run c s [l] s' Hr). cbn [run]. rewrite H. reflexivity. Qed.

(* ------------------------------------------------------------------------------------------- *)
(* four more invariants of the reachable states                                                  *)

(* freeBatches never holds a negative number of batches *)
Definition inv_free (s : st) : Prop := 0 <= free s.

Lemma inv_free_step c s l s' : inv_free s -> step c s l = Some s' -> inv_free s'.
Proof. unfold inv_free. intros H0 H. destruct l; step_inv H; lia. Qed.

(* a batch in stage Queued really is in the channel (converse of wf_queue) *)
Definition inv_queued (s : st) : Prop :=
  forall b, In b (flight s) -> bstage b = Queued -> In (bseq b) (queue s).

Lemma inv_queued_step c s l s' : WF c s -> inv_queued s -> step c s l = Some s' -> inv_queued s'.
Proof.
  unfold inv_queued. intros Hwf Q H.
  destruct l; step_inv H; try exact Q;
    try solve [ intros x Hx Hq; in_upd Hx; [exact (Q _ Hx Hq)|cbn [bstage set_stage] in Hq; discriminate Hq] ].
  - (* Seal *) intros x Hx Hq. apply in_app_or in Hx. destruct Hx as [Hx|[<-|[]]]; [exact (Q _ Hx Hq)|discriminate Hq].
  - (* Push *) intros x Hx Hq. apply in_or_app. in_upd Hx; [left; exact (Q _ Hx Hq)|].
    right. left. rewrite bseq_set_stage. symmetry. exact (proj2 (find_bat_In _ _ _ Hf)).
  - (* Take *)
    match goal with Hx : existsb (Z.eqb seq) (queue s) = true |- _ =>
      apply existsb_exists in Hx; destruct Hx as (q0 & Hq0 & Heq0); apply Z.eqb_eq in Heq0; subst q0;
      destruct (wf_queue _ _ Hwf _ Hq0) as (b0 & Hf & Hst) end.
    intros x Hx Hq.
    destruct (In_upd_bat_strong _ _ _ _ _ _ _ (wf_consec _ _ Hwf) Hf Hx) as [[Hx1 Hne]| ->]; [|discriminate Hq].
    apply filter_In. split; [exact (Q _ Hx1 Hq)|]. apply negb_true_iff. apply Z.eqb_neq. exact Hne.
  - (* CommitEnd *) intros x Hx Hq. apply In_del_bat in Hx. exact (Q _ Hx Hq).
Qed.

(* position inside the commit section: an emptied batch commits nothing, another at most its events *)
Definition inv_cpos (s : st) : Prop :=
  forall b k, In b (flight s) -> bstage b = Committing k ->
    if bemptied b then k = O else (k <= length (bevs b))%nat.

Lemma inv_cpos_step c s l s' : WF c s -> inv_cpos s -> step c s l = Some s' -> inv_cpos s'.
Proof.
  unfold inv_cpos. intros Hwf Q H.
  destruct l; step_inv H; try exact Q;
    try solve [ intros x k Hx Hq; in_upd Hx; [exact (Q _ _ Hx Hq)|cbn [bstage set_stage] in Hq; discriminate Hq] ].
  - (* Seal *) intros x k Hx Hq. apply in_app_or in Hx. destruct Hx as [Hx|[<-|[]]]; [exact (Q _ _ Hx Hq)|discriminate Hq].
  - (* CommitBegin *) intros x k Hx Hq. in_upd Hx; [exact (Q _ _ Hx Hq)|].
    cbn [bstage set_stage] in Hq. inversion Hq; subst k. rewrite bemptied_set_stage, bevs_set_stage.
    destruct (bemptied b0); [reflexivity|lia].
  - (* CommitEv *) intros x k Hx Hq. in_upd Hx; [exact (Q _ _ Hx Hq)|].
    cbn [bstage set_stage] in Hq. inversion Hq; subst k. rewrite bemptied_set_stage, bevs_set_stage.
    destruct (committing_bat_Some _ _ Heqo) as [Hin _].
    pose proof (find_bat_of_In _ _ _ _ (wf_consec _ _ Hwf) Hin) as Hf1. rewrite Hf1 in Hf. inversion Hf; subst b0.
    destruct (bemptied b); [discriminate|].
    assert (Hlt : (done < length (bevs b))%nat) by (apply nth_error_Some; congruence). lia.
  - (* CommitEnd *) intros x k Hx Hq. apply In_del_bat in Hx. exact (Q _ _ Hx Hq).
Qed.

(* what onRetryError was handed is exactly the content of the sealed batch of that sequence number *)
Definition inv_failed (s : st) : Prop :=
  forall f, In f (failed_hist s) -> nth_error (rev (sealed_hist s)) (Z.to_nat (fseq f)) = Some (snd f).

Lemma inv_failed_step c s l s' : WF c s -> inv_failed s -> step c s l = Some s' -> inv_failed s'.
Proof.
  unfold inv_failed. intros Hwf Q H.
  destruct l; step_inv H; try exact Q.
  - (* Seal *) intros f Hf. cbn [rev]. apply nth_error_snoc_Some. exact (Q _ Hf).
  - (* RetryGiveUp *) intros f [<-|Hf]; [|exact (Q _ Hf)]. cbn [fseq fst snd].
    destruct (find_bat_In _ _ _ Heqo) as [Hin <-]. exact (wf_evs _ _ Hwf _ Hin).
Qed.

Record Extra (c : cfg) (s : st) : Prop := {
  ex_free : inv_free s;
  ex_queued : inv_queued s;
  ex_cpos : inv_cpos s;
  ex_failed : inv_failed s
}.

Lemma extra_reach c s : 0 <= workers c -> reach c s -> Extra c s.
Proof.
  intros Hw [ls Hr].
  apply (run_invariant_wf c (Extra c)) with (ls := ls); [| |exact Hr].
  - intros s0 l s1 Hwf [E1 E2 E3 E4] H. constructor.
    + exact (inv_free_step _ _ _ _ E1 H).
    + exact (inv_queued_step _ _ _ _ Hwf E2 H).
    + exact (inv_cpos_step _ _ _ _ Hwf E3 H).
    + exact (inv_failed_step _ _ _ _ Hwf E4 H).
  - constructor; unfold inv_free, inv_queued, inv_cpos, inv_failed; cbn; intros; try contradiction. exact Hw.
Qed.

Lemma plain_full_reach c s :
  retriable c = false -> reach c s -> forall b t ph, In b (flight s) -> bstage b = Sending t ph -> ph = PIdle.
Proof.
  intros Hret [ls Hr]. assert (Hi : inv_plain (init c)) by (split; cbn; [reflexivity|intros; contradiction]).
  exact (proj2 (run_invariant c inv_plain (fun s0 l s1 Hp => inv_plain_step c s0 l s1 Hret Hp) ls _ _ Hi Hr)).
Qed.

(* ------------------------------------------------------------------------------------------- *)
(* the scheduler                                                                                 *)

(* what the worker holding the OLDEST batch in flight does next; every call of outFn succeeds,
   a batch found after a failed call is retried unless the attempt bound forces the give-up *)
Definition head_label (c : cfg) (b : bat) : label :=
  let n := Z.of_nat (length (bevs b)) in
  let n' := if bemptied b then 0 else n in
  let st' := if bemptied b then 3 else bstatus b in
  match bstage b with
  | Pending => LPush (bseq b)
  | Queued => LTake (bseq b)
  | Taken => if has_iter (bevs b) then LOutBegin (bseq b) n else LCommitBegin (bseq b) n'
  | Sending t PIdle => if retriable c then LRetryCall (bseq b) t else LOutEnd (bseq b) n' st'
  | Sending t PCalling => LRetryResult (bseq b) t true
  | Sending t PFailed =>
      if (0 <=? retry c) && (retry c <? t) then LRetryGiveUp (bseq b) t n (deadq c) false
      else LRetryCall (bseq b) (t + 1)
  | Sending t PDone => LOutEnd (bseq b) n' st'
  | Sent => LCommitBegin (bseq b) n'
  | Committing k =>
      match (if bemptied b then None else nth_error (bevs b) k) with
      | Some e => LCommitEv e
      | None => LCommitEnd (bseq b) st'
      end
  end.

(* nothing in flight: the heartbeat finishes the open critical section, then seals what is left *)
Definition next (c : cfg) (s : st) : option label :=
  match flight s with
  | b :: _ => Some (head_label c b)
  | [] =>
      match cur s with
      | None => if deciding s then Some LFree else None
      | Some [] => if deciding s then Some (LNotReady 0 0 0 0) else None
      | Some (e :: t) =>
          if deciding s
          then let n := Z.of_nat (length (e :: t)) in
               let by_ := bytes_of (e :: t) in
               Some (LSeal (outSeq s) n (if size_ready c n by_ then 1 else 2) by_)
          else Some LTick
      end
  end.

(* the measure *)
Definition wstage (n : nat) (g : stage) : nat :=
  match g with
  | Pending => n + 9
  | Queued => n + 8
  | Taken => n + 7
  | Sending _ PIdle => n + 6
  | Sending _ PFailed => n + 5
  | Sending _ PCalling => n + 4
  | Sending _ PDone => n + 3
  | Sent => n + 2
  | Committing k => 1 + (n - k)
  end%nat.
Definition wbat (b : bat) : nat := wstage (length (bevs b)) (bstage b).
Fixpoint wflight (fl : list bat) : nat := match fl with [] => O | b :: r => (wbat b + wflight r)%nat end.
Definition wcur (s : st) : nat :=
  match cur s with
  | None => if deciding s then 2 else 0
  | Some [] => if deciding s then 1 else 0
  | Some (e :: t) => if deciding s then length (e :: t) + 10 else length (e :: t) + 11
  end%nat.
Definition measure (s : st) : nat := (wflight (flight s) + wcur s)%nat.

(* ------------------------------------------------------------------------------------------- *)
(* facts about the oldest batch                                                                  *)

Lemma head_find s b r : flight s = b :: r -> find_bat (flight s) (bseq b) = Some b.
Proof. intros ->. cbn [find_bat]. rewrite Z.eqb_refl. reflexivity. Qed.

Lemma head_lo c s b r : WF c s -> flight s = b :: r -> bseq b = lo_seq s.
Proof. intros Hwf Hfl. pose proof (wf_consec _ _ Hwf) as H. rewrite Hfl in H. cbn [map consec] in H. exact (proj1 H). Qed.

Lemma find_none_of_existsb {A} (f : A -> bool) l : existsb f l = false -> find f l = None.
Proof.
  induction l as [|x r IH]; [reflexivity|]. cbn [existsb find]. intros H. apply orb_false_iff in H.
  destruct H as [H1 H2]. rewrite H1. exact (IH H2).
Qed.

Lemma head_nocommit c s b r :
  WF c s -> flight s = b :: r -> committing b = false ->
  committing_bat (flight s) = None /\ bseq b = commitSeq s.
Proof.
  intros Hwf Hfl Hc. pose proof (wf_tail_noncommitting _ _ _ _ Hwf Hfl) as Hr.
  assert (Hex : existsb committing (flight s) = false) by (rewrite Hfl; cbn [existsb]; rewrite Hc, Hr; reflexivity).
  split.
  - unfold committing_bat. apply (find_none_of_existsb committing). exact Hex.
  - rewrite (head_lo _ _ _ _ Hwf Hfl). unfold lo_seq. rewrite Hex. lia.
Qed.

Lemma head_committing s b r k :
  flight s = b :: r -> bstage b = Committing k -> committing_bat (flight s) = Some b.
Proof. intros -> Hst. unfold committing_bat. cbn [find]. rewrite Hst. reflexivity. Qed.

Lemma filter_len_le {A} (f : A -> bool) l : (length (filter f l) <= length l)%nat.
Proof. induction l as [|x r IH]; cbn [filter length]; [lia|]. destruct (f x); cbn [length]; lia. Qed.

Lemma head_queued_busy c s b r :
  WF c s -> inv_free s -> flight s = b :: r -> bstage b = Queued -> busy_workers (flight s) < workers c.
Proof.
  intros Hwf Hfr Hfl Hst. pose proof (wf_count _ _ Hwf) as Hn. unfold inv_free in Hfr.
  rewrite Hfl in *. unfold busy_workers. cbn [filter]. rewrite Hst. cbn [length] in Hn.
  pose proof (filter_len_le (fun b0 => match bstage b0 with Pending | Queued => false | _ => true end) r) as Hle.
  unfold cur_count in Hn. destruct (cur s); lia.
Qed.

Lemma ev_eqb_refl e : ev_eqb e e = true.
Proof. unfold ev_eqb. rewrite !Z.eqb_refl. reflexivity. Qed.

(* stopped / crashed / added are not touched by an internal label taken in a live state *)
Lemma internal_live c s l s' :
  internal l -> step c s l = Some s' -> stopped s = false -> crashed s = false ->
  stopped s' = false /\ crashed s' = false /\ added s' = added s.
Proof.
  intros Hi H Hs Hc. destruct l; try contradiction; step_inv H; repeat split; congruence.
Qed.

(* ------------------------------------------------------------------------------------------- *)
(* progress: the scheduled label is internal, enabled, and decreases the measure                 *)

Ltac step_eval Hcr := unfold step; rewrite Hcr; cbv beta iota zeta.

Ltac meas Hfl Hst :=
  unfold measure, wcur; proj_simpl; rewrite Hfl; cbn [upd_bat del_bat]; rewrite ?Z.eqb_refl;
  cbn [wflight]; unfold wbat; cbn [bstage bevs set_stage]; rewrite Hst; cbn [wstage]; lia.

Ltac hd_eval Hcr Hfb Hst :=
  unfold step; rewrite Hcr; cbv beta iota zeta; rewrite Hfb; cbv beta iota; rewrite Hst; cbv beta iota.

(* the guard of the step is true: say why, then the post-state is read off *)
Ltac guard_true tac :=
  match goal with |- (if ?g then _ else _) = _ => replace g with true by (symmetry; tac) end; reflexivity.

Lemma next_progress c s l :
  0 < workers c -> reach c s -> stopped s = false -> crashed s = false -> next c s = Some l ->
  internal l /\ exists s', step c s l = Some s' /\ (measure s' < measure s)%nat.
Proof.
  intros Hw Hr Hstop Hcr Hn.
  assert (Hpl : retriable c = false -> forall b t ph, In b (flight s) -> bstage b = Sending t ph -> ph = PIdle)
    by (intros Hret; exact (plain_full_reach c s Hret Hr)).
  pose proof (extra_reach c s ltac:(lia) Hr) as [E1 E2 E3 E4].
  destruct Hr as [ls0 Hr0]. pose proof (wf_reach _ _ _ Hr0) as Hwf.
  unfold next in Hn. destruct (flight s) as [|b r] eqn:Hfl.
  - (* nothing in flight *)
    destruct (cur s) as [[|e t]|] eqn:Hcu; destruct (deciding s) eqn:Hd; try discriminate Hn; injection Hn as Hn; subst l; (split; [exact I|]).
    + (* empty current batch, open section *)
      eexists. split; [step_eval Hcr; rewrite Hcu, Hd; cbn; reflexivity|].
      unfold measure, wcur. cbn. rewrite Hfl, Hcu, Hd. cbn. lia.
    + (* non-empty current batch, open section: seal it (max size or time-out) *)
      eexists. split.
      * step_eval Hcr. rewrite Hcu, Hd, !Z.eqb_refl.
        match goal with |- context [if size_ready ?a ?x ?y then ?p =? 1 else ?q] =>
          replace (if size_ready a x y then p =? 1 else q) with true by (destruct (size_ready a x y); reflexivity) end.
        reflexivity.
      * unfold measure, wcur. proj_simpl. rewrite Hfl, Hcu, Hd. cbn [app wflight]. unfold wbat. cbn [bstage bevs wstage].
        rewrite rev_append_rev, app_nil_r, rev_length. cbn [length]. lia.
    + (* non-empty current batch, no open section: the heartbeat ticks *)
      eexists. split; [step_eval Hcr; rewrite Hstop, Hd; reflexivity|].
      unfold measure, wcur. proj_simpl. rewrite Hfl, Hcu, Hd. cbn [length]. lia.
    + (* no current batch, open section: getBatch *)
      pose proof (wf_count _ _ Hwf) as Hcnt. unfold cur_count in Hcnt. rewrite Hfl, Hcu in Hcnt. cbn [length] in Hcnt.
      eexists. split; [step_eval Hcr; rewrite Hcu; replace (0 <? free s) with true by lia; reflexivity|].
      unfold measure, wcur. proj_simpl. rewrite Hfl, Hcu, Hd. cbn [wflight]. lia.
  - (* the oldest batch in flight *)
    injection Hn as Hn. subst l.
    pose proof (head_find _ _ _ Hfl) as Hfb.
    assert (Hinb : In b (flight s)) by (rewrite Hfl; left; reflexivity).
    assert (Hret : forall t ph, bstage b = Sending t ph -> ph <> PIdle -> retriable c = true).
    { intros t ph Hs Hne. destruct (retriable c) eqn:E; [reflexivity|]. exfalso. apply Hne.
      apply (Hpl eq_refl b t ph); [left; reflexivity|exact Hs]. }
    unfold head_label. destruct (bstage b) as [| | |t ph| |k] eqn:Hst.
    + (* Pending: send into the channel *)
      split; [exact I|]. eexists. split; [hd_eval Hcr Hfb Hst; rewrite Hstop; reflexivity|meas Hfl Hst].
    + (* Queued: a worker is idle and receives it *)
      split; [exact I|].
      assert (Hq : existsb (Z.eqb (bseq b)) (queue s) = true).
      { apply existsb_exists. exists (bseq b). split; [exact (E2 _ Hinb Hst)|apply Z.eqb_refl]. }
      pose proof (head_queued_busy _ _ _ _ Hwf E1 Hfl Hst) as Hbusy.
      eexists. split.
      { step_eval Hcr. rewrite Hq. replace (busy_workers (flight s) <? workers c) with true by lia. reflexivity. }
      meas Hfl Hst.
    + (* Taken *)
      destruct (has_iter (bevs b)) eqn:Hhi; (split; [exact I|]).
      * eexists. split; [hd_eval Hcr Hfb Hst; rewrite Hhi, Z.eqb_refl; reflexivity|meas Hfl Hst].
      * (* no iterable event: OutFn is skipped, straight into the commit section *)
        assert (Hnc : committing b = false) by (unfold committing; rewrite Hst; reflexivity).
        destruct (head_nocommit _ _ _ _ Hwf Hfl Hnc) as [Hcb Hseq].
        eexists. split.
        { unfold step. rewrite Hcr. cbv beta iota zeta. rewrite Hfb. cbv beta iota. rewrite Hcb. cbv beta iota.
          rewrite Hst. cbv beta iota. rewrite Hhi, Z.eqb_refl.
          replace (bseq b =? commitSeq s) with true by lia. reflexivity. }
        meas Hfl Hst.
    + destruct ph.
      * (* Sending, before a call *)
        destruct (retriable c) eqn:Hre; (split; [exact I|]); eexists; split.
        -- hd_eval Hcr Hfb Hst. rewrite Hre, Z.eqb_refl. reflexivity.
        -- meas Hfl Hst.
        -- hd_eval Hcr Hfb Hst. guard_true ltac:(rewrite Hre; destruct (bemptied b); rewrite ?Z.eqb_refl; reflexivity).
        -- meas Hfl Hst.
      * (* inside outFn: it succeeds *)
        split; [exact I|]. eexists. split; [hd_eval Hcr Hfb Hst; rewrite Z.eqb_refl; reflexivity|meas Hfl Hst].
      * (* after a failed call *)
        pose proof (Hret _ _ eq_refl ltac:(discriminate)) as Hre.
        destruct ((0 <=? retry c) && (retry c <? t)) eqn:Hgu; (split; [exact I|]); eexists; split.
        -- hd_eval Hcr Hfb Hst. rewrite Hgu, !Z.eqb_refl, Bool.eqb_reflx. reflexivity.
        -- meas Hfl Hst.
        -- hd_eval Hcr Hfb Hst. rewrite Hre, Hgu, Z.eqb_refl. reflexivity.
        -- meas Hfl Hst.
      * (* the retry frame is done *)
        pose proof (Hret _ _ eq_refl ltac:(discriminate)) as Hre.
        split; [exact I|]. eexists. split.
        { hd_eval Hcr Hfb Hst. guard_true ltac:(rewrite Hre; destruct (bemptied b); rewrite ?Z.eqb_refl; reflexivity). }
        meas Hfl Hst.
    + (* Sent: it is the batch the commit order waits for *)
      split; [exact I|].
      assert (Hnc : committing b = false) by (unfold committing; rewrite Hst; reflexivity).
      destruct (head_nocommit _ _ _ _ Hwf Hfl Hnc) as [Hcb Hseq].
      eexists. split.
      { unfold step. rewrite Hcr. cbv beta iota zeta. rewrite Hfb. cbv beta iota. rewrite Hcb. cbv beta iota.
        rewrite Hst. cbv beta iota. rewrite Z.eqb_refl.
        replace (bseq b =? commitSeq s) with true by lia. reflexivity. }
      meas Hfl Hst.
    + (* inside the commit section *)
      pose proof (head_committing _ _ _ _ Hfl Hst) as Hcb.
      destruct (if bemptied b then None else nth_error (bevs b) k) as [e|] eqn:Hnth; (split; [exact I|]).
      * assert (Hlt : (k < length (bevs b))%nat).
        { destruct (bemptied b); [discriminate Hnth|]. apply nth_error_Some. congruence. }
        eexists. split.
        { unfold step. rewrite Hcr. cbv beta iota zeta. rewrite Hcb. cbv beta iota. rewrite Hst. cbv beta iota.
          rewrite Hnth. cbv beta iota. rewrite ev_eqb_refl. reflexivity. }
        meas Hfl Hst.
      * assert (Hg : (Z.of_nat k =? (if bemptied b then 0 else Z.of_nat (length (bevs b)))) = true).
        { pose proof (E3 _ _ Hinb Hst) as Hk. revert Hk Hnth.
          destruct (bemptied b); intros Hk Hnth; [subst k; reflexivity|apply nth_error_None in Hnth; lia]. }
        eexists. split.
        { hd_eval Hcr Hfb Hst. rewrite Hg, Z.eqb_refl. reflexivity. }
        meas Hfl Hst.
Qed.

(* ------------------------------------------------------------------------------------------- *)
(* running the scheduler until it has nothing left to do                                         *)

Lemma drain_loop c : 0 < workers c ->
  forall n s, (measure s < n)%nat -> reach c s -> stopped s = false -> crashed s = false ->
  exists ls' s', Forall internal ls' /\ run c s ls' = Some s' /\ next c s' = None /\
                 stopped s' = false /\ crashed s' = false /\ added s' = added s.
Proof.
  intros Hw n. induction n as [|n IH]; intros s Hm Hr Hstop Hcr; [lia|].
  destruct (next c s) as [l|] eqn:Hn.
  - destruct (next_progress c s l Hw Hr Hstop Hcr Hn) as (Hi & s1 & Hs1 & Hlt).
    destruct (internal_live c s l s1 Hi Hs1 Hstop Hcr) as (Hstop1 & Hcr1 & Hadd1).
    destruct (IH s1 ltac:(lia) (reach_step c s l s1 Hr Hs1) Hstop1 Hcr1)
      as (ls' & s' & Hint & Hrun & Hnx & Hstop' & Hcr' & Hadd').
    exists (l :: ls'), s'. split; [constructor; assumption|]. split; [cbn [run]; rewrite Hs1; exact Hrun|].
    split; [exact Hnx|]. split; [exact Hstop'|]. split; [exact Hcr'|congruence].
  - exists [], s. split; [constructor|]. split; [reflexivity|]. repeat split; assumption.
Qed.

(* the states in which the scheduler rests *)
Lemma next_none c s :
  next c s = None -> flight s = [] /\ deciding s = false /\ cur_list s = [].
Proof.
  unfold next, cur_list. destruct (flight s) as [|b r]; [|discriminate].
  destruct (cur s) as [[|e t]|]; destruct (deciding s); try discriminate; intros _; repeat split; reflexivity.
Qed.

Lemma In_concat_eff em e L : forall i,
  In e (concat L) ->
  In e (eff_concat em i L) \/ exists k B, nth_error L k = Some B /\ In e B /\ em (i + Z.of_nat k) = true.
Proof.
  induction L as [|B L' IH]; intros i Hin; cbn [concat eff_concat] in *; [contradiction|].
  apply in_app_or in Hin. destruct Hin as [Hin|Hin].
  - destruct (em i) eqn:Ei.
    + right. exists O, B. split; [reflexivity|]. split; [exact Hin|]. replace (i + Z.of_nat 0) with i by lia. exact Ei.
    + left. apply in_or_app. left. exact Hin.
  - destruct (IH (i + 1) Hin) as [H|(k & B' & Hk & HB & He)].
    + left. apply in_or_app. right. exact H.
    + right. exists (S k), B'. split; [exact Hk|]. split; [exact HB|].
      replace (i + Z.of_nat (S k)) with (i + 1 + Z.of_nat k) by lia. exact He.
Qed.

(* a quiescent reachable state: everything added is committed or was handed to onRetryError *)
Lemma quiescent_all_accounted c s :
  0 <= workers c -> reach c s -> flight s = [] -> cur_list s = [] ->
  queue s = [] /\ commitSeq s = outSeq s /\
  forall e, In e (added s) -> In e (committed s) \/ exists f, In f (failed_hist s) /\ In e (snd f).
Proof.
  intros Hw Hr Hfl Hcu. pose proof (extra_reach c s Hw Hr) as [_ _ _ E4]. destruct Hr as [ls Hr].
  pose proof (wf_reach _ _ _ Hr) as Hwf. destruct (shape_reach _ _ _ Hr) as (_ & _ & J3).
  pose proof (added_is_sealed_plus_current _ _ _ Hr) as Hadd.
  pose proof (wf_consec _ _ Hwf) as Hcs. pose proof (wf_len _ _ Hwf) as Hlen.
  assert (Hlo : lo_seq s = commitSeq s) by (unfold lo_seq; rewrite Hfl; cbn [existsb]; lia).
  rewrite Hfl in Hcs. cbn [map consec] in Hcs.
  split; [|split; [lia|]].
  - destruct (queue s) as [|q qs] eqn:Hq; [reflexivity|]. exfalso.
    destruct (wf_queue _ _ Hwf q) as (b & Hb & _); [rewrite Hq; left; reflexivity|]. rewrite Hfl in Hb. discriminate Hb.
  - intros e He. apply in_rev in He. rewrite Hadd, Hcu in He. cbn [rev] in He. rewrite app_nil_r in He.
    rewrite Hfl in J3. cbn [partial_of] in J3. rewrite app_nil_r in J3.
    replace (Z.to_nat (lo_seq s)) with (length (rev (sealed_hist s))) in J3 by (rewrite rev_length; lia).
    rewrite firstn_all in J3.
    destruct (In_concat_eff (emptied c s) e _ 0 He) as [H|(k & B & Hk & HB & Hem)].
    + left. apply in_rev. rewrite J3. exact H.
    + right. unfold emptied in Hem. apply andb_true_iff in Hem. destruct Hem as [_ Hem].
      apply existsb_exists in Hem. destruct Hem as (f & Hf & Hfk). apply Z.eqb_eq in Hfk.
      exists f. split; [exact Hf|]. pose proof (E4 _ Hf) as Hnth.
      replace (Z.to_nat (fseq f)) with k in Hnth by lia. rewrite Hk in Hnth. inversion Hnth; subst B. exact HB.
Qed.

(* ------------------------------------------------------------------------------------------- *)
(* the theorem                                                                                   *)

Lemma drain_core c ls s :
  0 < workers c -> run c (init c) ls = Some s -> stopped s = false -> crashed s = false ->
  exists ls' s', Forall internal ls' /\ run c s ls' = Some s' /\ run c (init c) (ls ++ ls') = Some s' /\
    stopped s' = false /\ crashed s' = false /\ added s' = added s /\
    flight s' = [] /\ queue s' = [] /\ deciding s' = false /\ cur_list s' = [] /\ commitSeq s' = outSeq s' /\
    (forall e, In e (added s') -> In e (committed s') \/ exists f, In f (failed_hist s') /\ In e (snd f)).
Proof.
  intros Hw Hr Hstop Hcr.
  assert (Hreach : reach c s) by (exists ls; exact Hr).
  destruct (drain_loop c Hw (S (measure s)) s ltac:(lia) Hreach Hstop Hcr)
    as (ls' & s' & Hint & Hrun & Hnx & Hstop' & Hcr' & Hadd').
  destruct (next_none c s' Hnx) as (Hfl & Hdec & Hcu).
  assert (Hr' : run c (init c) (ls ++ ls') = Some s') by (rewrite run_app, Hr; exact Hrun).
  destruct (quiescent_all_accounted c s' ltac:(lia) (ex_intro _ _ Hr') Hfl Hcu) as (Hq & Hseq & Hall).
  exists ls', s'. repeat (split; [assumption|]). exact Hall.
Qed.

Theorem batcher_can_always_drain :
  forall c ls s, 0 < workers c ->
    run c (init c) ls = Some s -> stopped s = false -> crashed s = false ->
    exists ls' s', Forall internal ls' /\ run c s ls' = Some s' /\
      crashed s' = false /\ flight s' = [] /\ queue s' = [] /\ deciding s' = false /\
      cur_list s' = [] /\ commitSeq s' = outSeq s' /\
      (forall e, In e (added s') -> In e (committed s') \/ exists f, In f (failed_hist s') /\ In e (snd f)).
Proof.
  intros c ls s Hw Hr Hstop Hcr.
  destruct (drain_core c ls s Hw Hr Hstop Hcr)
    as (ls' & s' & Hint & Hrun & _ & _ & Hcr' & _ & Hfl & Hq & Hdec & Hcu & Hseq & Hall).
  exists ls', s'. repeat (split; [assumption|]). exact Hall.
Qed.

(* the drain adds nothing and does not stop the batcher: what is accounted for is exactly what had
   been added before it *)
Theorem batcher_can_always_drain_strong :
  forall c ls s, 0 < workers c ->
    run c (init c) ls = Some s -> stopped s = false -> crashed s = false ->
    exists ls' s', Forall internal ls' /\ run c s ls' = Some s' /\
      stopped s' = false /\ crashed s' = false /\ added s' = added s /\
      flight s' = [] /\ queue s' = [] /\ deciding s' = false /\ cur_list s' = [] /\ commitSeq s' = outSeq s' /\
      (forall e, In e (added s) -> In e (committed s') \/ exists f, In f (failed_hist s') /\ In e (snd f)).
Proof.
  intros c ls s Hw Hr Hstop Hcr.
  destruct (drain_core c ls s Hw Hr Hstop Hcr)
    as (ls' & s' & Hint & Hrun & _ & Hstop' & Hcr' & Hadd & Hfl & Hq & Hdec & Hcu & Hseq & Hall).
  exists ls', s'. repeat (split; [assumption|]). rewrite <- Hadd. exact Hall.
Qed.

(* no dead queue in play: the drained state has committed exactly what was added, in order *)
Corollary batcher_drain_exactly_once :
  forall c ls s, 0 < workers c -> (retriable c = false \/ deadq c = false) ->
    run c (init c) ls = Some s -> stopped s = false -> crashed s = false ->
    exists ls' s', Forall internal ls' /\ run c s ls' = Some s' /\
      crashed s' = false /\ flight s' = [] /\ queue s' = [] /\ deciding s' = false /\
      cur_list s' = [] /\ commitSeq s' = outSeq s' /\ added s' = added s /\
      rev (committed s') = rev (added s').
Proof.
  intros c ls s Hw Hc Hr Hstop Hcr.
  destruct (drain_core c ls s Hw Hr Hstop Hcr)
    as (ls' & s' & Hint & Hrun & Hr' & _ & Hcr' & Hadd & Hfl & Hq & Hdec & Hcu & Hseq & _).
  exists ls', s'. repeat (split; [assumption|]).
  exact (exactly_once_at_quiescence c (ls ++ ls') s' Hc Hr' Hfl Hcu).
Qed.

(* ------------------------------------------------------------------------------------------- *)
(* non-vacuity                                                                                   *)

(* the scheduler as a program: the labels it emits with a given fuel *)
Fixpoint sched (c : cfg) (fuel : nat) (s : st) : list label :=
  match fuel with
  | O => []
  | S k => match next c s with
           | Some l => match step c s l with Some s' => l :: sched c k s' | None => [] end
           | None => []
           end
  end.

Definition mkev (i : Z) : ev := {| eid := i; esrc := 0; esize := 1; ekind := 0 |}.

(* A. three batch objects, retry frame with one retry allowed, no dead queue.
   Reached state: batch 0 inside OutFn after a FAILED call (Sending 0 PFailed), batch 1 sealed and
   queued, current batch [e5] with the critical section of its Add still open (deciding = true). *)
Definition cfgA : cfg :=
  {| workers := 3; maxCount := 2; maxBytes := 0; retriable := true; retry := 1; deadq := false; atomic_push := true |}.
Definition traceA : list label :=
  [LFree; LAdd (mkev 1); LNotReady 1 1 0 1; LAdd (mkev 2); LSeal 0 2 1 2; LPush 0; LTake 0; LOutBegin 0 2;
   LRetryCall 0 0; LRetryResult 0 0 false;
   LFree; LAdd (mkev 3); LNotReady 1 1 0 1; LAdd (mkev 4); LSeal 1 2 1 2; LPush 1;
   LFree; LAdd (mkev 5)].
Definition drainA : list label :=
  [LRetryCall 0 1; LRetryResult 0 1 true; LOutEnd 0 2 1; LCommitBegin 0 2; LCommitEv (mkev 1); LCommitEv (mkev 2);
   LCommitEnd 0 1;
   LTake 1; LOutBegin 1 2; LRetryCall 1 0; LRetryResult 1 0 true; LOutEnd 1 2 1; LCommitBegin 1 2;
   LCommitEv (mkev 3); LCommitEv (mkev 4); LCommitEnd 1 1;
   LSeal 2 1 2 1; LPush 2; LTake 2; LOutBegin 2 1; LRetryCall 2 0; LRetryResult 2 0 true; LOutEnd 2 1 2;
   LCommitBegin 2 1; LCommitEv (mkev 5); LCommitEnd 2 2].

Example drain_nonvacuous :
  exists s s',
    run cfgA (init cfgA) traceA = Some s /\
    map bstage (flight s) = [Sending 0 PFailed; Queued] /\ queue s = [1] /\
    cur s = Some [mkev 5] /\ deciding s = true /\ free s = 0 /\ stopped s = false /\ crashed s = false /\
    Forall internal drainA /\ run cfgA s drainA = Some s' /\
    crashed s' = false /\ flight s' = [] /\ queue s' = [] /\ deciding s' = false /\ cur_list s' = [] /\
    commitSeq s' = outSeq s' /\ added s' = added s /\
    rev (committed s') = [mkev 1; mkev 2; mkev 3; mkev 4; mkev 5] /\
    sched cfgA 100 s = drainA.
Proof.
  eexists. eexists. split; [vm_compute; reflexivity|].
  do 7 (split; [vm_compute; reflexivity|]).
  split; [repeat constructor|].
  split; [vm_compute; reflexivity|].
  repeat split; vm_compute; reflexivity.
Qed.

(* the same with a give-up: no retry allowed and a dead queue, the failed batch 0 is handed to
   onRetryError and commits nothing, the rest is committed *)
Definition cfgA' : cfg :=
  {| workers := 3; maxCount := 2; maxBytes := 0; retriable := true; retry := 0; deadq := true; atomic_push := true |}.
Definition traceA' : list label :=
  [LFree; LAdd (mkev 1); LNotReady 1 1 0 1; LAdd (mkev 2); LSeal 0 2 1 2; LPush 0; LTake 0; LOutBegin 0 2;
   LRetryCall 0 0; LRetryResult 0 0 false; LRetryCall 0 1; LRetryResult 0 1 false;
   LFree; LAdd (mkev 3); LNotReady 1 1 0 1; LAdd (mkev 4); LSeal 1 2 1 2; LPush 1;
   LFree; LAdd (mkev 5)].
Definition drainA' : list label :=
  [LRetryGiveUp 0 1 2 true false; LOutEnd 0 0 3; LCommitBegin 0 0; LCommitEnd 0 3;
   LTake 1; LOutBegin 1 2; LRetryCall 1 0; LRetryResult 1 0 true; LOutEnd 1 2 1; LCommitBegin 1 2;
   LCommitEv (mkev 3); LCommitEv (mkev 4); LCommitEnd 1 1;
   LSeal 2 1 2 1; LPush 2; LTake 2; LOutBegin 2 1; LRetryCall 2 0; LRetryResult 2 0 true; LOutEnd 2 1 2;
   LCommitBegin 2 1; LCommitEv (mkev 5); LCommitEnd 2 2].

Example drain_nonvacuous_giveup :
  exists s s',
    run cfgA' (init cfgA') traceA' = Some s /\
    map bstage (flight s) = [Sending 1 PFailed; Queued] /\ cur s = Some [mkev 5] /\ deciding s = true /\
    stopped s = false /\ crashed s = false /\
    Forall internal drainA' /\ run cfgA' s drainA' = Some s' /\
    flight s' = [] /\ queue s' = [] /\ deciding s' = false /\ cur_list s' = [] /\ commitSeq s' = outSeq s' /\
    rev (committed s') = [mkev 3; mkev 4; mkev 5] /\
    failed_hist s' = [(0, 1, false, [mkev 1; mkev 2])] /\
    sched cfgA' 100 s = drainA'.
Proof.
  eexists. eexists. split; [vm_compute; reflexivity|].
  do 5 (split; [vm_compute; reflexivity|]).
  split; [repeat constructor|].
  split; [vm_compute; reflexivity|].
  repeat split; vm_compute; reflexivity.
Qed.

(* B. two batch objects: both in flight (one inside OutFn, one queued), and the heartbeat sits inside
   its critical section waiting in getBatch (deciding = true, no current batch, no free batch).
   The workers free a batch, the heartbeat takes it and closes the section with NotReady. *)
Definition cfgB : cfg :=
  {| workers := 2; maxCount := 1; maxBytes := 0; retriable := false; retry := 0; deadq := false; atomic_push := true |}.
Definition traceB : list label :=
  [LFree; LAdd (mkev 1); LSeal 0 1 1 1; LPush 0; LTake 0; LOutBegin 0 1;
   LFree; LAdd (mkev 2); LSeal 1 1 1 1; LPush 1; LTick].
Definition drainB : list label :=
  [LOutEnd 0 1 1; LCommitBegin 0 1; LCommitEv (mkev 1); LCommitEnd 0 1;
   LTake 1; LOutBegin 1 1; LOutEnd 1 1 1; LCommitBegin 1 1; LCommitEv (mkev 2); LCommitEnd 1 1;
   LFree; LNotReady 0 0 0 0].

Example drain_nonvacuous_two_workers :
  exists s s',
    run cfgB (init cfgB) traceB = Some s /\
    map bstage (flight s) = [Sending 0 PIdle; Queued] /\ cur s = None /\ deciding s = true /\ free s = 0 /\
    stopped s = false /\ crashed s = false /\
    Forall internal drainB /\ run cfgB s drainB = Some s' /\
    flight s' = [] /\ queue s' = [] /\ deciding s' = false /\ cur_list s' = [] /\ commitSeq s' = outSeq s' /\
    rev (committed s') = [mkev 1; mkev 2] /\
    sched cfgB 100 s = drainB.
Proof.
  eexists. eexists. split; [vm_compute; reflexivity|].
  do 6 (split; [vm_compute; reflexivity|]).
  split; [repeat constructor|].
  split; [vm_compute; reflexivity|].
  repeat split; vm_compute; reflexivity.
Qed.

(* with TWO batch objects the state "one batch in OutFn + one queued + a current batch" does not exist:
   two batches in flight leave no batch object for a current one (that is why example A has three) *)
Lemma two_in_flight_no_current c ls s :
  workers c = 2 -> run c (init c) ls = Some s -> (2 <= length (flight s))%nat -> cur s = None /\ free s = 0.
Proof.
  intros Hw Hr Hlen. pose proof (wf_count _ _ (wf_reach _ _ _ Hr)) as Hn.
  destruct (extra_reach c s ltac:(lia) (ex_intro _ ls Hr)) as [E1 _ _ _]. unfold inv_free in E1.
  unfold cur_count in Hn. destruct (cur s); [lia|]. split; [reflexivity|lia].
Qed.

Print Assumptions batcher_can_always_drain_strong.
Print Assumptions batcher_drain_exactly_once.
Print Assumptions drain_nonvacuous.
Print Assumptions batcher_can_always_drain.
