(* Proofs about monitor 18 of Model/C10Entry.v (frontier clause for commit notifications outside the output path) *)
From Coq Require Import ZArith List Bool Lia.
From Verif Require Import Base.Sx Model.PipeGlue Model.C10Entry.
Import ListNotations.
Open Scope Z_scope.

(* monitor 18 never asks more than the frontier clause itself (monitor 8) *)
Lemma direct_frontier_weaker :
  forall es fin accepted key_of outs,
    m_source_frontier es fin accepted key_of = true -> m_direct_frontier es fin accepted key_of outs = true.
Proof.
  induction es as [|e r IH]; intros fin accepted key_of outs H; [reflexivity|].
  cbn [m_source_frontier] in H. cbn [m_direct_frontier].
  destruct (is_k 2 20 e && (pd e =? 0)) eqn:E1; [now apply IH|].
  destruct (is_k 3 32 e) eqn:E2.
  - assert (K : pk e = 32) by (unfold is_k in E2; apply andb_true_iff in E2; lia).
    assert (N1 : is_k 4 33 e = false) by (unfold is_k; apply andb_false_iff; right; lia).
    assert (N2 : is_k 4 38 e = false) by (unfold is_k; apply andb_false_iff; right; lia).
    rewrite N1, N2 in H. cbn [andb] in H. now apply IH.
  - destruct (is_k 4 33 e && (pc e =? 2) && ((pd e =? 0) || (pd e =? 2))) eqn:E3.
    + destruct (find (fun kv => key_eqb (fst kv) (pa e, pb e)) key_of); now apply IH.
    + destruct (is_k 4 38 e) eqn:E4; [|now apply IH].
      apply andb_true_iff in H. destruct H as [Ha Hb].
      rewrite Ha, orb_true_r. cbn [andb]. now apply IH.
Qed.

(* what monitor 18 says at a commit notification: the record went through the output, or every accepted record of its
   source with a smaller offset is finished *)
Lemma direct_frontier_commit :
  forall e r fin accepted key_of outs,
    is_k 4 38 e = true ->
    m_direct_frontier (e :: r) fin accepted key_of outs = true ->
    (mem_key (pa e, pb e) outs = true \/
     forall k, In k accepted -> fst k = pd e -> snd k < pc e -> mem_key k fin = true) /\
    m_direct_frontier r ((pd e, pc e) :: fin) accepted key_of outs = true.
Proof.
  intros e r fin accepted key_of outs K H.
  assert (P : pk e = 38) by (unfold is_k in K; apply andb_true_iff in K; lia).
  assert (N0 : is_k 2 20 e = false) by (unfold is_k; apply andb_false_iff; right; lia).
  assert (N1 : is_k 3 32 e = false) by (unfold is_k; apply andb_false_iff; right; lia).
  assert (N2 : is_k 4 33 e = false) by (unfold is_k; apply andb_false_iff; right; lia).
  cbn [m_direct_frontier] in H. rewrite N0, N1, N2, K in H. cbn [andb] in H.
  apply andb_true_iff in H. destruct H as [Ha Hb]. split; [|exact Hb].
  apply orb_true_iff in Ha. destruct Ha as [Ha|Ha]; [now left|right].
  intros k Hin Hs Ho. rewrite forallb_forall in Ha. specialize (Ha k Hin).
  apply orb_true_iff in Ha. destruct Ha as [Ha|Ha]; [|exact Ha].
  apply orb_true_iff in Ha. destruct Ha as [Ha|Ha]; apply negb_true_iff in Ha; lia.
Qed.
