(* C09, sub-model which = 2 (Model/C09Route.v): the specification of "which way a batch goes" sends every event exactly one
   way, for every plugin kind, every configuration and every answer history. *)
From Verif Require Import Base.Sx Model.C09Route.
From Coq Require Import List ZArith Bool Lia.
Import ListNotations.
Local Open Scope Z_scope.

Definition given_up (w : way) : Prop := w = WDead \/ w = WErr.

(* what the retry loop guarantees about one batch *)
Definition batch_ok (c : rcfg) (wt : way * nat) : Prop :=
  (fst wt = WDead -> dq c = true) /\
  (fst wt = WErr -> dq c = false) /\
  (given_up (fst wt) -> 0 <= retry c /\ Z.of_nat (snd wt) = retry c + 1).

Lemma batch_loop_way :
  forall fuel c t0 s r w t r' s',
    batch_loop fuel c t0 s r = Some (w, t, r', s') ->
    (t0 <= t)%nat /\
    (w = WDead -> dq c = true) /\ (w = WErr -> dq c = false) /\
    (given_up w -> 0 <= retry c /\ retry c < Z.of_nat t) /\
    (given_up w -> Z.of_nat t0 <= retry c + 1 -> Z.of_nat t = retry c + 1).
Proof.
  induction fuel as [|f IH]; intros c t0 s r w t r' s' H; [discriminate|].
  cbn [batch_loop] in H.
  destruct (attempt c s) as [[[cl n] s1]|]; [|discriminate].
  destruct cl.
  - inversion H; subst.
    split; [lia|]. split; [discriminate|]. split; [discriminate|].
    split; intros [E|E]; discriminate.
  - inversion H; subst.
    split; [lia|]. split; [discriminate|]. split; [discriminate|].
    split; intros [E|E]; discriminate.
  - destruct ((0 <=? retry c) && (retry c <? Z.of_nat t0)) eqn:G.
    + apply andb_true_iff in G. destruct G as [G1 G2].
      apply Z.leb_le in G1. apply Z.ltb_lt in G2.
      inversion H; subst.
      split; [lia|].
      split; [intros E; destruct (dq c); [reflexivity|discriminate]|].
      split; [intros E; destruct (dq c); [discriminate|reflexivity]|].
      split; [intros _; split; assumption|intros _ T0; lia].
    + specialize (IH c (S t0) s1 (r + n)%nat w t r' s' H).
      destruct IH as (Hle & Hd & He & Hg & Hx).
      split; [lia|]. split; [assumption|]. split; [assumption|]. split; [assumption|].
      intros Hw Ht0. destruct (Hg Hw) as [R0 _].
      apply Hx; [assumption|].
      apply andb_false_iff in G. destruct G as [G|G].
      * apply Z.leb_gt in G. lia.
      * apply Z.ltb_ge in G. lia.
Qed.

Lemma batches_ok :
  forall nb c s r ws r',
    batches nb c s r = Some (ws, r') -> length ws = nb /\ Forall (batch_ok c) ws.
Proof.
  induction nb as [|nb IH]; intros c s r ws r' H; cbn [batches] in H.
  - inversion H; subst. split; [reflexivity|constructor].
  - destruct (batch_loop (batch_fuel c s) c 0 s r) as [[[[w t] r1] s1]|] eqn:B; [|discriminate].
    destruct (batches nb c s1 r1) as [[ws1 r2]|] eqn:R; [|discriminate].
    inversion H; subst.
    destruct (IH _ _ _ _ _ R) as [L F].
    apply batch_loop_way in B. destruct B as (_ & Hd & He & Hg & Hx).
    split; [cbn; now rewrite L|].
    constructor; [|assumption].
    unfold batch_ok; cbn [fst snd]. repeat split; try assumption.
    + apply Hg; assumption.
    + apply Hx; [assumption|]. destruct (Hg H0) as [R0 _]. cbn. lia.
Qed.

(* ---- every event is committed exactly once, by exactly one path ------------------------------------------------ *)
Theorem route_each_event_exactly_once :
  forall c s ws reqs,
    batches (nbatch c) c s 0 = Some (ws, reqs) ->
    length ws = nbatch c /\
    Forall (fun wt => let '(m, h, d) := ev_obs (fst wt) in
                      m + d = 1 /\ (m = 0 \/ d = 0) /\ h = d /\ (d = 1 -> dq c = true)) ws.
Proof.
  intros c s ws reqs H. apply batches_ok in H. destruct H as [L F].
  split; [assumption|].
  eapply Forall_impl; [|exact F].
  intros [w t] (Hd & _ & _). cbn [fst] in *.
  destruct w; cbn [ev_obs]; repeat split; try lia; try (right; lia); try (left; lia);
    intros; try lia; auto.
Qed.

(* ---- a batch is given up only after the configured retries, into the dead queue iff there is one --------------- *)
Theorem route_given_up_only_after_retries :
  forall c s ws reqs w t,
    batches (nbatch c) c s 0 = Some (ws, reqs) -> In (w, t) ws -> w = WDead \/ w = WErr ->
    0 <= retry c /\ Z.of_nat t = retry c + 1 /\ (w = WDead <-> dq c = true).
Proof.
  intros c s ws reqs w t H I G. apply batches_ok in H. destruct H as [_ F].
  rewrite Forall_forall in F. specialize (F _ I). destruct F as (Hd & He & Hg). cbn [fst snd] in *.
  destruct (Hg G) as [R0 T].
  split; [assumption|]. split; [assumption|]. split; [exact Hd|].
  intros D. destruct G as [G|G]; [assumption|]. rewrite (He G) in D. discriminate.
Qed.

(* ---- with a dead queue (and without `strict`) nothing is fatal ------------------------------------------------- *)
Lemma sumZ_fatal_nonneg : forall c ws, 0 <= sumZ (map (fun wt : way * nat => fatal_of c (fst wt)) ws).
Proof.
  intros c ws. induction ws as [|[w t] ws IH]; cbn [map sumZ fst]; [lia|].
  assert (0 <= fatal_of c w) by (destruct w; cbn; try lia; [destruct (strict_on c)|destruct (fatal c)]; lia).
  lia.
Qed.

Theorem route_no_fatal_with_dead_queue :
  forall c s ws reqs,
    batches (nbatch c) c s 0 = Some (ws, reqs) -> dq c = true -> strict_on c = false ->
    sumZ (map (fun wt : way * nat => fatal_of c (fst wt)) ws) = 0.
Proof.
  intros c s ws reqs H D S. apply batches_ok in H. destruct H as [_ F].
  induction F as [|[w t] ws Hx F IH]; cbn [map sumZ fst]; [reflexivity|].
  rewrite IH. destruct Hx as (_ & He & _). cbn [fst] in He.
  destruct w; cbn [fatal_of]; try reflexivity.
  - rewrite S. reflexivity.
  - rewrite (He eq_refl) in D. discriminate.
Qed.

(* ---- the model's observable satisfies the executable predicate that issues the Violates verdict ---------------- *)
Lemma forallb_concat_repeat :
  forall c (ws : list (way * nat)),
    Forall (batch_ok c) ws ->
    forallb (ev_ok c) (concat (map (fun wt => repeat (ev_sx (ev_obs (fst wt))) (bsize c)) ws)) = true.
Proof.
  intros c ws F. induction F as [|[w t] ws Hx F IH]; cbn [map concat]; [reflexivity|].
  rewrite forallb_app, IH, andb_true_r.
  destruct Hx as (Hd & _ & _). cbn [fst] in *.
  assert (E : ev_ok c (ev_sx (ev_obs w)) = true).
  { destruct w; cbn; try reflexivity. rewrite (Hd eq_refl). reflexivity. }
  generalize (bsize c) as k. intros k.
  induction k as [|n IHn]; [reflexivity|].
  change (repeat (ev_sx (ev_obs w)) (S n)) with (ev_sx (ev_obs w) :: repeat (ev_sx (ev_obs w)) n).
  cbn [forallb]. rewrite E, IHn. reflexivity.
Qed.

Lemma length_concat_repeat :
  forall c (ws : list (way * nat)),
    length (concat (map (fun wt => repeat (ev_sx (ev_obs (fst wt))) (bsize c)) ws)) = (length ws * bsize c)%nat.
Proof.
  intros c ws. induction ws as [|wt ws IH]; cbn [map concat length]; [reflexivity|].
  rewrite app_length, repeat_length, IH. cbn. lia.
Qed.

Theorem route_model_one_way :
  forall c s o, route_model c s = Some o -> one_way_ok c o = true.
Proof.
  intros c s o H. unfold route_model in H.
  destruct (batches (nbatch c) c s 0) as [[ws reqs]|] eqn:B; [|discriminate].
  inversion H; subst. clear H.
  pose proof (batches_ok _ _ _ _ _ _ B) as [L F].
  unfold route_obs, one_way_ok.
  rewrite (forallb_concat_repeat c ws F), length_concat_repeat, L, Nat.eqb_refl. cbn [andb].
  pose proof (sumZ_fatal_nonneg c ws) as NN.
  apply Z.leb_le in NN. rewrite NN. cbn [andb].
  destruct (dq c) eqn:D; [|reflexivity].
  destruct (strict_on c) eqn:S; [reflexivity|]. cbn [andb negb orb].
  rewrite (route_no_fatal_with_dead_queue c s ws reqs B D S). reflexivity.
Qed.

(* ---- the verdict function: Agree only on an observable that satisfies the predicate ------------------------------ *)
Lemma sx_eqb_sound : forall a b, sx_eqb a b = true -> a = b.
Proof.
  fix IH 1. intros a b. destruct a as [x|x|x]; destruct b as [y|y|y]; cbn [sx_eqb]; try discriminate.
  - intros H. apply Z.eqb_eq in H. now subst.
  - revert y. induction x as [|p x IHx]; intros [|q y]; cbn; try discriminate; [reflexivity|].
    intros H. apply andb_true_iff in H. destruct H as [H1 H2]. apply N.eqb_eq in H1. subst.
    specialize (IHx y H2). now inversion IHx.
  - revert y. induction x as [|p x IHx]; intros [|q y]; try discriminate; [reflexivity|].
    intros H. apply andb_true_iff in H. destruct H as [H1 H2].
    apply IH in H1. subst. specialize (IHx y H2). now inversion IHx.
Qed.

Theorem route_agree_means_one_way :
  forall case obs c s,
    rcase_of_sx case = Some (c, s) -> c09_route_run case obs = Agree -> one_way_ok c obs = true.
Proof.
  intros case obs c s D H. unfold c09_route_run in H. rewrite D in H.
  destruct (route_model c s) as [m|] eqn:M; [|discriminate].
  destruct (sx_eqb m obs) eqn:E.
  - apply sx_eqb_sound in E. subst. eapply route_model_one_way; eassumption.
  - destruct (one_way_ok c obs); discriminate.
Qed.

(* ---- the acknowledgement's body ------------------------------------------------------------------------------- *)
(* a 2xx answer whose body the plugin's response function rejects is a FAILED attempt (never a delivery, never a drop) *)
Lemma classify_unreadable_ack :
  forall k pr a, ok2xx (a_status a) = true -> body_ok k pr (a_body a) = false -> classify k pr a = ARetry.
Proof.
  intros k pr a O B. unfold classify. unfold body_ok in B.
  destruct (k =? 0) eqn:K0.
  - cbn [orb]. rewrite O. unfold body_ok. rewrite K0, B. reflexivity.
  - destruct (k =? 2) eqn:K2; [|discriminate].
    apply Z.eqb_eq in K2. subst k. cbn. rewrite O. unfold body_ok. cbn. rewrite B. reflexivity.
Qed.

Theorem route_unreadable_ack_is_failure :
  forall c s a s',
    split_on c = false -> next s = (a, s') ->
    ok2xx (a_status a) = true -> body_ok (kind c) (presp c) (a_body a) = false ->
    attempt c s = Some (ARetry, seen (kind c) (a_status a), s').
Proof.
  intros c s a s' S N O B. unfold attempt. rewrite S, N.
  rewrite (classify_unreadable_ack _ _ _ O B). reflexivity.
Qed.

(* without process_response elasticsearch never looks at the body: only the status decides *)
Theorem route_body_ignored_without_process_response :
  forall a, classify 0 false a = classify 0 false (a_status a).
Proof.
  intros a. unfold classify, body_ok, a_status. cbn [Z.eqb orb negb].
  rewrite Z.mod_mod by lia. reflexivity.
Qed.

(* a far end every answer of which is a failed attempt (e.g. always an unreadable acknowledgement): with retry >= 0 the batch
   is given up after exactly retry + 2 calls, into the dead queue iff there is one — never delivered, never dropped *)
Lemma batch_loop_const_failing :
  forall c a, split_on c = false -> classify (kind c) (presp c) a = ARetry -> 0 <= retry c ->
  forall n t0 fuel r,
    Z.of_nat t0 + Z.of_nat n = retry c + 1 -> (n < fuel)%nat ->
    batch_loop fuel c t0 (const_src a) r =
      Some (if dq c then WDead else WErr, (t0 + n)%nat, (r + S n * seen (kind c) (a_status a))%nat, const_src a).
Proof.
  intros c a Hs C R0.
  assert (A : attempt c (const_src a) = Some (ARetry, seen (kind c) (a_status a), const_src a)).
  { unfold attempt. rewrite Hs. cbn [next const_src pre C09Route.tail]. rewrite C. reflexivity. }
  induction n as [|n IH]; intros t0 fuel r E F.
  - destruct fuel as [|f]; [lia|]. cbn [batch_loop]. rewrite A.
    assert (G : (0 <=? retry c) && (retry c <? Z.of_nat t0) = true).
    { apply andb_true_iff. split; [apply Z.leb_le|apply Z.ltb_lt]; lia. }
    rewrite G. replace (t0 + 0)%nat with t0 by lia.
    replace (1 * seen (kind c) (a_status a))%nat with (seen (kind c) (a_status a)) by (cbn [Nat.mul]; lia). reflexivity.
  - destruct fuel as [|f]; [lia|]. cbn [batch_loop]. rewrite A.
    assert (G : (0 <=? retry c) && (retry c <? Z.of_nat t0) = false).
    { apply andb_false_iff. right. apply Z.ltb_ge. lia. }
    rewrite G. rewrite (IH (S t0) f (r + seen (kind c) (a_status a))%nat) by lia.
    replace (S t0 + n)%nat with (t0 + S n)%nat by lia.
    replace (r + seen (kind c) (a_status a) + S n * seen (kind c) (a_status a))%nat
      with (r + S (S n) * seen (kind c) (a_status a))%nat by (cbn [Nat.mul]; lia).
    reflexivity.
Qed.

Theorem route_always_failing_given_up :
  forall c a r,
    split_on c = false -> classify (kind c) (presp c) a = ARetry -> 0 <= retry c ->
    batch_loop (batch_fuel c (const_src a)) c 0 (const_src a) r =
      Some (if dq c then WDead else WErr, Z.to_nat (retry c + 1),
            (r + Z.to_nat (retry c + 2) * seen (kind c) (a_status a))%nat, const_src a).
Proof.
  intros c a r S C R.
  rewrite (batch_loop_const_failing c a S C R (Z.to_nat (retry c + 1)) 0%nat).
  - replace (Datatypes.S (Z.to_nat (retry c + 1))) with (Z.to_nat (retry c + 2)) by lia. reflexivity.
  - lia.
  - unfold batch_fuel. cbn [const_src pre length]. lia.
Qed.

(* the instance the new streams exercise: elasticsearch with process_response (or splunk) behind a far end that always
   acknowledges with a body the plugin cannot read *)
Corollary route_always_unreadable_given_up :
  forall c a r,
    split_on c = false -> ok2xx (a_status a) = true -> body_ok (kind c) (presp c) (a_body a) = false -> 0 <= retry c ->
    exists n, batch_loop (batch_fuel c (const_src a)) c 0 (const_src a) r =
      Some (if dq c then WDead else WErr, Z.to_nat (retry c + 1), n, const_src a).
Proof.
  intros c a r S O B R. eexists.
  apply route_always_failing_given_up; [assumption| |assumption].
  apply classify_unreadable_ack; assumption.
Qed.
