(* The second caller of a do_if checker: antispam rules (pipeline/antispam). The data handed to the
   checker is not an event tree but (record bytes, source name, meta map); only field and logical
   nodes are supported there. The refinement check = eval carries over leaf by leaf (field_core). *)
From Verif Require Import Base.Sx Base.GoSem Base.Json Model.DoIf Proofs.DoIf.
From Coq Require Import Lia ZifyBool Permutation.

Section Data.
  Variable lower : bytes -> bytes.
  Variable re_match : bytes -> bytes -> bool.
  Variable go_contains_any : bytes -> bytes -> bool.
  Variable re_ok : bytes -> bool.

  Notation checkA := (check_as lower re_match go_contains_any).
  Notation evalA := (eval_as lower re_match go_contains_any).

  Lemma check_as_and ops d : checkA (NAnd ops) d = forallb (fun x => checkA x d) ops.
  Proof.
    cbn [check_as]. induction ops as [|x r IH]; [reflexivity|]. cbn [forallb]. rewrite <- IH.
    destruct (checkA x d); reflexivity.
  Qed.

  Lemma check_as_or ops d : checkA (NOr ops) d = existsb (fun x => checkA x d) ops.
  Proof.
    cbn [check_as]. induction ops as [|x r IH]; [reflexivity|]. cbn [existsb]. rewrite <- IH.
    destruct (checkA x d); reflexivity.
  Qed.

  Lemma as_fget_fd_of d path : as_fget d path = fd_of (as_get d path).
  Proof. unfold as_fget, fd_of. destruct (as_get d path); reflexivity. Qed.

  (* for every rule tree the constructors accept and every antispam datum, the decision computed with
     the short-cuts of fieldOpNode.Check and the short-circuit loops is the documented one: field
     operations over  event | source_name | meta.<key>  (anything else is absent), and / or / not;
     length, timestamp and type leaves do not apply to this data and never hold *)
  Theorem check_as_eq_eval_as : forall n d,
    wfb re_ok n = true ->
    lower_hyp_as lower n d = true ->
    checkA n d = evalA n d.
  Proof.
    intros n d. induction n as [op path cs v0 vr | op path c v | path format c mode shift | path types
                                | ops IH | ops IH | x IH] using node_ind'; intros Hwf Hh.
    - cbn [check_as eval_as]. cbn [wfb] in Hwf. cbn [lower_hyp_as] in Hh.
      assert (Hctor : op = FContainsAny -> vr = [] /\ exists b, v0 = Some b).
      { intros ->. destruct vr; [|discriminate]. destruct v0 as [[|b0 b]|]; try discriminate.
        split; [reflexivity|]. eexists. reflexivity. }
      rewrite as_fget_fd_of. apply (field_core lower re_match go_contains_any op cs v0 vr _ Hctor). exact Hh.
    - reflexivity.
    - reflexivity.
    - reflexivity.
    - rewrite check_as_and. cbn [eval_as]. cbn [wfb] in Hwf. cbn [lower_hyp_as] in Hh.
      rewrite forallb_forall in Hh. rewrite Forall_forall in IH.
      apply forallb_ext_in. intros x Hx. apply IH; [exact Hx|apply (wfb_ops re_ok ops Hwf x Hx)|apply Hh; exact Hx].
    - rewrite check_as_or. cbn [eval_as]. cbn [wfb] in Hwf. cbn [lower_hyp_as] in Hh.
      rewrite forallb_forall in Hh. rewrite Forall_forall in IH.
      apply existsb_ext_in. intros x Hx. apply IH; [exact Hx|apply (wfb_ops re_ok ops Hwf x Hx)|apply Hh; exact Hx].
    - cbn [check_as eval_as]. f_equal. apply IH; assumption.
  Qed.

  (* byte-wise lower-casing meets the side condition on every rule and datum *)
  Section Global.
    Hypothesis lower_len : forall x, length (lower x) = length x.
    Hypothesis lower_firstn : forall k x, lower (firstn k x) = firstn k (lower x).
    Hypothesis lower_skipn : forall k x, lower (skipn k x) = skipn k (lower x).

    Lemma lower_hyp_as_global n d : lower_hyp_as lower n d = true.
    Proof.
      induction n as [op path cs v0 vr | op path c v | path format c mode shift | path types
                      | ops IH | ops IH | x IH] using node_ind'; cbn [lower_hyp_as]; try reflexivity.
      - apply fhyp_global; assumption.
      - apply forallb_forall. rewrite Forall_forall in IH. exact IH.
      - apply forallb_forall. rewrite Forall_forall in IH. exact IH.
      - exact IH.
    Qed.

    Theorem check_as_eq_eval_as_global : forall n d,
      wfb re_ok n = true -> checkA n d = evalA n d.
    Proof. intros n d Hwf. apply check_as_eq_eval_as; [exact Hwf|apply lower_hyp_as_global]. Qed.
  End Global.

  (* the decision of a rule on antispam data agrees with the decision of the same rule on the event
     tree  {"event": <bytes>, "source_name": <name>, "meta": {<key>: <value>, ...}}  whenever the rule
     is built of field operations over the three documented paths and of and / or / not *)
  Fixpoint documented_paths (n : node) : bool :=
    match n with
    | NField _ path _ _ _ =>
        match path with
        | [k] => bytes_eqb k b_event || bytes_eqb k b_source_name
        | [k; _] => bytes_eqb k b_meta
        | _ => false
        end
    | NAnd ops | NOr ops => forallb documented_paths ops
    | NNot x => documented_paths x
    | _ => false
    end.

  Definition as_tree (d : asdata) : json :=
    JObj [(b_event, JStr (as_event d)); (b_source_name, JStr (as_source d));
          (b_meta, JObj (map (fun kv => (fst kv, JStr (snd kv))) (as_meta d)))].

  Lemma meta_get_field_get m k :
    get (JObj (map (fun kv => (fst kv, JStr (snd kv))) m)) [k] = meta_get m k.
  Proof.
    unfold get. cbn [jdig].
    induction m as [|[k' v'] r IH]; cbn [map field_get meta_get fst snd]; [reflexivity|].
    unfold key_eqb, bytes_eqb. destruct (N_eqb_list k' k); [reflexivity|exact IH].
  Qed.

  Lemma as_tree_get d path :
    match path with
    | [k] => bytes_eqb k b_event || bytes_eqb k b_source_name
    | [k; _] => bytes_eqb k b_meta
    | _ => false
    end = true ->
    get (as_tree d) path = as_get d path.
  Proof.
    destruct path as [|k [|k2 [|k3 r]]]; try discriminate; intros H.
    - apply orb_true_iff in H. destruct H as [H|H]; apply bytes_eqb_eq in H; subst k; reflexivity.
    - apply bytes_eqb_eq in H. subst k.
      change (as_get d [b_meta; k2]) with (meta_get (as_meta d) k2).
      rewrite <- meta_get_field_get. reflexivity.
  Qed.

  Variable parse_time : bytes -> bytes -> option Z.
  Variable as_int : bytes -> Z.

  Theorem check_as_is_check_on_tree : forall n d now,
    documented_paths n = true ->
    checkA n d = check lower re_match go_contains_any parse_time as_int n (as_tree d) now.
  Proof.
    intros n d now. induction n as [op path cs v0 vr | op path c v | path format c mode shift | path types
                                    | ops IH | ops IH | x IH] using node_ind'; cbn [documented_paths]; intros Hd;
      try discriminate.
    - cbn [check_as check]. rewrite (as_tree_get d path Hd). reflexivity.
    - rewrite check_as_and, check_and. rewrite forallb_forall in Hd. rewrite Forall_forall in IH.
      apply forallb_ext_in. intros x Hx. apply IH; [exact Hx|apply Hd; exact Hx].
    - rewrite check_as_or, check_or. rewrite forallb_forall in Hd. rewrite Forall_forall in IH.
      apply existsb_ext_in. intros x Hx. apply IH; [exact Hx|apply Hd; exact Hx].
    - cbn [check_as check]. f_equal. apply IH. exact Hd.
  Qed.
End Data.
