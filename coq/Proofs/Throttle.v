(* Proofs about Model/Throttle.v: the ring of buckets refines never-reset per-id counters; every
   decision is "cell total within cell limit"; count / size / distribution bounds; keys independent. *)
From Verif Require Import Base.Sx Base.GoSem Model.Throttle.
From Coq Require Import Lia ZifyBool.

(* ---- GoSem index / slice facts ------------------------------------------------------------------ *)
Lemma len_nonneg {A} (l : list A) : 0 <= len l.
Proof. unfold len. lia. Qed.

Lemma idx_ok {A} (l : list A) (i : Z) (d : A) :
  0 <= i < len l -> idx l i = Ok (nth (Z.to_nat i) l d).
Proof.
  intros Hi. unfold idx.
  replace ((0 <=? i) && (i <? len l)) with true by lia.
  destruct (nth_error l (Z.to_nat i)) as [x|] eqn:E.
  - rewrite (nth_error_nth _ _ d E). reflexivity.
  - apply nth_error_None in E. unfold len in Hi. lia.
Qed.

Lemma idx_panic {A} (l : list A) (i : Z) : ~ (0 <= i < len l) -> idx l i = Panic 2.
Proof. intros Hi. unfold idx. replace ((0 <=? i) && (i <? len l)) with false by lia. reflexivity. Qed.

Lemma upd_ok {A} (l : list A) (i : Z) (x : A) :
  0 <= i < len l -> upd l i x = Ok (firstn (Z.to_nat i) l ++ x :: skipn (S (Z.to_nat i)) l).
Proof. intros Hi. unfold upd. replace ((0 <=? i) && (i <? len l)) with true by lia. reflexivity. Qed.

Lemma upd_list_length {A} (l : list A) (n : nat) (x : A) :
  (n < length l)%nat -> length (firstn n l ++ x :: skipn (S n) l) = length l.
Proof.
  intros Hn. rewrite app_length, firstn_length. cbn [length]. rewrite skipn_length. lia.
Qed.

Lemma nth_skipn' {A} (l : list A) (n k : nat) (d : A) : nth k (skipn n l) d = nth (n + k) l d.
Proof.
  revert l. induction n as [|n IH]; intros l; [reflexivity|].
  destruct l as [|x l]; [destruct k; reflexivity|]. cbn [skipn Nat.add nth]. apply IH.
Qed.

Lemma upd_list_nth {A} (l : list A) (n m : nat) (x d : A) :
  (n < length l)%nat ->
  nth m (firstn n l ++ x :: skipn (S n) l) d = if Nat.eqb m n then x else nth m l d.
Proof.
  intros Hn. destruct (Nat.eqb_spec m n) as [->|Hne].
  - rewrite app_nth2; rewrite firstn_length; [|lia].
    replace (n - Nat.min n (length l))%nat with 0%nat by lia. reflexivity.
  - destruct (Nat.lt_ge_cases m n) as [Hlt|Hge].
    + rewrite app_nth1 by (rewrite firstn_length; lia).
      rewrite <- (firstn_skipn n l) at 2. rewrite app_nth1 by (rewrite firstn_length; lia). reflexivity.
    + rewrite app_nth2 by (rewrite firstn_length; lia). rewrite firstn_length.
      replace (Nat.min n (length l)) with n by lia.
      destruct (m - n)%nat as [|k] eqn:E; [lia|]. cbn [nth].
      rewrite nth_skipn'. f_equal. lia.
Qed.

Lemma upd_list_Forall {A} (P : A -> Prop) (l : list A) (n : nat) (x : A) :
  Forall P l -> P x -> Forall P (firstn n l ++ x :: skipn (S n) l).
Proof.
  intros Hl Hx. apply Forall_app. split.
  - apply Forall_forall. intros y Hy. rewrite Forall_forall in Hl. apply Hl.
    rewrite <- (firstn_skipn n l). apply in_or_app. left. exact Hy.
  - constructor; [exact Hx|]. apply Forall_forall. intros y Hy. rewrite Forall_forall in Hl. apply Hl.
    rewrite <- (firstn_skipn (S n) l). apply in_or_app. right. exact Hy.
Qed.

Lemma slice_from_ok {A} (l : list A) (n : Z) :
  0 <= n <= len l -> slice_from l n = Ok (skipn (Z.to_nat n) l).
Proof.
  intros Hn. unfold slice_from, slice.
  replace ((0 <=? n) && (n <=? len l) && (len l <=? len l)) with true by lia.
  f_equal. apply firstn_all2. rewrite skipn_length. unfold len in *. lia.
Qed.

Lemma slice_to_ok {A} (l : list A) (n : Z) :
  0 <= n <= len l -> slice_to l n = Ok (firstn (Z.to_nat n) l).
Proof.
  intros Hn. unfold slice_to, slice.
  replace ((0 <=? 0) && (0 <=? n) && (n <=? len l)) with true by lia.
  cbn [Z.to_nat skipn]. rewrite Z.sub_0_r. reflexivity.
Qed.

Lemma nth_zero_row (row : list Z) (n : nat) : nth n (map (fun _ => 0) row) 0 = 0.
Proof.
  revert n. induction row as [|x r IH]; intros [|n]; cbn [map nth]; auto.
Qed.

Lemma nth_repeat_zeros (n m : nat) : nth m (zeros n) 0 = 0.
Proof. unfold zeros. revert m. induction n as [|n IH]; intros [|m]; cbn [repeat nth]; auto. Qed.

(* time_to_id on non-negative clocks *)
Lemma quot_lower (a b k : Z) : 0 < b -> k * b <= a -> 0 <= k -> k <= Z.quot a b.
Proof.
  intros Hb Hk Hk0. rewrite Z.quot_div_nonneg by nia.
  apply Z.div_le_lower_bound; lia.
Qed.

(* ---- buckets: get / add -------------------------------------------------------------------------- *)
Definition cellr (b : list (list Z)) (i j : Z) : Z := nth (Z.to_nat j) (nth (Z.to_nat i) b []) 0.

Definition wf_ring (n m : nat) (b : list (list Z)) : Prop :=
  length b = n /\ Forall (fun row => length row = m) b.

Lemma wf_ring_row n m b i : wf_ring n m b -> (i < n)%nat -> length (nth i b []) = m.
Proof.
  intros [Hn Hf] Hi. rewrite Forall_forall in Hf. apply Hf. apply nth_In. lia.
Qed.

Lemma get_ok n m b i j :
  wf_ring n m b -> 0 <= i < Z.of_nat n -> 0 <= j < Z.of_nat m -> get b i j = Ok (cellr b i j).
Proof.
  intros Hwf Hi Hj. unfold get, cellr.
  rewrite (idx_ok b i []) by (unfold len; destruct Hwf as [-> _]; lia). cbn [bind].
  apply idx_ok. unfold len. rewrite (wf_ring_row n m) by (auto; lia). lia.
Qed.

Lemma add_ok n m b i j v :
  wf_ring n m b -> 0 <= i < Z.of_nat n -> 0 <= j < Z.of_nat m ->
  exists b', add b i j v = Ok b' /\ wf_ring n m b' /\
    forall i' j', 0 <= i' -> 0 <= j' ->
      cellr b' i' j' = if (i' =? i) && (j' =? j) then cellr b i j + v else cellr b i' j'.
Proof.
  intros Hwf Hi Hj. pose proof Hwf as [Hn Hf].
  assert (Hrow : length (nth (Z.to_nat i) b []) = m) by (apply (wf_ring_row n m); auto; lia).
  unfold add.
  rewrite (idx_ok b i []) by (unfold len; lia). cbn [bind].
  rewrite (idx_ok _ j 0) by (unfold len; lia). cbn [bind].
  rewrite upd_ok by (unfold len; lia). cbn [bind].
  rewrite upd_ok by (unfold len; lia).
  eexists. split; [reflexivity|]. split.
  - split.
    + rewrite upd_list_length; lia.
    + apply upd_list_Forall; [exact Hf|]. rewrite upd_list_length; lia.
  - intros i' j' Hi' Hj'. unfold cellr.
    rewrite (upd_list_nth b) by lia.
    destruct (Nat.eqb_spec (Z.to_nat i') (Z.to_nat i)) as [E|E].
    + replace (i' =? i) with true by lia. cbn [andb].
      rewrite upd_list_nth by lia.
      destruct (Nat.eqb_spec (Z.to_nat j') (Z.to_nat j)) as [E'|E'].
      * replace (j' =? j) with true by lia. reflexivity.
      * replace (j' =? j) with false by lia. rewrite E. reflexivity.
    + replace (i' =? i) with false by lia. reflexivity.
Qed.

(* ---- the refinement relation --------------------------------------------------------------------- *)
Definition wf_lim (c : cfg) (l : lim) : Prop := wf_ring (Z.to_nat (count c)) (nslots c) (ring l).

Lemma cell_cellr l id slot : cell l id slot = cellr (ring l) (id - minID l) slot.
Proof. reflexivity. Qed.

Definition hist_bounded (c : cfg) (hi : Z) (h : list charge) : Prop :=
  forall x, In x h -> c_id x <= hi /\ 0 <= c_slot x < Z.of_nat (nslots c).

Inductive R (c : cfg) (l : lim) (s : spec) : Prop :=
| R_fresh : s_hi s = None -> s_hist s = [] -> l = lim0 c -> R c l s
| R_live (hi : Z) :
    s_hi s = Some hi -> maxID l = hi -> minID l = hi - count c + 1 -> 0 < minID l -> wf_lim c l ->
    (forall id slot, minID l <= id <= hi -> 0 <= slot < Z.of_nat (nslots c) ->
                     cell l id slot = ctr (s_hist s) id slot) ->
    hist_bounded c hi (s_hist s) -> R c l s.

Lemma ctr_above c hi h id slot : hist_bounded c hi h -> hi < id -> ctr h id slot = 0.
Proof.
  induction h as [|x r IH]; intros Hb Hid; cbn [ctr]; [reflexivity|].
  rewrite IH by (auto; intros y Hy; apply Hb; right; exact Hy).
  destruct (Hb x (or_introl eq_refl)) as [Hx _].
  unfold in_cell. replace (c_id x =? id) with false by lia. reflexivity.
Qed.

Lemma hist_bounded_mono c hi hi' h : hist_bounded c hi h -> hi <= hi' -> hist_bounded c hi' h.
Proof. intros Hb Hle x Hx. destruct (Hb x Hx). lia. Qed.

Lemma wf_lim0 c : wf_lim c (lim0 c).
Proof.
  unfold wf_lim, lim0, wf_ring. cbn [ring]. split.
  - apply repeat_length.
  - apply Forall_forall. intros row Hrow. apply repeat_spec in Hrow. subst row.
    unfold zeros. apply repeat_length.
Qed.

Lemma cellr_lim0 c i j : cellr (ring (lim0 c)) i j = 0.
Proof.
  unfold cellr, lim0. cbn [ring].
  destruct (Nat.lt_ge_cases (Z.to_nat i) (Z.to_nat (count c))) as [H|H].
  - rewrite (nth_indep _ [] (zeros (nslots c))) by (rewrite repeat_length; exact H).
    rewrite nth_repeat. apply nth_repeat_zeros.
  - rewrite (nth_overflow (repeat _ _)) by (rewrite repeat_length; exact H). destruct (Z.to_nat j); reflexivity.
Qed.

(* the rotation: what each index of the new ring holds *)
Lemma reset_fn_ok n m b k :
  wf_ring n m b -> 0 <= k <= Z.of_nat n ->
  exists b', reset_fn k b = Ok b' /\ wf_ring n m b' /\
    forall i j, 0 <= i < Z.of_nat n ->
      cellr b' i j = if i <? Z.of_nat n - k then cellr b (i + k) j else 0.
Proof.
  intros [Hn Hf] Hk. unfold reset_fn.
  rewrite slice_from_ok by (unfold len; lia). cbn [bind].
  rewrite slice_to_ok by (unfold len; lia). cbn [bind].
  eexists. split; [reflexivity|]. split.
  - split.
    + rewrite app_length, skipn_length, map_length, firstn_length. lia.
    + apply Forall_app. split.
      * apply Forall_forall. intros y Hy. rewrite Forall_forall in Hf. apply Hf.
        rewrite <- (firstn_skipn (Z.to_nat k) b). apply in_or_app. right. exact Hy.
      * apply Forall_forall. intros y Hy. apply in_map_iff in Hy. destruct Hy as [row [<- Hrow]].
        rewrite map_length. rewrite Forall_forall in Hf. apply Hf.
        rewrite <- (firstn_skipn (Z.to_nat k) b). apply in_or_app. left. exact Hrow.
  - intros i j Hi. unfold cellr.
    destruct (Z.ltb_spec i (Z.of_nat n - k)) as [Hlt|Hge].
    + rewrite app_nth1 by (rewrite skipn_length; lia).
      rewrite nth_skipn'. do 2 f_equal. lia.
    + rewrite app_nth2 by (rewrite skipn_length; lia).
      rewrite skipn_length.
      rewrite (nth_indep _ [] (map (fun _ : Z => 0) [])) by (rewrite map_length, firstn_length; lia).
      rewrite map_nth. apply nth_zero_row.
Qed.

Lemma eid_agree lo hi cnt id :
  lo = hi - cnt + 1 ->
  (if (id <? lo) || (id >? hi) then hi else id) = (if (hi - cnt + 1 <=? id) && (id <=? hi) then id else hi).
Proof.
  intros ->. destruct (Z.ltb_spec id (hi - cnt + 1)), (Z.leb_spec (hi - cnt + 1) id); try lia;
  cbn [orb andb]; [reflexivity|].
  destruct (Z.gtb_spec id hi), (Z.leb_spec id hi); try lia; reflexivity.
Qed.

Lemma rebuild_R c l s now ts :
  wf_cfg c = true -> count c * interval c <= now -> R c l s ->
  exists l2, rebuild c now ts l = Ok (l2, s_eid c (s_window c s now) ts) /\
    maxID l2 = s_window c s now /\ minID l2 = s_window c s now - count c + 1 /\ 0 < minID l2 /\
    wf_lim c l2 /\
    (forall id slot, minID l2 <= id <= s_window c s now -> 0 <= slot < Z.of_nat (nslots c) ->
                     cell l2 id slot = ctr (s_hist s) id slot) /\
    hist_bounded c (s_window c s now) (s_hist s).
Proof.
  intros Hc Hnow HR. unfold wf_cfg in Hc.
  assert (Hcur : count c <= time_to_id c now) by (unfold time_to_id; apply quot_lower; lia).
  destruct HR as [Hhi Hh ->|hi Hhi Hmax Hmin Hpos Hwf Hcell Hb].
  - (* first event on a fresh limiter *)
    unfold rebuild, s_window. rewrite Hhi, Hh. cbn [lim0 minID maxID ring Z.eqb].
    replace (time_to_id c now >? time_to_id c now - count c + 1 + count c - 1) with false by lia.
    cbn [bind minID maxID].
    eexists. split.
    { f_equal. f_equal. unfold s_eid. apply eid_agree. reflexivity. }
    cbn [minID maxID ring]. split; [lia|]. split; [lia|]. split; [lia|]. split; [apply (wf_lim0 c)|]. split.
    + intros id slot _ _. rewrite cell_cellr. cbn [ring minID ctr]. apply cellr_lim0.
    + intros x [].
  - unfold rebuild, s_window. rewrite Hhi.
    replace (minID l =? 0) with false by lia.
    replace (minID l + count c - 1) with hi by lia.
    destruct (Z.gtb_spec (time_to_id c now) hi) as [Hgt|Hle].
    + (* the window slides *)
      set (cur := time_to_id c now) in *.
      destruct (reset_fn_ok (Z.to_nat (count c)) (nslots c) (ring l) (Z.min (cur - hi) (count c)) Hwf)
        as [b' [Hreset [Hwf' Hcells]]]; [lia|].
      rewrite Hreset. cbn [bind minID maxID].
      replace (Z.max hi cur) with cur by lia.
      eexists. split.
      { f_equal. f_equal. unfold s_eid. apply eid_agree. lia. }
      cbn [minID maxID ring]. split; [lia|]. split; [lia|]. split; [lia|]. split; [exact Hwf'|]. split.
      * intros id slot Hid Hslot. rewrite cell_cellr. cbn [ring minID].
        rewrite Hcells by lia.
        destruct (Z.ltb_spec (id - (minID l + (cur - hi))) (Z.of_nat (Z.to_nat (count c)) - Z.min (cur - hi) (count c))) as [Hlt|Hge].
        -- rewrite <- Hcell by lia. rewrite cell_cellr. f_equal. lia.
        -- symmetry. apply (ctr_above c hi); [exact Hb|]. lia.
      * apply (hist_bounded_mono c hi); [exact Hb|lia].
    + replace (Z.max hi (time_to_id c now)) with hi by lia. cbn [bind].
      eexists. split.
      { f_equal. f_equal. unfold s_eid. rewrite Hmax. apply eid_agree. lia. }
      split; [lia|]. split; [lia|]. split; [lia|]. split; [exact Hwf|]. split; [|exact Hb].
      intros id slot Hid Hslot. apply Hcell; lia.
Qed.

(* ---- the stealing loop --------------------------------------------------------------------------- *)
Definition lim_of (c : cfg) (bi : Z) : Z :=
  if bi =? 0 then deflimit c else nth (Z.to_nat (bi - 1)) (shares c) 0.

Lemma steal_spec c row val cv : forall ds pre md bi bl,
  shares c = pre ++ ds ->
  length row = S (length (shares c)) ->
  (forall j, 0 <= j < len row -> nth (Z.to_nat j) row 0 = cv j) ->
  0 <= bi <= len pre -> bl = lim_of c bi ->
  exists r, steal row val ds (len pre) (md, bi, bl) = Ok r /\
    (fst (fst r), snd (fst r)) = s_steal cv val ds (len pre) (md, bi) /\
    snd r = lim_of c (snd (fst r)) /\ 0 <= snd (fst r) <= len (shares c).
Proof.
  induction ds as [|d ds IH]; intros pre md bi bl Hsh Hrow Hcv Hbi Hbl.
  - cbn [steal s_steal]. eexists. split; [reflexivity|]. cbn [fst snd].
    split; [reflexivity|]. split; [exact Hbl|]. rewrite Hsh, app_nil_r. exact Hbi.
  - cbn [steal s_steal].
    assert (Hlen : len (shares c) = len pre + 1 + len ds).
    { rewrite Hsh. unfold len. rewrite app_length. cbn [length]. lia. }
    rewrite (idx_ok row (len pre + 1) 0) by (unfold len in *; lia). cbn [bind fst].
    rewrite Hcv by (unfold len in *; lia).
    assert (Hpre : len pre + 1 = len (pre ++ [d])).
    { unfold len. rewrite app_length. cbn [length]. lia. }
    assert (Hd : d = lim_of c (len pre + 1)).
    { unfold lim_of. replace (len pre + 1 =? 0) with false by (pose proof (len_nonneg pre); lia).
      rewrite Hsh. replace (Z.to_nat (len pre + 1 - 1)) with (length pre) by (unfold len; lia).
      rewrite app_nth2 by lia. rewrite Nat.sub_diag. reflexivity. }
    assert (Hsh' : shares c = (pre ++ [d]) ++ ds) by (rewrite <- app_assoc; exact Hsh).
    pose proof (len_nonneg pre) as Hp0.
    destruct (d - (cv (len pre + 1) + val) >? md) eqn:Egt.
    + destruct (IH (pre ++ [d]) (d - (cv (len pre + 1) + val)) (len pre + 1) d Hsh' Hrow Hcv) as [r Hr];
        [lia|exact Hd|].
      rewrite <- Hpre in Hr. exists r. exact Hr.
    + destruct (IH (pre ++ [d]) md bi bl Hsh' Hrow Hcv) as [r Hr]; [lia|exact Hbl|].
      rewrite <- Hpre in Hr. exists r. exact Hr.
Qed.

Lemma cell_limit_lim_of c slot : shares c <> [] -> cell_limit c slot = lim_of c slot.
Proof. unfold cell_limit, lim_of. destruct (shares c); [congruence|reflexivity]. Qed.

Definition dv_in (c : cfg) (dv : option Z) : Prop :=
  match dv with None => True | Some i => 0 <= i < len (shares c) end.

(* getDistrData picks the slot and the limit the reference semantics prescribes *)
Lemma slot_R c l2 h eid val dv :
  wf_lim c l2 -> 0 <= eid - minID l2 < count c -> dv_in c dv ->
  (forall slot, 0 <= slot < Z.of_nat (nslots c) -> cell l2 eid slot = ctr h eid slot) ->
  let slot := s_slot c (ctr h eid) val dv in
  (match shares c with
   | [] => Ok (0, limit c)
   | _ :: _ => distr_data c (ring l2) (eid - minID l2) val dv
   end) = Ok (slot, cell_limit c slot) /\ 0 <= slot < Z.of_nat (nslots c).
Proof.
  intros Hwf Hidx Hdv Hcell. cbv zeta. unfold s_slot.
  destruct (shares c) as [|d0 ds] eqn:Esh.
  - unfold cell_limit. rewrite Esh. split; [reflexivity|]. unfold nslots. lia.
  - rewrite <- Esh in *. assert (Hne : shares c <> []) by (rewrite Esh; discriminate).
    unfold distr_data. destruct dv as [i|].
    + cbn [dv_in] in Hdv. rewrite (idx_ok _ i 0) by exact Hdv. cbn [bind]. split.
      * rewrite cell_limit_lim_of by exact Hne. unfold lim_of.
        replace (i + 1 =? 0) with false by lia. replace (i + 1 - 1) with i by lia. reflexivity.
      * unfold nslots, len in *. lia.
    + rewrite (get_ok (Z.to_nat (count c)) (nslots c)) by (auto; unfold nslots; lia).
      cbn [bind]. rewrite <- cell_cellr. rewrite Hcell by (unfold nslots; lia).
      destruct (ctr h eid 0 + val <=? deflimit c) eqn:Ele.
      * split; [|unfold nslots; lia]. rewrite cell_limit_lim_of by exact Hne. reflexivity.
      * rewrite (idx_ok _ _ []) by (destruct Hwf as [Hn _]; unfold len; lia). cbn [bind].
        assert (Hrow : length (nth (Z.to_nat (eid - minID l2)) (ring l2) []) = S (length (shares c))).
        { apply (wf_ring_row (Z.to_nat (count c)) (nslots c)); [exact Hwf|lia]. }
        destruct (steal_spec c _ val (ctr h eid) (shares c) [] (-1) 0 (deflimit c) eq_refl Hrow)
          as [r [Hr [Hs [Hl Hrange]]]].
        { intros j Hj. rewrite <- Hcell by (unfold nslots, len in *; lia). reflexivity. }
        { cbn. lia. }
        { reflexivity. }
        change (len []) with 0 in Hr, Hs. rewrite Hr. cbn [bind].
        assert (Hslot : snd (fst r) = snd (s_steal (ctr h eid) val (shares c) 0 (-1, 0))).
        { rewrite <- Hs. reflexivity. }
        rewrite <- Hslot. split.
        -- rewrite Hl. rewrite cell_limit_lim_of by exact Hne. reflexivity.
        -- unfold nslots, len in *. lia.
Qed.

Lemma s_eid_range c hi ts : 1 <= count c -> hi - count c + 1 <= s_eid c hi ts <= hi.
Proof.
  intros Hc. unfold s_eid.
  destruct ((hi - count c + 1 <=? time_to_id c ts) && (time_to_id c ts <=? hi)) eqn:E; lia.
Qed.

(* one isAllowed call *)
Lemma allow_R c l s o :
  wf_cfg c = true -> timed c o = true -> dv_ok c o = true -> R c l s ->
  exists l', allow c l (o_now o) (o_ts o) (o_size o) (o_dv o) = Ok (l', snd (s_step c s o)) /\
             R c l' (fst (s_step c s o)).
Proof.
  intros Hc Ht Hdv HR. unfold allow, s_step.
  destruct (limit c <? 0) eqn:Elim.
  { exists l. split; [reflexivity|exact HR]. }
  unfold timed in Ht.
  destruct (rebuild_R c l s (o_now o) (o_ts o) Hc ltac:(lia) HR)
    as [l2 [Hreb [Hmax [Hmin [Hpos [Hwf [Hcell Hb]]]]]]].
  rewrite Hreb. cbn [bind].
  set (hi := s_window c s (o_now o)) in *.
  set (eid := s_eid c hi (o_ts o)) in *.
  set (val := if size_kind c then o_size o else 1).
  assert (Hcnt : 1 <= count c) by (unfold wf_cfg in Hc; lia).
  pose proof (s_eid_range c hi (o_ts o) Hcnt) as Heid. fold eid in Heid.
  assert (Hidx : 0 <= eid - minID l2 < count c) by lia.
  assert (Hdvin : dv_in c (o_dv o)).
  { unfold dv_ok in Hdv. unfold dv_in. destruct (o_dv o); [lia|exact I]. }
  destruct (slot_R c l2 (s_hist s) eid val (o_dv o) Hwf Hidx Hdvin) as [Hslot Hrange].
  { intros slot Hs. apply Hcell; lia. }
  rewrite Hslot. cbn [bind].
  set (slot := s_slot c (ctr (s_hist s) eid) val (o_dv o)) in *.
  destruct (add_ok (Z.to_nat (count c)) (nslots c) (ring l2) (eid - minID l2) slot val Hwf)
    as [b' [Hadd [Hwf' Hcells]]]; [lia|lia|].
  rewrite Hadd. cbn [bind].
  rewrite (get_ok (Z.to_nat (count c)) (nslots c)) by (auto; lia). cbn [bind].
  rewrite Hcells by lia.
  replace ((eid - minID l2 =? eid - minID l2) && (slot =? slot)) with true by lia.
  rewrite <- cell_cellr. rewrite Hcell by lia.
  eexists. split; [reflexivity|].
  cbn [fst].
  apply (R_live _ _ _ hi); cbn [s_hi s_hist minID maxID ring]; auto.
  - intros id slot' Hid Hs'. rewrite cell_cellr. cbn [ring minID].
    rewrite Hcells by lia. cbn [ctr]. unfold in_cell. cbn [c_id c_slot c_val].
    rewrite <- (Hcell id slot') by lia. rewrite cell_cellr.
    destruct (Z.eqb_spec (id - minID l2) (eid - minID l2)) as [E1|E1];
      destruct (Z.eqb_spec slot' slot) as [E2|E2]; cbn [andb].
    + replace (eid =? id) with true by lia. replace (slot =? slot') with true by lia.
      cbn [andb]. rewrite E1, E2. lia.
    + replace (slot =? slot') with false by lia. rewrite andb_false_r. lia.
    + replace (eid =? id) with false by lia. cbn [andb]. lia.
    + replace (eid =? id) with false by lia. cbn [andb]. lia.
  - intros x [<-|Hx]; cbn [c_id c_slot]; [lia|]. apply Hb. exact Hx.
Qed.

(* ---- a whole history on one limiter -------------------------------------------------------------- *)
Lemma lrun_R c : forall ops l s,
  wf_cfg c = true -> well_timed c ops = true -> R c l s ->
  exists l', lrun c l ops = (snd (s_run c s ops), Ok l') /\ R c l' (fst (s_run c s ops)).
Proof.
  induction ops as [|o ops IH]; intros l s Hc Hw HR.
  - exists l. split; [reflexivity|exact HR].
  - cbn [well_timed forallb] in Hw. apply andb_prop in Hw. destruct Hw as [Ho Hw].
    apply andb_prop in Ho. destruct Ho as [Ht Hdv].
    destruct (allow_R c l s o Hc Ht Hdv HR) as [l1 [Hal HR1]].
    cbn [lrun s_run]. rewrite Hal.
    destruct (s_step c s o) as [s1 b] eqn:Es. cbn [fst snd] in *.
    destruct (IH l1 s1 Hc Hw HR1) as [l' [Hrun HR']].
    rewrite Hrun. destruct (s_run c s1 ops) as [s2 bs]. cbn [fst snd] in *.
    exists l'. split; [reflexivity|exact HR'].
Qed.

Lemma R_spec0 c : R c (lim0 c) spec0.
Proof. apply R_fresh; reflexivity. Qed.

Lemma R_refines c l s : R c l s -> refines c l s.
Proof.
  intros [Hhi Hh Hl|hi Hhi Hmax Hmin Hpos Hwf Hcell Hb]; unfold refines; rewrite Hhi.
  - split; assumption.
  - destruct Hwf as [Hn Hf]. repeat (split; [assumption|]). split.
    + intros id slot Hid Hs. apply Hcell; lia.
    + intros id slot Hid. apply (ctr_above c hi); [exact Hb|lia].
Qed.

Theorem ring_refines_map c ops :
  wf_cfg c = true -> well_timed c ops = true ->
  exists l, lrun c (lim0 c) ops = (snd (s_run c spec0 ops), Ok l) /\
            refines c l (fst (s_run c spec0 ops)).
Proof.
  intros Hc Hw. destruct (lrun_R c ops (lim0 c) spec0 Hc Hw (R_spec0 c)) as [l [Hrun HR]].
  exists l. split; [exact Hrun|]. apply R_refines. exact HR.
Qed.

(* ---- facts about the reference semantics --------------------------------------------------------- *)
Lemma s_step_hist_exact c s o : hist_exact c (s_hist s) -> hist_exact c (s_hist (fst (s_step c s o))).
Proof.
  intros H. unfold s_step. destruct (limit c <? 0); [exact H|].
  cbn [fst s_hist hist_exact c_pass c_id c_slot c_val]. split; [reflexivity|exact H].
Qed.

Lemma s_run_hist_exact c : forall ops s,
  hist_exact c (s_hist s) -> hist_exact c (s_hist (fst (s_run c s ops))).
Proof.
  induction ops as [|o ops IH]; intros s H; [exact H|].
  cbn [s_run]. pose proof (s_step_hist_exact c s o H) as H1.
  destruct (s_step c s o) as [s1 b]. cbn [fst] in H1.
  specialize (IH s1 H1). destruct (s_run c s1 ops) as [s2 bs]. exact IH.
Qed.

Theorem decisions_exact c ops : hist_exact c (s_hist (fst (s_run c spec0 ops))).
Proof. apply s_run_hist_exact. exact I. Qed.

(* values charged *)
Definition vals_ok (c : cfg) (h : list charge) : Prop :=
  Forall (fun x => if size_kind c then 0 <= c_val x else c_val x = 1) h.

Definition sizes_nonneg (ops : list op) : Prop := Forall (fun o => 0 <= o_size o) ops.

Lemma s_run_vals c : forall ops s,
  (size_kind c = true -> sizes_nonneg ops) -> vals_ok c (s_hist s) ->
  vals_ok c (s_hist (fst (s_run c s ops))).
Proof.
  induction ops as [|o ops IH]; intros s Hs H; [exact H|].
  cbn [s_run].
  assert (H1 : vals_ok c (s_hist (fst (s_step c s o)))).
  { unfold s_step. destruct (limit c <? 0); [exact H|]. cbn [fst s_hist].
    constructor; [|exact H]. cbn [c_val]. destruct (size_kind c) eqn:Ek; [|reflexivity].
    specialize (Hs eq_refl). inversion Hs; assumption. }
  assert (Hs' : size_kind c = true -> sizes_nonneg ops).
  { intros Ek. specialize (Hs Ek). inversion Hs; assumption. }
  destruct (s_step c s o) as [s1 b]. cbn [fst] in H1.
  specialize (IH s1 Hs' H1). destruct (s_run c s1 ops) as [s2 bs]. exact IH.
Qed.

Lemma zcount_cons {A} (f : A -> bool) x r : zcount f (x :: r) = (if f x then 1 else 0) + zcount f r.
Proof. unfold zcount, len. cbn [filter]. destruct (f x); cbn [length]; lia. Qed.

Lemma zcount_nonneg {A} (f : A -> bool) l : 0 <= zcount f l.
Proof. unfold zcount. apply len_nonneg. Qed.

Lemma in_cell_eq id slot x : in_cell id slot x = true -> c_id x = id /\ c_slot x = slot.
Proof. unfold in_cell. lia. Qed.

(* count kind: the total charged to a cell is the number of arrivals *)
Lemma ctr_arrivals h id slot :
  Forall (fun x => c_val x = 1) h -> ctr h id slot = arrivals h id slot.
Proof.
  induction h as [|x r IH]; intros Hv; [reflexivity|].
  inversion Hv as [|? ? Hx Hr]; subst. unfold arrivals in *. cbn [ctr]. rewrite zcount_cons.
  rewrite IH by exact Hr. rewrite Hx. reflexivity.
Qed.

Lemma passes_count c h id slot :
  hist_exact c h -> Forall (fun x => c_val x = 1) h ->
  passes h id slot = Z.max 0 (Z.min (arrivals h id slot) (cell_limit c slot)).
Proof.
  induction h as [|x r IH]; intros He Hv.
  - unfold passes, arrivals, zcount. cbn. lia.
  - destruct He as [Hx He]. inversion Hv as [|? ? Hvx Hvr]; subst.
    specialize (IH He Hvr). unfold passes, arrivals in *. rewrite !zcount_cons.
    pose proof (zcount_nonneg (in_cell id slot) r) as Hn.
    destruct (in_cell id slot x) eqn:Ecell; cbn [andb].
    + apply in_cell_eq in Ecell. destruct Ecell as [Eid Eslot].
      rewrite Hx, Eid, Eslot, Hvx. rewrite (ctr_arrivals r) by exact Hvr. unfold arrivals.
      destruct (Z.leb_spec (zcount (in_cell id slot) r + 1) (cell_limit c slot)); lia.
    + lia.
Qed.

(* size kind (and count kind): what got through is within the cell's limit *)
Lemma passed_size_le_ctr h id slot :
  Forall (fun x => 0 <= c_val x) h -> 0 <= passed_size h id slot <= ctr h id slot.
Proof.
  induction h as [|x r IH]; intros Hv; cbn [passed_size ctr]; [lia|].
  inversion Hv as [|? ? Hx Hr]; subst. specialize (IH Hr).
  destruct (in_cell id slot x); cbn [andb]; [destruct (c_pass x)|]; lia.
Qed.

Lemma passed_size_limit c h id slot :
  hist_exact c h -> Forall (fun x => 0 <= c_val x) h ->
  passed_size h id slot <= Z.max 0 (cell_limit c slot).
Proof.
  induction h as [|x r IH]; intros He Hv; cbn [passed_size]; [lia|].
  destruct He as [Hx He]. inversion Hv as [|? ? Hvx Hvr]; subst. specialize (IH He Hvr).
  pose proof (passed_size_le_ctr r id slot Hvr) as Hle.
  destruct (in_cell id slot x) eqn:Ecell; cbn [andb]; [|lia].
  apply in_cell_eq in Ecell. destruct Ecell as [Eid Eslot].
  destruct (c_pass x) eqn:Ep; [|lia].
  rewrite Eid, Eslot in Hx. symmetry in Hx. apply Z.leb_le in Hx. lia.
Qed.

Lemma vals_ok_nonneg c h : vals_ok c h -> Forall (fun x => 0 <= c_val x) h.
Proof.
  unfold vals_ok. intros H. eapply Forall_impl; [|exact H]. intros x Hx. cbv beta in Hx.
  destruct (size_kind c); lia.
Qed.

Lemma vals_ok_count c h : size_kind c = false -> vals_ok c h -> Forall (fun x => c_val x = 1) h.
Proof. unfold vals_ok. intros -> H. exact H. Qed.

(* ---- effective bucket: the closed form of the bucket every event is charged to ------------------- *)
Lemma s_run_eids c : forall ops s, 0 <= limit c ->
  map c_id (rev (s_hist (fst (s_run c s ops)))) = map c_id (rev (s_hist s)) ++ eids_from c (s_hi s) ops.
Proof.
  induction ops as [|o ops IH]; intros s Hl; cbn [s_run eids_from].
  - rewrite app_nil_r. reflexivity.
  - unfold s_step. replace (limit c <? 0) with false by lia.
    match goal with |- context [s_run c ?s1 ops] => specialize (IH s1 Hl); destruct (s_run c s1 ops) as [s2 bs] end.
    cbn [fst s_hi s_hist] in *. rewrite IH. cbn [rev]. rewrite map_app. cbn [map c_id].
    rewrite <- app_assoc. reflexivity.
Qed.

Theorem effective_bucket c ops : 0 <= limit c ->
  map c_id (rev (s_hist (fst (s_run c spec0 ops)))) = eids_from c None ops.
Proof. intros Hl. rewrite s_run_eids by exact Hl. reflexivity. Qed.

Lemma s_run_hi c : forall ops s, 0 <= limit c ->
  s_hi (fst (s_run c s ops)) =
  match ops with [] => s_hi s | o :: r => Some (max_cur c (s_window c s (o_now o)) r) end.
Proof.
  induction ops as [|o ops IH]; intros s Hl; [reflexivity|].
  cbn [s_run]. unfold s_step. replace (limit c <? 0) with false by lia.
  match goal with |- context [s_run c ?s1 ops] => specialize (IH s1 Hl); destruct (s_run c s1 ops) as [s2 bs] end.
  cbn [fst] in *. rewrite IH. destruct ops as [|o' r]; [reflexivity|]. reflexivity.
Qed.

(* ---- distribution: per bucket id, over all slots -------------------------------------------------- *)
Fixpoint passed_upto (h : list charge) (id n : Z) : Z :=
  match h with
  | [] => 0
  | x :: r => (if in_id id x && c_pass x && (c_slot x <? n) then c_val x else 0) + passed_upto r id n
  end.

Lemma passed_upto_succ h id n :
  passed_upto h id (n + 1) = passed_upto h id n + passed_size h id n.
Proof.
  induction h as [|x r IH]; cbn [passed_upto passed_size]; [lia|]. rewrite IH.
  unfold in_id, in_cell.
  destruct (Z.eqb_spec (c_id x) id), (c_pass x), (Z.ltb_spec (c_slot x) (n + 1)),
    (Z.ltb_spec (c_slot x) n), (Z.eqb_spec (c_slot x) n); cbn [andb]; lia.
Qed.

Lemma passed_upto_all h id n :
  (forall x, In x h -> c_slot x < n) -> passed_upto h id n = passed_size_id h id.
Proof.
  induction h as [|x r IH]; intros Hs; cbn [passed_upto passed_size_id]; [reflexivity|].
  rewrite IH by (intros y Hy; apply Hs; right; exact Hy).
  specialize (Hs x (or_introl eq_refl)). replace (c_slot x <? n) with true by lia.
  rewrite andb_true_r. reflexivity.
Qed.

Lemma passed_upto_0 h id : (forall x, In x h -> 0 <= c_slot x) -> passed_upto h id 0 = 0.
Proof.
  induction h as [|x r IH]; intros Hs; cbn [passed_upto]; [reflexivity|].
  rewrite IH by (intros y Hy; apply Hs; right; exact Hy).
  specialize (Hs x (or_introl eq_refl)). replace (c_slot x <? 0) with false by lia.
  rewrite andb_false_r. reflexivity.
Qed.

Lemma sumZ_app a b : sumZ (a ++ b) = sumZ a + sumZ b.
Proof. unfold sumZ. induction a as [|x a IH]; cbn [app fold_right]; lia. Qed.

Lemma passed_upto_bound c h id :
  hist_exact c h -> Forall (fun x => 0 <= c_val x) h -> (forall x, In x h -> 0 <= c_slot x) ->
  forall k : nat,
    passed_upto h id (Z.of_nat k) <= sumZ (map (fun j => Z.max 0 (cell_limit c (Z.of_nat j))) (seq 0 k)).
Proof.
  intros He Hv Hs. induction k as [|k IH].
  - rewrite passed_upto_0 by exact Hs. cbn. lia.
  - rewrite Nat2Z.inj_succ. unfold Z.succ. rewrite passed_upto_succ.
    rewrite seq_S, map_app, sumZ_app. cbn [map sumZ fold_right Nat.add].
    pose proof (passed_size_limit c h id (Z.of_nat k) He Hv). lia.
Qed.

Lemma sum_nth (f : Z -> Z) (l : list Z) :
  sumZ (map (fun j => f (nth j l 0)) (seq 0 (length l))) = sumZ (map f l).
Proof.
  induction l as [|a l IH]; [reflexivity|].
  cbn [length]. rewrite <- cons_seq, <- seq_shift. cbn [map]. rewrite map_map. cbn [nth].
  unfold sumZ in *. cbn [fold_right]. rewrite IH. reflexivity.
Qed.

Lemma cell_sum c : shares c <> [] ->
  sumZ (map (fun j => Z.max 0 (cell_limit c (Z.of_nat j))) (seq 0 (nslots c))) =
  Z.max 0 (deflimit c) + sumZ (map (Z.max 0) (shares c)).
Proof.
  intros Hne. unfold nslots. rewrite <- cons_seq, <- seq_shift. cbn [map]. rewrite map_map.
  change (Z.of_nat 0) with 0.
  rewrite (cell_limit_lim_of c 0 Hne). unfold lim_of at 1. change (0 =? 0) with true. cbv iota.
  unfold sumZ at 1. cbn [fold_right]. f_equal.
  rewrite <- (sum_nth (Z.max 0)). unfold sumZ. f_equal. apply map_ext. intros j.
  rewrite (cell_limit_lim_of c _ Hne). unfold lim_of.
  replace (Z.of_nat (S j) =? 0) with false by lia.
  replace (Z.to_nat (Z.of_nat (S j) - 1)) with j by lia. reflexivity.
Qed.

Lemma distr_total c h id :
  hist_exact c h -> Forall (fun x => 0 <= c_val x) h ->
  (forall x, In x h -> 0 <= c_slot x < Z.of_nat (nslots c)) -> shares c <> [] ->
  passed_size_id h id <= Z.max 0 (deflimit c) + sumZ (map (Z.max 0) (shares c)).
Proof.
  intros He Hv Hs Hne.
  rewrite <- (passed_upto_all h id (Z.of_nat (nslots c))) by (intros x Hx; apply Hs; exact Hx).
  rewrite <- (cell_sum c Hne). apply passed_upto_bound; auto.
  intros x Hx. apply Hs. exact Hx.
Qed.

(* ---- plugin level: keys never share a budget ------------------------------------------------------ *)
Lemma bytes_eqb_eq a : forall b, bytes_eqb a b = true <-> a = b.
Proof.
  unfold bytes_eqb. induction a as [|x a IH]; intros [|y b]; cbn [N_eqb_list]; split; intros H;
    try reflexivity; try discriminate.
  - apply andb_prop in H. destruct H as [H1 H2]. apply N.eqb_eq in H1. apply IH in H2. congruence.
  - inversion H; subst. rewrite N.eqb_refl. cbn [andb]. apply IH. reflexivity.
Qed.

Lemma bytes_eqb_refl a : bytes_eqb a a = true.
Proof. apply bytes_eqb_eq. reflexivity. Qed.

Lemma bytes_eqb_neq a b : a <> b -> bytes_eqb a b = false.
Proof. intros H. destruct (bytes_eqb a b) eqn:E; [|reflexivity]. apply bytes_eqb_eq in E. contradiction. Qed.

Lemma lm_get_set_same m k v : lm_get (lm_set m k v) k = Some v.
Proof.
  induction m as [|[k0 v0] m IH]; cbn [lm_set lm_get].
  - rewrite bytes_eqb_refl. reflexivity.
  - destruct (bytes_eqb k0 k) eqn:E; cbn [lm_get].
    + rewrite bytes_eqb_refl. reflexivity.
    + rewrite E. exact IH.
Qed.

Lemma lm_get_set_other m k k' v : k' <> k -> lm_get (lm_set m k' v) k = lm_get m k.
Proof.
  intros Hne. induction m as [|[k0 v0] m IH]; cbn [lm_set lm_get].
  - rewrite (bytes_eqb_neq k' k Hne). reflexivity.
  - destruct (bytes_eqb k0 k') eqn:E; cbn [lm_get].
    + apply bytes_eqb_eq in E. subst k0. rewrite (bytes_eqb_neq k' k Hne). reflexivity.
    + destruct (bytes_eqb k0 k); [reflexivity|exact IH].
Qed.

Definition ops_for (p : pcfg) (k : bytes) (es : list pev) : list op := map pev_op (filter (for_key p k) es).

Lemma ops_for_cons p k e es :
  ops_for p k (e :: es) = if for_key p k e then pev_op e :: ops_for p k es else ops_for p k es.
Proof. unfold ops_for. cbn [filter]. destruct (for_key p k e); reflexivity. Qed.

Lemma key_cfg_cons p k e es :
  key_cfg p k (e :: es) = if for_key p k e then ev_cfg p e else key_cfg p k es.
Proof. unfold key_cfg. cbn [filter]. destruct (for_key p k e); reflexivity. Qed.

Lemma lrun_cons c l o ops l' b :
  allow c l (o_now o) (o_ts o) (o_size o) (o_dv o) = Ok (l', b) ->
  fst (lrun c l (o :: ops)) = b :: fst (lrun c l' ops).
Proof. intros H. cbn [lrun]. rewrite H. destruct (lrun c l' ops). reflexivity. Qed.

Lemma keys_independent_gen p k : forall es m ds m',
  prun p m es = (ds, Ok m') ->
  match lm_get m k with
  | Some (c, l) => pick (for_key p k) es ds = fst (lrun c l (ops_for p k es))
  | None =>
      match key_cfg p k es with
      | Some c => pick (for_key p k) es ds = fst (lrun c (lim0 c) (ops_for p k es))
      | None => pick (for_key p k) es ds = []
      end
  end.
Proof.
  induction es as [|e es IH]; intros m ds m' Hrun.
  - cbn [prun] in Hrun. injection Hrun as <- _. unfold ops_for, key_cfg. cbn [filter map lrun pick fst].
    destruct (lm_get m k) as [[c l]|]; reflexivity.
  - cbn [prun] in Hrun. unfold pstep in Hrun. rewrite ops_for_cons, key_cfg_cons.
    destruct (first_match (p_rules p) 0 (e_fields e)) as [[n r]|] eqn:Efm.
    + set (k' := lim_key n (throttle_key (e_fields e))) in *.
      assert (Hfk : for_key p k e = bytes_eqb k' k) by (unfold for_key, ev_key; rewrite Efm; reflexivity).
      assert (Hcfg : ev_cfg p e = Some (rule_cfg p r)) by (unfold ev_cfg; rewrite Efm; reflexivity).
      destruct (lm_find p m k' r) as [c l] eqn:Efind.
      destruct (allow c l (e_now e) (e_ts e) (e_size e) None) as [[l' b]| |] eqn:Eal; cbn [bind] in Hrun;
        try discriminate Hrun.
      destruct (prun p (lm_set m k' (c, l')) es) as [bs fin] eqn:Erest.
      injection Hrun as <- ->.
      specialize (IH _ _ _ Erest). cbn [pick]. rewrite Hfk, Hcfg.
      destruct (bytes_eqb k' k) eqn:Ek.
      * apply bytes_eqb_eq in Ek. subst k. rewrite lm_get_set_same in IH.
        unfold lm_find in Efind.
        destruct (lm_get m k') as [[c0 l0]|] eqn:Eget.
        -- injection Efind as -> ->.
           rewrite (lrun_cons c l (pev_op e) _ l' b Eal). rewrite IH. reflexivity.
        -- injection Efind as <- <-.
           rewrite (lrun_cons _ _ (pev_op e) _ l' b Eal). rewrite IH. reflexivity.
      * assert (Hne : k' <> k) by (intros ->; rewrite bytes_eqb_refl in Ek; discriminate).
        rewrite lm_get_set_other in IH by exact Hne. exact IH.
    + assert (Hfk : for_key p k e = false) by (unfold for_key, ev_key; rewrite Efm; reflexivity).
      destruct (prun p m es) as [bs fin] eqn:Erest. injection Hrun as <- ->.
      specialize (IH _ _ _ Erest). cbn [pick]. rewrite Hfk. exact IH.
Qed.

Theorem keys_independent p es ds m' k :
  prun p [] es = (ds, Ok m') ->
  match key_cfg p k es with
  | Some c => pick (for_key p k) es ds = fst (lrun c (lim0 c) (ops_for p k es))
  | None => pick (for_key p k) es ds = []
  end.
Proof. intros H. exact (keys_independent_gen p k es [] ds m' H). Qed.

Lemma lim_key_inj n n' k k' :
  0 <= n < 256 -> 0 <= n' < 256 -> lim_key n k = lim_key n' k' -> n = n' /\ k = k'.
Proof.
  intros Hn Hn' H. unfold lim_key in H.
  remember (97 + n) as a eqn:Ea. remember (97 + n') as a' eqn:Ea'.
  injection H as H1 H2. split; [|exact H2].
  apply (f_equal Z.of_N) in H1.
  rewrite !Z2N.id in H1 by (apply Z.mod_pos_bound; lia).
  Z.div_mod_to_equations. lia.
Qed.

(* ---- decisions = the pass flags of the history; counting on (bucket, decision) pairs -------------- *)
Lemma s_run_decisions c : forall ops s, 0 <= limit c ->
  map c_pass (rev (s_hist (fst (s_run c s ops)))) = map c_pass (rev (s_hist s)) ++ snd (s_run c s ops).
Proof.
  induction ops as [|o ops IH]; intros s Hl; cbn [s_run].
  - rewrite app_nil_r. reflexivity.
  - unfold s_step. replace (limit c <? 0) with false by lia.
    match goal with |- context [s_run c ?s1 ops] => specialize (IH s1 Hl); destruct (s_run c s1 ops) as [s2 bs] end.
    cbn [fst snd s_hist] in *. rewrite IH. cbn [rev]. rewrite map_app. cbn [map c_pass].
    rewrite <- app_assoc. reflexivity.
Qed.

Lemma s_run_length c : forall ops s, length (snd (s_run c s ops)) = length ops.
Proof.
  induction ops as [|o ops IH]; intros s; [reflexivity|]. cbn [s_run].
  destruct (s_step c s o) as [s1 b]. specialize (IH s1). destruct (s_run c s1 ops) as [s2 bs].
  cbn [snd length] in *. congruence.
Qed.

Lemma s_run_slots0 c : forall ops s, shares c = [] ->
  Forall (fun x => c_slot x = 0) (s_hist s) -> Forall (fun x => c_slot x = 0) (s_hist (fst (s_run c s ops))).
Proof.
  induction ops as [|o ops IH]; intros s Hsh H; [exact H|]. cbn [s_run].
  assert (H1 : Forall (fun x => c_slot x = 0) (s_hist (fst (s_step c s o)))).
  { unfold s_step. destruct (limit c <? 0); [exact H|]. cbn [fst s_hist]. constructor; [|exact H].
    cbn [c_slot]. unfold s_slot. rewrite Hsh. reflexivity. }
  destruct (s_step c s o) as [s1 b]. cbn [fst] in H1. specialize (IH s1 Hsh H1).
  destruct (s_run c s1 ops) as [s2 bs]. exact IH.
Qed.

Lemma zcount_app {A} (f : A -> bool) a b : zcount f (a ++ b) = zcount f a + zcount f b.
Proof. unfold zcount, len. rewrite filter_app, app_length. lia. Qed.

Lemma zcount_rev {A} (f : A -> bool) l : zcount f (rev l) = zcount f l.
Proof.
  induction l as [|x l IH]; [reflexivity|]. cbn [rev]. rewrite zcount_app, IH, !zcount_cons.
  unfold zcount at 2. cbn. lia.
Qed.

Lemma zcount_map {A B} (f : B -> bool) (g : A -> B) l : zcount f (map g l) = zcount (fun x => f (g x)) l.
Proof. induction l as [|x l IH]; [reflexivity|]. cbn [map]. rewrite !zcount_cons, IH. reflexivity. Qed.

Lemma zcount_ext {A} (f g : A -> bool) l : Forall (fun x => f x = g x) l -> zcount f l = zcount g l.
Proof.
  induction l as [|x l IH]; intros H; [reflexivity|]. inversion H as [|? ? Hx Hl]; subst.
  rewrite !zcount_cons, (IH Hl), Hx. reflexivity.
Qed.

Lemma combine_maps {A B C} (f : A -> B) (g : A -> C) l :
  combine (map f l) (map g l) = map (fun x => (f x, g x)) l.
Proof. induction l as [|x l IH]; [reflexivity|]. cbn [map combine]. rewrite IH. reflexivity. Qed.

Lemma count_pairs h id :
  Forall (fun x => c_slot x = 0) h ->
  arrivals h id 0 = arrivals_at (map c_id (rev h)) id /\
  passes h id 0 = passes_at (map c_id (rev h)) (map c_pass (rev h)) id.
Proof.
  intros Hs. unfold arrivals, arrivals_at, passes, passes_at. split.
  - rewrite zcount_map, zcount_rev. apply zcount_ext.
    eapply Forall_impl; [|exact Hs]. intros x Hx. cbv beta in Hx. unfold in_cell. rewrite Hx. lia.
  - rewrite combine_maps, zcount_map, zcount_rev. apply zcount_ext.
    eapply Forall_impl; [|exact Hs]. intros x Hx. cbv beta in Hx. unfold in_cell. cbn [fst snd]. rewrite Hx.
    destruct (c_pass x); lia.
Qed.

Theorem count_limit_plain c ops :
  wf_cfg c = true -> well_timed c ops = true ->
  size_kind c = false -> shares c = [] -> 0 <= limit c ->
  exists ds l, lrun c (lim0 c) ops = (ds, Ok l) /\ length ds = length ops /\
    forall id, passes_at (eids_from c None ops) ds id = Z.min (arrivals_at (eids_from c None ops) id) (limit c).
Proof.
  intros Hc Hw Hk Hsh Hl.
  destruct (ring_refines_map c ops Hc Hw) as [l [Hrun _]].
  exists (snd (s_run c spec0 ops)), l. split; [exact Hrun|]. split; [apply s_run_length|].
  intros id.
  pose proof (effective_bucket c ops Hl) as He.
  pose proof (s_run_decisions c ops spec0 Hl) as Hd. cbn [spec0 s_hist rev map app] in Hd.
  set (h := s_hist (fst (s_run c spec0 ops))) in *.
  assert (Hs0 : Forall (fun x => c_slot x = 0) h) by (apply s_run_slots0; [exact Hsh|constructor]).
  assert (Hv : Forall (fun x => c_val x = 1) h).
  { apply (vals_ok_count c); [exact Hk|]. apply s_run_vals; [|constructor].
    intros Ek. congruence. }
  destruct (count_pairs h id Hs0) as [Ha Hp].
  rewrite <- He, <- Hd, <- Ha, <- Hp.
  rewrite (passes_count c h id 0 (decisions_exact c ops) Hv).
  unfold cell_limit. rewrite Hsh.
  pose proof (zcount_nonneg (in_cell id 0) h). unfold arrivals. lia.
Qed.

(* ---- stealing is sound (only into a slot with room) and complete (rejected only if nothing has room) *)
Lemma s_steal_inv c cv val : forall ds pre md bi,
  shares c = pre ++ ds ->
  (forall j, 1 <= j <= len pre -> lim_of c j - (cv j + val) <= md) ->
  ((bi = 0 /\ md = -1) \/ (1 <= bi <= len pre /\ md = lim_of c bi - (cv bi + val) /\ 0 <= md)) ->
  let r := s_steal cv val ds (len pre) (md, bi) in
  (forall j, 1 <= j <= len (shares c) -> lim_of c j - (cv j + val) <= fst r) /\
  ((snd r = 0 /\ fst r = -1) \/
   (1 <= snd r <= len (shares c) /\ fst r = lim_of c (snd r) - (cv (snd r) + val) /\ 0 <= fst r)).
Proof.
  induction ds as [|d ds IH]; intros pre md bi Hsh Hall Hbest; cbv zeta.
  - cbn [s_steal fst snd]. rewrite Hsh, app_nil_r. split; assumption.
  - cbn [s_steal fst].
    assert (Hpre : len pre + 1 = len (pre ++ [d])).
    { unfold len. rewrite app_length. cbn [length]. lia. }
    assert (Hd : d = lim_of c (len pre + 1)).
    { unfold lim_of. replace (len pre + 1 =? 0) with false by (pose proof (len_nonneg pre); lia).
      rewrite Hsh. replace (Z.to_nat (len pre + 1 - 1)) with (length pre) by (unfold len; lia).
      rewrite app_nth2 by lia. rewrite Nat.sub_diag. reflexivity. }
    assert (Hsh' : shares c = (pre ++ [d]) ++ ds) by (rewrite <- app_assoc; exact Hsh).
    pose proof (len_nonneg pre) as Hp0.
    destruct (Z.gtb_spec (d - (cv (len pre + 1) + val)) md) as [Hgt|Hle]; rewrite Hpre.
    + apply (IH (pre ++ [d])); [exact Hsh'| |].
      * intros j Hj. rewrite <- Hpre in *.
        destruct (Z.eq_dec j (len pre + 1)) as [->|Hne]; [rewrite <- Hd; lia|].
        specialize (Hall j ltac:(lia)). lia.
      * right. rewrite <- Hpre in *. rewrite <- Hd. destruct Hbest as [[_ ->]|[_ [_ ?]]]; lia.
    + apply (IH (pre ++ [d])); [exact Hsh'| |].
      * intros j Hj. rewrite <- Hpre in *.
        destruct (Z.eq_dec j (len pre + 1)) as [->|Hne]; [rewrite <- Hd; lia|].
        apply Hall. lia.
      * rewrite <- Hpre. destruct Hbest as [H|[H1 H2]]; [left; exact H|right; split; [lia|exact H2]].
Qed.

Lemma s_step_charge_ok c s o :
  0 <= limit c -> shares c <> [] ->
  match s_hist (fst (s_step c s o)) with
  | x :: r => r = s_hist s /\ charge_ok c o r x
  | [] => False
  end.
Proof.
  intros Hl Hne. unfold s_step. replace (limit c <? 0) with false by lia. cbn [fst s_hist].
  split; [reflexivity|]. unfold charge_ok. cbn [c_slot c_pass c_id c_val].
  set (eid := s_eid c (s_window c s (o_now o)) (o_ts o)).
  set (val := if size_kind c then o_size o else 1).
  set (cv := ctr (s_hist s) eid).
  unfold s_slot. destruct (shares c) as [|d0 ds] eqn:Esh; [congruence|]. rewrite <- Esh in *.
  destruct (o_dv o) as [i|]; [reflexivity|].
  destruct (Z.leb_spec (cv 0 + val) (deflimit c)) as [Hroom|Hfull].
  - split; [|intros H; congruence].
    rewrite (cell_limit_lim_of c 0 Hne). unfold lim_of. cbn [Z.eqb]. fold (cv 0). intros H. lia.
  - pose proof (s_steal_inv c cv val (shares c) [] (-1) 0 eq_refl) as Hinv.
    change (len []) with 0 in Hinv. cbv zeta in Hinv.
    destruct Hinv as [Hall Hbest]; [intros j Hj; cbn in Hj; lia|left; split; reflexivity|].
    set (r := s_steal cv val (shares c) 0 (-1, 0)) in *.
    rewrite (cell_limit_lim_of c (snd r) Hne). fold (cv (snd r)). split.
    + intros Hrej slot Hslot. rewrite (cell_limit_lim_of c slot Hne). fold (cv slot).
      destruct Hbest as [[Hs Hm]|[Hs [Hm Hpos]]]; [|lia].
      destruct (Z.eq_dec slot 0) as [->|Hs0].
      * unfold lim_of. cbn [Z.eqb]. lia.
      * specialize (Hall slot). unfold nslots, len in *. lia.
    + intros Hs. destruct Hbest as [[Hs0 _]|[_ [Hm Hpos]]]; [contradiction|]. lia.
Qed.

Lemma s_run_attr c : forall ops s rops,
  0 <= limit c -> shares c <> [] -> hist_attr c rops (s_hist s) ->
  hist_attr c (rev ops ++ rops) (s_hist (fst (s_run c s ops))).
Proof.
  induction ops as [|o ops IH]; intros s rops Hl Hne H; [exact H|].
  cbn [s_run rev]. rewrite <- app_assoc. cbn [app].
  pose proof (s_step_charge_ok c s o Hl Hne) as Hstep.
  destruct (s_step c s o) as [s1 b]. cbn [fst] in Hstep.
  specialize (IH s1 (o :: rops) Hl Hne).
  destruct (s_run c s1 ops) as [s2 bs]. cbn [fst] in *. apply IH.
  destruct (s_hist s1) as [|x r]; [contradiction|]. destruct Hstep as [-> Hok].
  cbn [hist_attr]. split; assumption.
Qed.

Theorem distr_attribution c ops :
  0 <= limit c -> shares c <> [] -> hist_attr c (rev ops) (hist_of c ops).
Proof.
  intros Hl Hne. pose proof (s_run_attr c ops spec0 [] Hl Hne I) as H.
  rewrite app_nil_r in H. exact H.
Qed.

(* ---- expiry: dropping a limiter that has been idle for a whole window changes nothing -------------- *)
Lemma map_zero_wf n m (b : list (list Z)) :
  wf_ring n m b -> map (map (fun _ => 0)) b = repeat (zeros m) n.
Proof.
  intros [Hn Hf]. subst n. induction b as [|row b IH]; [reflexivity|].
  inversion Hf as [|? ? Hrow Hb]; subst. cbn [map length repeat]. rewrite (IH Hb). f_equal.
  clear. unfold zeros. induction row as [|x row IH]; [reflexivity|]. cbn [map length repeat]. rewrite IH. reflexivity.
Qed.

Theorem expiry_transparent c l now ts :
  wf_cfg c = true -> wf_lim c l -> 0 < minID l -> maxID l = minID l + count c - 1 ->
  maxID l + count c <= time_to_id c now ->
  rebuild c now ts l = rebuild c now ts (lim0 c).
Proof.
  intros Hc Hwf Hpos Hmax Hidle. unfold wf_cfg in Hc. unfold rebuild.
  replace (minID l =? 0) with false by lia. cbn [lim0 minID maxID ring Z.eqb].
  set (cur := time_to_id c now) in *.
  replace (cur >? minID l + count c - 1) with true by lia.
  replace (cur >? cur - count c + 1 + count c - 1) with false by lia.
  replace (Z.min (cur - (minID l + count c - 1)) (count c)) with (count c) by lia.
  unfold reset_fn. pose proof Hwf as [Hn Hf].
  rewrite slice_from_ok by (unfold len; lia). rewrite slice_to_ok by (unfold len; lia). cbn [bind].
  rewrite skipn_all2 by lia. rewrite firstn_all2 by lia. cbn [app minID maxID].
  rewrite (map_zero_wf _ _ _ Hwf).
  replace (minID l + (cur - (minID l + count c - 1))) with (cur - count c + 1) by lia.
  reflexivity.
Qed.

(* ---- the theorems of Properties/C16.v -------------------------------------------------------------- *)
Lemma hist_slots_range c ops :
  wf_cfg c = true -> well_timed c ops = true ->
  forall x, In x (hist_of c ops) -> 0 <= c_slot x < Z.of_nat (nslots c).
Proof.
  intros Hc Hw x Hx. destruct (lrun_R c ops (lim0 c) spec0 Hc Hw (R_spec0 c)) as [l [_ HR]].
  unfold hist_of in Hx. destruct HR as [_ Hh _|hi _ _ _ _ _ _ Hb].
  - rewrite Hh in Hx. contradiction.
  - apply (Hb x Hx).
Qed.

Lemma run_is_history c ops :
  wf_cfg c = true -> well_timed c ops = true -> 0 <= limit c ->
  exists l, lrun c (lim0 c) ops = (map c_pass (rev (hist_of c ops)), Ok l) /\
            refines c l (fst (s_run c spec0 ops)) /\
            map c_id (rev (hist_of c ops)) = eids_from c None ops.
Proof.
  intros Hc Hw Hl. destruct (ring_refines_map c ops Hc Hw) as [l [Hrun Href]].
  exists l. split; [|split; [exact Href|apply effective_bucket; exact Hl]].
  rewrite Hrun. f_equal. pose proof (s_run_decisions c ops spec0 Hl) as Hd.
  cbn [spec0 s_hist rev map app] in Hd. symmetry. exact Hd.
Qed.

Theorem count_limit c ops :
  wf_cfg c = true -> well_timed c ops = true -> size_kind c = false -> 0 <= limit c ->
  exists l, lrun c (lim0 c) ops = (map c_pass (rev (hist_of c ops)), Ok l) /\
    map c_id (rev (hist_of c ops)) = eids_from c None ops /\
    forall id slot,
      passes (hist_of c ops) id slot = Z.max 0 (Z.min (arrivals (hist_of c ops) id slot) (cell_limit c slot)).
Proof.
  intros Hc Hw Hk Hl. destruct (run_is_history c ops Hc Hw Hl) as [l [Hrun [_ He]]].
  exists l. split; [exact Hrun|]. split; [exact He|]. intros id slot.
  apply passes_count; [apply decisions_exact|].
  apply (vals_ok_count c); [exact Hk|]. apply s_run_vals; [intros Ek; congruence|constructor].
Qed.

Theorem size_limit c ops :
  wf_cfg c = true -> well_timed c ops = true -> 0 <= limit c ->
  Forall (fun o => 0 <= o_size o) ops ->
  exists l, lrun c (lim0 c) ops = (map c_pass (rev (hist_of c ops)), Ok l) /\
    map c_id (rev (hist_of c ops)) = eids_from c None ops /\
    hist_exact c (hist_of c ops) /\
    forall id slot, passed_size (hist_of c ops) id slot <= Z.max 0 (cell_limit c slot).
Proof.
  intros Hc Hw Hl Hs. destruct (run_is_history c ops Hc Hw Hl) as [l [Hrun [_ He]]].
  exists l. split; [exact Hrun|]. split; [exact He|]. split; [apply decisions_exact|]. intros id slot.
  apply passed_size_limit; [apply decisions_exact|].
  apply (vals_ok_nonneg c). apply s_run_vals; [intros _; exact Hs|constructor].
Qed.

Theorem distr_shares c ops :
  wf_cfg c = true -> well_timed c ops = true -> 0 <= limit c -> shares c <> [] ->
  Forall (fun o => 0 <= o_size o) ops ->
  (forall id slot, passed_size (hist_of c ops) id slot <= Z.max 0 (cell_limit c slot)) /\
  (forall id, passed_size_id (hist_of c ops) id <= Z.max 0 (deflimit c) + sumZ (map (Z.max 0) (shares c))) /\
  hist_attr c (rev ops) (hist_of c ops).
Proof.
  intros Hc Hw Hl Hne Hs.
  assert (Hv : Forall (fun x => 0 <= c_val x) (hist_of c ops)).
  { apply (vals_ok_nonneg c). apply s_run_vals; [intros _; exact Hs|constructor]. }
  split; [|split].
  - intros id slot. apply passed_size_limit; [apply decisions_exact|exact Hv].
  - intros id. apply distr_total; [apply decisions_exact|exact Hv| |exact Hne].
    apply hist_slots_range; assumption.
  - apply distr_attribution; assumption.
Qed.

Theorem window_closed_form c o ops :
  wf_cfg c = true -> well_timed c (o :: ops) = true -> 0 <= limit c ->
  exists ds l, lrun c (lim0 c) (o :: ops) = (ds, Ok l) /\
    maxID l = max_cur c (time_to_id c (o_now o)) ops /\ minID l = maxID l - count c + 1.
Proof.
  intros Hc Hw Hl. destruct (ring_refines_map c (o :: ops) Hc Hw) as [l [Hrun Href]].
  exists (snd (s_run c spec0 (o :: ops))), l. split; [exact Hrun|].
  unfold refines in Href. rewrite (s_run_hi c (o :: ops) spec0 Hl) in Href.
  destruct Href as [Hmax [Hmin _]]. unfold s_window in Hmax, Hmin. cbn [spec0 s_hi] in Hmax, Hmin. lia.
Qed.

(* without the clock hypothesis the minID = 0 sentinel misfires: a clock inside the first window after
   the epoch makes minID 0 again, the next call re-initialises the ids WITHOUT rotating the ring *)
Definition c_small : cfg := {| count := 2; interval := 10; size_kind := false; limit := 1; deflimit := 0; shares := [] |}.
Definition mk (now ts size : Z) : op := {| o_now := now; o_ts := ts; o_size := size; o_dv := None |}.

Lemma sentinel_refuted :
  exists c ops, wf_cfg c = true /\ well_timed c ops = false /\
    fst (lrun c (lim0 c) ops) = [true; false] /\ snd (s_run c spec0 ops) = [true; true].
Proof. exists c_small, [mk 10 10 1; mk 20 20 1]. vm_compute. repeat split. Qed.

(* a limiter dropped after less than a window of idleness forgets buckets that are still retained:
   bucket 2 (limit 1) lets a second event through *)
Lemma short_expiry_refuted :
  exists c l o, lrun c (lim0 c) [mk 20 20 1] = ([true], Ok l) /\
    time_to_id c (o_now o) < maxID l + count c /\
    fst (lrun c l [o]) = [false] /\ fst (lrun c (lim0 c) [o]) = [true].
Proof.
  exists c_small. eexists. exists (mk 30 25 1). split; [vm_compute; reflexivity|].
  vm_compute. repeat split.
Qed.

(* size kind: rejected events are charged too, so after one oversized event the bucket stays closed
   although nothing has passed and the next event alone would fit *)
Lemma size_rejected_are_charged :
  exists c ops, wf_cfg c = true /\ well_timed c ops = true /\
    fst (lrun c (lim0 c) ops) = [false; false] /\
    passed_size (hist_of c ops) 2 0 = 0 /\ 0 + 1 <= limit c.
Proof.
  exists {| count := 2; interval := 10; size_kind := true; limit := 10; deflimit := 0; shares := [] |},
         [mk 20 20 100; mk 20 20 1].
  vm_compute. repeat split; congruence.
Qed.
