(* SHUTDOWN of the batcher model (Model/Batcher.v): Batcher.Stop closes fullBatches and waits for the workers
   (workersWg.Wait).  From EVERY reachable stopped state, worker steps alone finish every batch in flight: Stop
   returns, every sealed batch went through its commit section in formation order, and every event of a sealed batch
   is committed or was handed to the retry-error path.  What sits in the half-filled current batch stays there
   (Add on a stopped batcher appends nothing: LAdd is not enabled).  Needs the repaired order "send into fullBatches
   before mu.Unlock" (atomic_push, the generated constant): otherwise a sealed batch may still be Pending at Stop
   and its send panics (stop_panics_without_atomic_push). *)
From Verif Require Import Base.Sx Model.Batcher Proofs.Batcher Proofs.BatcherDrain Gen.BatcherGen.
From Coq Require Import Lia ZifyBool Bool List ZArith.
Import ListNotations.
Local Open Scope Z_scope.

Lemma nopanic_reach c s : atomic_push c = true -> reach c s -> inv_nopanic s.
Proof.
  intros Ha [ls Hr].
  exact (run_invariant c inv_nopanic (fun s0 l s1 => inv_nopanic_step c s0 l s1 Ha) ls _ _ (inv_nopanic_init c) Hr).
Qed.

(* the step of the worker that holds the OLDEST batch in flight is enabled and decreases the measure, stopped or not -
   except the send of a Pending batch, which needs a batcher that is not stopped *)
Lemma head_progress c s b r :
  0 < workers c -> reach c s -> crashed s = false -> flight s = b :: r -> (bstage b = Pending -> stopped s = false) ->
  internal (head_label c b) /\ exists s', step c s (head_label c b) = Some s' /\ (measure s' < measure s)%nat.
Proof.
  intros Hw Hr Hcr Hfl Hpend.
  assert (Hpl : retriable c = false -> forall b t ph, In b (flight s) -> bstage b = Sending t ph -> ph = PIdle)
    by (intros Hret; exact (plain_full_reach c s Hret Hr)).
  pose proof (extra_reach c s ltac:(lia) Hr) as [E1 E2 E3 E4].
  destruct Hr as [ls0 Hr0]. pose proof (wf_reach _ _ _ Hr0) as Hwf.
pose proof (head_find _ _ _ Hfl) as Hfb.
assert (Hinb : In b (flight s)) by (rewrite Hfl; left; reflexivity).
assert (Hret : forall t ph, bstage b = Sending t ph -> ph <> PIdle -> retriable c = true).
{ intros t ph Hs Hne. destruct (retriable c) eqn:E; [reflexivity|]. exfalso. apply Hne.
  apply (Hpl eq_refl b t ph); [exact Hinb|exact Hs]. }
unfold head_label. destruct (bstage b) as [| | |t ph| |k] eqn:Hst.
+ (* Pending: send into the channel *)
  split; [exact I|]. eexists. split; [hd_eval Hcr Hfb Hst; rewrite (Hpend eq_refl); reflexivity|meas Hfl Hst].
+ (* Queued: a worker is idle and receives it *)
  split; [exact I|].
  assert (Hq : existsb (Z.eqb (bseq b)) (queue s) = true).
  { apply existsb_exists. exists (bseq b). split; [exact (E2 _ Hinb Hst)|apply Z.eqb_refl]. }
  pose proof (head_queued_busy _ _ _ _ Hwf E1 Hfl Hst) as Hbusy.
  eexists. split.
  { step_eval Hcr. rewrite Hq. replace (busy_workers (flight s) <? workers c) with true by lia. reflexivity. }
  meas Hfl Hst.
+ (* Taken *)
  destruct (has_iter (bevs b)) eqn:Hhi; (split; [exact I|]).
  * eexists. split; [hd_eval Hcr Hfb Hst; rewrite Hhi, Z.eqb_refl; reflexivity|meas Hfl Hst].
  * (* no iterable event: OutFn is skipped, straight into the commit section *)
    assert (Hnc : committing b = false) by (unfold committing; rewrite Hst; reflexivity).
    destruct (head_nocommit _ _ _ _ Hwf Hfl Hnc) as [Hcb Hseq].
    eexists. split.
    { unfold step. rewrite Hcr. cbv beta iota zeta. rewrite Hfb. cbv beta iota. rewrite Hcb. cbv beta iota.
      rewrite Hst. cbv beta iota. rewrite Hhi, Z.eqb_refl.
      replace (bseq b =? commitSeq s) with true by lia. reflexivity. }
    meas Hfl Hst.
+ destruct ph.
  * (* Sending, before a call *)
    destruct (retriable c) eqn:Hre; (split; [exact I|]); eexists; split.
    -- hd_eval Hcr Hfb Hst. rewrite Hre, Z.eqb_refl. reflexivity.
    -- meas Hfl Hst.
    -- hd_eval Hcr Hfb Hst. guard_true ltac:(rewrite Hre; destruct (bemptied b); rewrite ?Z.eqb_refl; reflexivity).
    -- meas Hfl Hst.
  * (* inside outFn: it succeeds *)
    split; [exact I|]. eexists. split; [hd_eval Hcr Hfb Hst; rewrite Z.eqb_refl; reflexivity|meas Hfl Hst].
  * (* after a failed call *)
    pose proof (Hret _ _ eq_refl ltac:(discriminate)) as Hre.
    destruct ((0 <=? retry c) && (retry c <? t)) eqn:Hgu; (split; [exact I|]); eexists; split.
    -- hd_eval Hcr Hfb Hst. rewrite Hgu, !Z.eqb_refl, Bool.eqb_reflx. reflexivity.
    -- meas Hfl Hst.
    -- hd_eval Hcr Hfb Hst. rewrite Hre, Hgu, Z.eqb_refl. reflexivity.
    -- meas Hfl Hst.
  * (* the retry frame is done *)
    pose proof (Hret _ _ eq_refl ltac:(discriminate)) as Hre.
    split; [exact I|]. eexists. split.
    { hd_eval Hcr Hfb Hst. guard_true ltac:(rewrite Hre; destruct (bemptied b); rewrite ?Z.eqb_refl; reflexivity). }
    meas Hfl Hst.
+ (* Sent: it is the batch the commit order waits for *)
  split; [exact I|].
  assert (Hnc : committing b = false) by (unfold committing; rewrite Hst; reflexivity).
  destruct (head_nocommit _ _ _ _ Hwf Hfl Hnc) as [Hcb Hseq].
  eexists. split.
  { unfold step. rewrite Hcr. cbv beta iota zeta. rewrite Hfb. cbv beta iota. rewrite Hcb. cbv beta iota.
    rewrite Hst. cbv beta iota. rewrite Z.eqb_refl.
    replace (bseq b =? commitSeq s) with true by lia. reflexivity. }
  meas Hfl Hst.
+ (* inside the commit section *)
  pose proof (head_committing _ _ _ _ Hfl Hst) as Hcb.
  destruct (if bemptied b then None else nth_error (bevs b) k) as [e|] eqn:Hnth; (split; [exact I|]).
  * assert (Hlt : (k < length (bevs b))%nat).
    { destruct (bemptied b); [discriminate Hnth|]. apply nth_error_Some. congruence. }
    eexists. split.
    { unfold step. rewrite Hcr. cbv beta iota zeta. rewrite Hcb. cbv beta iota. rewrite Hst. cbv beta iota.
      rewrite Hnth. cbv beta iota. rewrite ev_eqb_refl. reflexivity. }
    meas Hfl Hst.
  * assert (Hg : (Z.of_nat k =? (if bemptied b then 0 else Z.of_nat (length (bevs b)))) = true).
    { pose proof (E3 _ _ Hinb Hst) as Hk. revert Hk Hnth.
      destruct (bemptied b); intros Hk Hnth; [subst k; reflexivity|apply nth_error_None in Hnth; lia]. }
    eexists. split.
    { hd_eval Hcr Hfb Hst. rewrite Hg, Z.eqb_refl. reflexivity. }
    meas Hfl Hst.
Qed.

(* stopped / crashed / added are not touched by an internal label - the send on a closed channel aside *)
Lemma internal_keeps c s l s' :
  internal l -> step c s l = Some s' -> crashed s = false -> (stopped s = true -> forall q, l <> LPush q) ->
  stopped s' = stopped s /\ crashed s' = false /\ added s' = added s.
Proof.
  intros Hi H Hc Hp. destruct (stopped s) eqn:Hs.
  - destruct l; try contradiction; try (exfalso; exact (Hp eq_refl _ eq_refl));
      step_inv H; repeat split; congruence.
  - destruct (internal_live c s l s' Hi H Hs Hc) as (H1 & H2 & H3). repeat split; congruence.
Qed.

Lemma head_label_push c b q : head_label c b = LPush q -> bstage b = Pending.
Proof.
  unfold head_label. destruct (bstage b) as [| | |t ph| |k]; [reflexivity| | | | |]; intros H; exfalso; cbv zeta in H;
    try destruct ph;
    repeat match type of H with context [if ?x then _ else _] => destruct x end;
    cbv beta iota in H;
    repeat match type of H with context [match ?x with Some _ => _ | None => _ end] => destruct x end;
    discriminate H.
Qed.

(* running the workers of a stopped batcher until nothing is in flight *)
Lemma stop_loop c : 0 < workers c -> atomic_push c = true ->
  forall n s, (measure s < n)%nat -> reach c s -> stopped s = true -> crashed s = false ->
  exists ls' s', Forall internal ls' /\ run c s ls' = Some s' /\ flight s' = [] /\
                 stopped s' = true /\ crashed s' = false /\ added s' = added s.
Proof.
  intros Hw Ha n. induction n as [|n IH]; intros s Hm Hr Hstop Hcr; [lia|].
  destruct (flight s) as [|b r] eqn:Hfl.
  - exists [], s. split; [constructor|]. split; [reflexivity|]. repeat split; assumption.
  - destruct (nopanic_reach c s Ha Hr) as (_ & _ & Hnp).
    assert (Hnpend : bstage b <> Pending) by (apply (Hnp Hstop); rewrite Hfl; left; reflexivity).
    assert (Hpend : bstage b = Pending -> stopped s = false) by (intros Hp; contradiction).
    destruct (head_progress c s b r Hw Hr Hcr Hfl Hpend) as (Hi & s1 & Hs1 & Hlt).
    assert (Hnp1 : stopped s = true -> forall q, head_label c b <> LPush q)
      by (intros _ q Hq; exact (Hnpend (head_label_push c b q Hq))).
    destruct (internal_keeps c s _ s1 Hi Hs1 Hcr Hnp1) as (Hst1 & Hcr1 & Hadd1).
    destruct (IH s1 ltac:(lia) (reach_step c s _ s1 Hr Hs1) ltac:(congruence) Hcr1)
      as (ls' & s' & Hint & Hrun & Hfl' & Hstop' & Hcr' & Hadd').
    exists (head_label c b :: ls'), s'. split; [constructor; assumption|].
    split; [cbn [run]; rewrite Hs1; exact Hrun|]. repeat split; try assumption. congruence.
Qed.

(* nothing in flight: every sealed batch went through its commit section, and each of its events is committed or was
   handed to onRetryError (whatever is in the current batch aside) *)
Lemma flight_empty_sealed_accounted c s :
  0 <= workers c -> reach c s -> flight s = [] ->
  queue s = [] /\ commitSeq s = outSeq s /\
  forall evs e, In evs (sealed_hist s) -> In e evs -> In e (committed s) \/ exists f, In f (failed_hist s) /\ In e (snd f).
Proof.
  intros Hw Hr Hfl. pose proof (extra_reach c s Hw Hr) as [_ _ _ E4]. destruct Hr as [ls Hr].
  pose proof (wf_reach _ _ _ Hr) as Hwf. destruct (shape_reach _ _ _ Hr) as (_ & _ & J3).
  pose proof (wf_consec _ _ Hwf) as Hcs. pose proof (wf_len _ _ Hwf) as Hlen.
  assert (Hlo : lo_seq s = commitSeq s) by (unfold lo_seq; rewrite Hfl; cbn [existsb]; lia).
  rewrite Hfl in Hcs. cbn [map consec] in Hcs.
  split; [|split; [lia|]].
  - destruct (queue s) as [|q qs] eqn:Hq; [reflexivity|]. exfalso.
    destruct (wf_queue _ _ Hwf q) as (b & Hb & _); [rewrite Hq; left; reflexivity|]. rewrite Hfl in Hb. discriminate Hb.
  - intros evs e Hevs He.
    assert (Hc : In e (concat (rev (sealed_hist s)))) by (apply in_concat; exists evs; split; [apply -> in_rev; exact Hevs|exact He]).
    rewrite Hfl in J3. cbn [partial_of] in J3. rewrite app_nil_r in J3.
    replace (Z.to_nat (lo_seq s)) with (length (rev (sealed_hist s))) in J3 by (rewrite rev_length; lia).
    rewrite firstn_all in J3.
    destruct (In_concat_eff (emptied c s) e _ 0 Hc) as [H|(k & B & Hk & HB & Hem)].
    + left. apply in_rev. rewrite J3. exact H.
    + right. unfold emptied in Hem. apply andb_true_iff in Hem. destruct Hem as [_ Hem].
      apply existsb_exists in Hem. destruct Hem as (f & Hf & Hfk). apply Z.eqb_eq in Hfk.
      exists f. split; [exact Hf|]. pose proof (E4 _ Hf) as Hnth.
      replace (Z.to_nat (fseq f)) with k in Hnth by lia. rewrite Hk in Hnth. inversion Hnth; subst B. exact HB.
Qed.

(* Batcher.Stop returns: from every reachable stopped state the workers alone finish what was sealed *)
Theorem batcher_stop_returns :
  forall c ls s, 0 < workers c -> atomic_push c = batcher_atomic_push ->
    run c (init c) ls = Some s -> stopped s = true ->
    exists ls' s', Forall internal ls' /\ run c s ls' = Some s' /\
      crashed s' = false /\ stopped s' = true /\ added s' = added s /\
      flight s' = [] /\ queue s' = [] /\ commitSeq s' = outSeq s' /\
      (forall evs e, In evs (sealed_hist s') -> In e evs ->
                     In e (committed s') \/ exists f, In f (failed_hist s') /\ In e (snd f)).
Proof.
  intros c ls s Hw Ha Hr Hstop. unfold batcher_atomic_push in Ha.
  assert (Hreach : reach c s) by (exists ls; exact Hr).
  destruct (nopanic_reach c s Ha Hreach) as (Hcr & _ & _).
  destruct (stop_loop c Hw Ha (S (measure s)) s ltac:(lia) Hreach Hstop Hcr)
    as (ls' & s' & Hint & Hrun & Hfl & Hstop' & Hcr' & Hadd).
  destruct (flight_empty_sealed_accounted c s' ltac:(lia) (reach_run c s ls' s' Hreach Hrun) Hfl) as (Hq & Hseq & Hall).
  exists ls', s'. repeat (split; [assumption|]). exact Hall.
Qed.

(* ... and nothing is added to a stopped batcher: Add returns without appending (no LAdd label is enabled) *)
Theorem stopped_batcher_accepts_nothing c s e : stopped s = true -> step c s (LAdd e) = None.
Proof.
  intros Hs. unfold step. destruct (crashed s); [reflexivity|]. destruct (cur s); [|reflexivity].
  rewrite Hs. reflexivity.
Qed.

(* non-vacuity: 2 workers, a batch inside OutFn, a sealed batch queued and a half-filled current batch when Stop comes:
   reachable, stopped, not drained; the theorem's hypotheses hold *)
Definition cfgS : cfg :=
  {| workers := 2; maxCount := 1; maxBytes := 0; retriable := false; retry := 0; deadq := false; atomic_push := true |}.
Definition traceS : list label :=
  [LFree; LAdd (mkev 1); LSeal 0 1 1 1; LPush 0; LTake 0; LOutBegin 0 1;
   LFree; LAdd (mkev 2); LSeal 1 1 1 1; LPush 1; LStop].
Definition drainS : list label :=
  [LOutEnd 0 1 1; LCommitBegin 0 1; LCommitEv (mkev 1); LCommitEnd 0 1;
   LTake 1; LOutBegin 1 1; LOutEnd 1 1 1; LCommitBegin 1 1; LCommitEv (mkev 2); LCommitEnd 1 1].
Example batcher_stop_nonvacuous :
  exists s, run cfgS (init cfgS) traceS = Some s /\ stopped s = true /\ length (flight s) = 2%nat /\
    step cfgS s (LAdd (mkev 3)) = None /\
    exists s', run cfgS s drainS = Some s' /\ flight s' = [] /\ rev (committed s') = [mkev 1; mkev 2].
Proof.
  eexists. split; [vm_compute; reflexivity|]. split; [reflexivity|]. split; [reflexivity|]. split; [vm_compute; reflexivity|].
  eexists. split; [vm_compute; reflexivity|]. split; reflexivity.
Qed.
