(* Proofs about Model/C15Pipe.v (the join plugin inside a pipeline):
   pj_instances_as_one  under the delivery discipline (monitor 2) the per-instance join state machines - what the
                        pipeline really has, one plugin instance per processor - compute exactly what ONE state machine
                        per stream computes: the lines of a stream are joined as if the stream had the action to itself;
   pj_gate_sound        monitor 3 accepted => the sequence delivered for the stream is a panic-free join_run with the
                        observed ActionResults, and it satisfies the delivery hypothesis busy_ok of the action-level
                        theorems (c15_join_runs ...), i.e. the hypothesis is discharged on every accepted trace. *)
From Verif Require Import Base.Sx Base.GoSem Model.Join Model.C15Pipe Proofs.Join.
From Coq Require Import Lia ZifyBool.

(* ---- association lists ------------------------------------------------------------------------ *)
Lemma zget_same : forall {A} (d : A) k v m, zget d k ((k, v) :: m) = v.
Proof. intros A d k v m. unfold zget. cbn [zlookup]. rewrite Z.eqb_refl. reflexivity. Qed.

Lemma zget_other : forall {A} (d : A) k k' v m, k' <> k -> zget d k' ((k, v) :: m) = zget d k' m.
Proof.
  intros A d k k' v m Hne. unfold zget. cbn [zlookup].
  destruct (k =? k') eqn:E; [apply Z.eqb_eq in E; congruence | reflexivity].
Qed.

Lemma zlookup_in : forall {A} k (m : list (Z * A)) v, zlookup k m = Some v -> In k (map fst m).
Proof.
  intros A k m. induction m as [|[k' v'] r IH]; intros v H; cbn [zlookup] in H; [discriminate|].
  cbn [map fst]. destruct (k' =? k) eqn:E.
  - left. apply Z.eqb_eq in E. exact E.
  - right. eapply IH. exact H.
Qed.

(* ---- an idle join action has no memory -------------------------------------------------------- *)
Lemma join_do_idle : forall c st1 st2 e,
  isJoining st1 = false -> isJoining st2 = false ->
  match join_do c st1 e, join_do c st2 e with
  | Ok (s1, o1), Ok (s2, o2) => o1 = o2 /\ isJoining s1 = isJoining s2 /\ (isJoining s1 = true -> s1 = s2)
  | Ok _, _ => False
  | _, Ok _ => False
  | _, _ => True
  end.
Proof.
  intros c st1 st2 [i x] H1 H2. cbn [join_do]. destruct x as [| |isStr v starts conts].
  - rewrite H1, H2. exact I.
  - rewrite H1, H2. repeat split; try congruence.
  - destruct (if isStr then find_true starts 0 else None).
    + rewrite H1, H2. cbn. repeat split; reflexivity.
    + rewrite H1, H2. repeat split; congruence.
Qed.

Lemma join_do_timeout_ok : forall c st i x, join_do c st (i, JTimeout) = Ok x -> isJoining st = true.
Proof.
  intros c st i x H. cbn [join_do] in H. destruct (isJoining st); [reflexivity | discriminate].
Qed.

(* ---- instances as one ------------------------------------------------------------------------- *)
Definition pj_inv (I V : list (Z * jstate)) (B : list (Z * option Z)) : Prop :=
  (forall i s, zget None i B = Some s ->
     zget jstate0 i I = zget jstate0 s V /\ isJoining (zget jstate0 i I) = true) /\
  (forall i, zget None i B = None -> isJoining (zget jstate0 i I) = false) /\
  (forall s, (forall i, zget None i B <> Some s) -> isJoining (zget jstate0 s V) = false).

Lemma pj_inv_init : pj_inv [] [] [].
Proof.
  split; [|split].
  - intros i s H. unfold zget in H. cbn in H. discriminate.
  - intros i _. reflexivity.
  - intros s _. reflexivity.
Qed.

Lemma pj_inv_step : forall I V B i s st1 st2 b,
  pj_inv I V B ->
  (forall j, j <> i -> zget None j B <> Some s) ->
  (zget None i B = Some s \/ zget None i B = None) ->
  isJoining st1 = b -> isJoining st2 = b -> (b = true -> st1 = st2) ->
  pj_inv ((i, st1) :: I) ((s, st2) :: V) ((i, if b then Some s else None) :: B).
Proof.
  intros I V B i s st1 st2 b [Inv1 [Inv2 Inv3]] Hoth Hi H1 H2 Heq.
  split; [|split].
  - intros i' s' Hg. destruct (Z.eq_dec i' i) as [->|Hne].
    + rewrite zget_same in Hg. destruct b; [|discriminate]. inversion Hg; subst s'.
      rewrite !zget_same. split; [apply Heq; reflexivity | exact H1].
    + rewrite zget_other in Hg by exact Hne.
      assert (Hs : s' <> s) by (intros ->; exact (Hoth i' Hne Hg)).
      rewrite (zget_other jstate0 i i') by exact Hne.
      rewrite (zget_other jstate0 s s') by exact Hs.
      apply Inv1. exact Hg.
  - intros i' Hg. destruct (Z.eq_dec i' i) as [->|Hne].
    + rewrite zget_same in Hg. rewrite zget_same. destruct b; [discriminate | exact H1].
    + rewrite zget_other in Hg by exact Hne. rewrite zget_other by exact Hne. apply Inv2. exact Hg.
  - intros s' Hall. destruct (Z.eq_dec s' s) as [->|Hne].
    + rewrite zget_same. specialize (Hall i). rewrite zget_same in Hall.
      destruct b; [exfalso; apply Hall; reflexivity | exact H2].
    + rewrite zget_other by exact Hne. apply Inv3. intros i'.
      destruct (Z.eq_dec i' i) as [->|Hni].
      * destruct Hi as [Hi|Hi]; rewrite Hi; [intros Hc; inversion Hc; congruence | discriminate].
      * specialize (Hall i'). rewrite zget_other in Hall by exact Hni. exact Hall.
Qed.

Lemma disc_others : forall (B : list (Z * option Z)) i s,
  forallb (fun j => (j =? i) || negb (opt_is (zget None j B) s)) (map fst B) = true ->
  forall j, j <> i -> zget None j B <> Some s.
Proof.
  intros B i s H j Hne Hg.
  assert (Hin : In j (map fst B)).
  { unfold zget in Hg. destruct (zlookup j B) eqn:El; [|discriminate]. eapply zlookup_in. exact El. }
  rewrite forallb_forall in H. specialize (H j Hin). rewrite Hg in H. cbn [opt_is] in H.
  rewrite Z.eqb_refl in H. cbn in H. rewrite orb_false_r in H. apply Z.eqb_eq in H. exact (Hne H).
Qed.

Lemma pj_as_one_gen : forall c log I V B os,
  pj_inv I V B ->
  inst_run c I log = (os, true) ->
  pj_disc B (zip_busy log os) = true ->
  stream_run c V log = (os, true).
Proof.
  intros c log. induction log as [|[[i s] e] r IH]; intros I V B os Inv Hrun Hd.
  - cbn in Hrun. inversion Hrun; subst. reflexivity.
  - cbn [inst_run] in Hrun.
    destruct (join_do c (zget jstate0 i I) e) as [[st' o]| |] eqn:E; try discriminate.
    destruct (inst_run c ((i, st') :: I) r) as [os' ok'] eqn:E2.
    inversion Hrun; subst os ok'. clear Hrun.
    cbn [zip_busy pj_disc] in Hd.
    apply andb_prop in Hd. destruct Hd as [Hd H3]. apply andb_prop in Hd. destruct Hd as [H1 H2].
    pose proof (disc_others B i s H2) as Hoth.
    pose proof (join_busy_iff_joining c _ e st' o E) as Hbusy.
    destruct Inv as [Inv1 [Inv2 Inv3]].
    cbn [stream_run].
    destruct (zget None i B) as [s'|] eqn:EB.
    + apply Z.eqb_eq in H1. subst s'.
      destruct (Inv1 i s EB) as [Hsame Hj].
      rewrite <- Hsame. rewrite E.
      rewrite (IH ((i, st') :: I) ((s, st') :: V) ((i, if is_busy (fst o) then Some s else None) :: B) os').
      * reflexivity.
      * apply pj_inv_step.
        -- exact (conj Inv1 (conj Inv2 Inv3)).
        -- exact Hoth.
        -- left. exact EB.
        -- symmetry. exact Hbusy.
        -- symmetry. exact Hbusy.
        -- intros _. reflexivity.
      * exact E2.
      * exact H3.
    + pose proof (Inv2 i EB) as Hidle1.
      assert (Hidle2 : isJoining (zget jstate0 s V) = false).
      { apply Inv3. intros j. destruct (Z.eq_dec j i) as [->|Hne]; [rewrite EB; discriminate | apply Hoth; exact Hne]. }
      pose proof (join_do_idle c _ _ e Hidle1 Hidle2) as Hid. rewrite E in Hid.
      destruct (join_do c (zget jstate0 s V) e) as [[st2 o2]| |] eqn:E3; try contradiction.
      destruct Hid as [Ho [Hjj Heq]]. subst o2.
      rewrite (IH ((i, st') :: I) ((s, st2) :: V) ((i, if is_busy (fst o) then Some s else None) :: B) os').
      * reflexivity.
      * apply pj_inv_step.
        -- exact (conj Inv1 (conj Inv2 Inv3)).
        -- exact Hoth.
        -- right. exact EB.
        -- symmetry. exact Hbusy.
        -- rewrite <- Hjj. symmetry. exact Hbusy.
        -- intros Hb. apply Heq. rewrite <- Hbusy. exact Hb.
      * exact E2.
      * exact H3.
Qed.

Theorem pj_instances_as_one : forall c log os,
  inst_run c [] log = (os, true) ->
  pj_disc [] (zip_busy log os) = true ->
  stream_run c [] log = (os, true).
Proof. intros c log os. apply pj_as_one_gen. exact pj_inv_init. Qed.

(* ---- monitor 3 discharges the delivery hypothesis --------------------------------------------- *)
Lemma pj_gate_sound_gen : forall c stop dos st fed outs,
  gate_run c stop st fed dos outs = true ->
  exists evs os st',
    join_run c st evs = (os, Ok st') /\
    map (fun o : jstep => fst o) os = map pd_res dos /\
    length evs = length dos /\
    busy_ok_from c st (isJoining st) evs = true.
Proof.
  intros c stop dos. induction dos as [|d dos' IH]; intros st fed outs H.
  - exists [], [], st. repeat split.
  - cbn [gate_run] in H. destruct (pd_timeout d) eqn:Ht.
    + destruct (join_do c st (-1, JTimeout)) as [[st1 [r em]]| |] eqn:E; try discriminate.
      apply andb_prop in H. destruct H as [Hr H]. apply Z.eqb_eq in Hr.
      destruct (take_prefix (map emit_out em) outs) as [outs'|]; [|discriminate].
      destruct (IH _ _ _ H) as [evs [os [st' [Hrun [Hres [Hlen Hb]]]]]].
      exists ((-1, JTimeout) :: evs), ((r, em) :: os), st'.
      pose proof (join_do_timeout_ok c st _ _ E) as Hj.
      pose proof (join_busy_iff_joining c st _ st1 _ E) as Hbusy. cbn [fst] in Hbusy.
      repeat split.
      * cbn [join_run]. rewrite E. rewrite Hrun. reflexivity.
      * cbn [map fst]. rewrite Hr, Hres. reflexivity.
      * cbn [length]. rewrite Hlen. reflexivity.
      * cbn [busy_ok_from snd]. rewrite E. cbn [fst]. rewrite Hj, Hbusy. cbn. exact Hb.
    + destruct (if isJoining st
                then match fed with
                     | (fid, e) :: r => if fid =? pd_id d then Some (e, r, outs) else None
                     | [] => None
                     end
                else skip_to (pd_id d) fed outs) as [[[e fed'] outs1]|]; [|discriminate].
      apply andb_prop in H. destruct H as [_ H].
      destruct (join_do c st (pd_id d, pe_in e)) as [[st1 [r em]]| |] eqn:E; try discriminate.
      apply andb_prop in H. destruct H as [Hr H]. apply Z.eqb_eq in Hr.
      destruct (take_prefix (map emit_out em ++ (if r =? APass then [pass_out (pd_id d) (pe_in e)] else [])) outs1)
        as [outs'|]; [|discriminate].
      destruct (IH _ _ _ H) as [evs [os [st' [Hrun [Hres [Hlen Hb]]]]]].
      exists ((pd_id d, pe_in e) :: evs), ((r, em) :: os), st'.
      pose proof (join_busy_iff_joining c st _ st1 _ E) as Hbusy. cbn [fst] in Hbusy.
      repeat split.
      * cbn [join_run]. rewrite E. rewrite Hrun. reflexivity.
      * cbn [map fst]. rewrite Hr, Hres. reflexivity.
      * cbn [length]. rewrite Hlen. reflexivity.
      * cbn [busy_ok_from snd]. rewrite E. cbn [fst]. rewrite Hbusy.
        assert (Hfirst : match pe_in e with JTimeout => isJoining st | _ => true end = true).
        { destruct (pe_in e) eqn:Ex; try reflexivity. eapply join_do_timeout_ok. exact E. }
        rewrite Hfirst. cbn. exact Hb.
Qed.

Theorem pj_gate_sound : forall c stop fed dos outs,
  gate_run c stop jstate0 fed dos outs = true ->
  exists evs os st',
    join_run c jstate0 evs = (os, Ok st') /\
    map (fun o : jstep => fst o) os = map pd_res dos /\
    length evs = length dos /\
    busy_ok c evs = true.
Proof.
  intros c stop fed dos outs H. destruct (pj_gate_sound_gen c stop dos jstate0 fed outs H) as [evs [os [st' [A [B [C D]]]]]].
  exists evs, os, st'. repeat split; assumption.
Qed.

(* ... and a run that is open when the observation ends is accepted only for a stopped pipeline, and then
   nothing of it has reached the output: the last clause of gate_run, stated on its own *)
Theorem pj_gate_open_run : forall c stop st fed outs,
  isJoining st = true -> gate_run c stop st fed [] outs = true -> stop = true /\ outs = [].
Proof.
  intros c stop st fed outs Hj H. cbn [gate_run] in H. rewrite Hj in H.
  apply andb_prop in H. destruct H as [Hs Ho]. split; [exact Hs|]. destruct outs; [reflexivity | discriminate].
Qed.
