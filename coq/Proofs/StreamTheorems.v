(* Final statements about Model/Stream.v (pipeline/stream.go + charged list of pipeline/streamer.go).
   Every lemma quantifies over ALL label lists [ls] accepted by the model from [sinit] (i.e. over every
   interleaving of put / makeCharged / joinStream / attach / get / leave / tryDetach / commit /
   blockGet / tryUnblock on any number of streams) and over every stream index [i] of the table.
   [sti t i] is the stream with table index [i]; its id in [charged] / [taken] / labels is [Z.of_nat i]. *)
From Verif Require Import Base.Sx Model.Stream Proofs.Stream.
From Coq Require Import Lia ZifyBool Bool List ZArith FinFun.
Import ListNotations.
Local Open Scope Z_scope.

Definition sti (t : sst) (i : nat) : stream := get_s (streams t) i.

Lemma sti_sget t i : sget t (Z.of_nat i) = sti t i.
Proof. unfold sget, sti. rewrite Nat2Z.id. reflexivity. Qed.

Local Ltac reach Hr i Hs :=
  match type of Hr with srun sinit _ = Some ?t =>
    assert (Hs := Inv_nat _ i (Inv_reach _ _ Hr)); fold (sti t i) in Hs end.

(* ---- S0: none of the Panicf sites of attach / get / leave / tryUnblock is reachable ----------- *)
Lemma stream_never_crashes ls t : srun sinit ls = Some t -> scrashed t = false.
Proof. intros Hr. exact (I_cr _ (Inv_reach _ _ Hr)). Qed.

(* the same, per step: whatever label the code performs next in a reachable state, it is not a Panicf *)
Lemma stream_step_never_crashes ls t l t' :
  srun sinit ls = Some t -> sstep t l = Some t' -> scrashed t' = false.
Proof.
  intros Hr Hs. apply (stream_never_crashes (ls ++ [l])). rewrite srun_app, Hr. cbn [srun]. rewrite Hs. reflexivity.
Qed.

(* ---- S1 -------------------------------------------------------------------------------------- *)
Lemma stream_seq_bounds ls t i :
  srun sinit ls = Some t ->
  let st := sti t i in 0 <= scommit st /\ scommit st <= away st /\ away st <= cur st.
Proof. intros Hr st. reach Hr i Hs. destruct Hs. auto. Qed.

(* ---- S2: events wait in put order; none is lost or duplicated inside the stream -------------- *)
Lemma stream_queue_shape ls t i :
  srun sinit ls = Some t ->
  let st := sti t i in
  exists marker, q st = marker ++ range (away st + 1) (cur st) /\
    (marker = [] \/
     (marker = [- scommit st - 1] /\ att st = true /\ own st = true /\ blk st = false /\ away st = scommit st)).
Proof.
  intros Hr st. reach Hr i Hs. destruct Hs. fold st in i_q, i_own.
  destruct i_q as [Hq|(Hq & Ho & Ha & Hb)].
  - exists []. split; [exact Hq|left; reflexivity].
  - exists [- scommit st - 1]. split; [exact Hq|right]. destruct (i_own Ho). auto.
Qed.

(* ---- S3: each event is taken exactly once, in put order -------------------------------------- *)
(* the regular events taken from stream [i], oldest first ([taken] is kept newest first) *)
Definition taken_of (t : sst) (i : nat) : list Z :=
  map snd (filter (fun p => fst p =? Z.of_nat i) (rev (taken t))).

Lemma stream_taken_in_order ls t i :
  srun sinit ls = Some t -> taken_of t i = range 1 (away (sti t i)).
Proof.
  intros Hr. reach Hr i Hs. destruct Hs. unfold taken_of. fold (tk_of (Z.of_nat i) (rev (taken t))).
  rewrite tk_of_rev, i_tk, rev_involutive. reflexivity.
Qed.

(* [away] is the number of regular events taken (a time-out event leaves it unchanged) *)
Lemma stream_taken_count ls t i :
  srun sinit ls = Some t -> Z.of_nat (length (taken_of t i)) = away (sti t i) /\ NoDup (taken_of t i).
Proof.
  intros Hr. rewrite (stream_taken_in_order _ _ _ Hr). destruct (stream_seq_bounds _ _ i Hr) as (H0 & H1 & _).
  split; [rewrite range_length; lia|apply range_NoDup].
Qed.

(* ---- S4 -------------------------------------------------------------------------------------- *)
Lemma charged_wf ls t :
  srun sinit ls = Some t ->
  NoDup (charged t) /\
  forall s, In s (charged t) -> 0 <= s /\
    let st := sti t (Z.to_nat s) in att st = false /\ q st <> [] /\ popped st = false /\ pend st = false.
Proof.
  intros Hr. assert (HI := Inv_reach _ _ Hr). split; [exact (I_nd _ HI)|].
  intros s Hs. assert (H0 := I_pos _ HI s Hs). split; [exact H0|]. exact (i_ch _ _ _ (I_s _ HI s H0) Hs).
Qed.

(* ---- S5 (C04): no interleaving leaves a stream with pending events unattended ---------------- *)
Lemma no_unattended_stream ls t i :
  srun sinit ls = Some t ->
  let st := sti t i in
  att st = false -> q st <> [] -> In (Z.of_nat i) (charged t) \/ popped st = true \/ pend st = true.
Proof. intros Hr st. reach Hr i Hs. exact (i_un _ _ _ Hs). Qed.

(* the three attendants are exclusive *)
Lemma attendant_unique ls t i :
  srun sinit ls = Some t ->
  let st := sti t i in
  (In (Z.of_nat i) (charged t) -> popped st = false /\ pend st = false) /\ (popped st = true -> pend st = false).
Proof.
  intros Hr st. reach Hr i Hs. destruct Hs. fold st in i_ch, i_pop. split; [intros H; destruct (i_ch H) as (_ & _ & ? & ?); auto|].
  intros H. destruct (i_pop H) as (_ & _ & ?). assumption.
Qed.

(* ... and each of them has its next step enabled: the pending makeCharged, *)
Lemma pending_charge_enabled ls t i :
  srun sinit ls = Some t -> pend (sti t i) = true -> exists t', sstep t (SCharge (Z.of_nat i)) = Some t'.
Proof.
  intros Hr Hp. assert (HI := Inv_reach _ _ Hr). reach Hr i Hs. destruct Hs.
  destruct (i_pend Hp) as [Ha Hq].
  assert (Hnc : ~ In (Z.of_nat i) (charged t)) by (intros Hc; destruct (i_ch Hc) as (_ & _ & _ & ?); congruence).
  unfold sstep. rewrite (I_cr _ HI). cbn [label_stream]. replace (Z.of_nat i <? 0) with false by lia. cbv zeta.
  rewrite Nat2Z.id. fold (sti t i). rewrite Ha, Hp, (not_In_existsb _ _ Hnc). cbn [negb andb].
  destruct (q (sti t i)); [congruence|]. eexists; reflexivity.
Qed.

(* the pop of the stream on top of the charged list (joinStream pops the last element), *)
Lemma charged_top_pop_enabled ls t s :
  srun sinit ls = Some t -> In s (charged t) -> (exists r, rev (charged t) = s :: r) ->
  exists t', sstep t (SPop s) = Some t'.
Proof.
  intros Hr Hin [r Hrev]. assert (HI := Inv_reach _ _ Hr). assert (H0 := I_pos _ HI s Hin).
  unfold sstep. rewrite (I_cr _ HI). cbn [label_stream]. replace (s <? 0) with false by lia.
  rewrite Hrev, Z.eqb_refl. eexists; reflexivity.
Qed.

Lemma charged_nonempty_pop_enabled ls t :
  srun sinit ls = Some t -> charged t <> [] -> exists s t', In s (charged t) /\ sstep t (SPop s) = Some t'.
Proof.
  intros Hr Hne. destruct (rev (charged t)) as [|s r] eqn:E.
  - exfalso. apply Hne. rewrite <- (rev_involutive (charged t)), E. reflexivity.
  - assert (Hin : In s (charged t)) by (apply in_rev; rewrite E; left; reflexivity).
    destruct (charged_top_pop_enabled _ _ s Hr Hin (ex_intro _ r E)) as [t' Ht']. exists s, t'. auto.
Qed.

(* and the attach after the pop, which does not hit a Panicf *)
Lemma popped_attach_enabled ls t i :
  srun sinit ls = Some t -> popped (sti t i) = true ->
  exists t', sstep t (SAttach (Z.of_nat i)) = Some t' /\ scrashed t' = false /\
    att (sti t' i) = true /\ own (sti t' i) = true /\ det (sti t' i) = false.
Proof.
  intros Hr Hp. assert (HI := Inv_reach _ _ Hr). reach Hr i Hs. destruct Hs.
  destruct (i_pop Hp) as (Ha & Hq & _). destruct (i_na Ha) as (Hd & _).
  unfold sstep. rewrite (I_cr _ HI). cbn [label_stream]. replace (Z.of_nat i <? 0) with false by lia. cbv zeta.
  rewrite Nat2Z.id. fold (sti t i). rewrite Hp, Ha, Hd. cbn [orb].
  destruct (q (sti t i)) eqn:Eq; [congruence|]. eexists. split; [reflexivity|].
  unfold sti, upd_stream. cbn [scrashed streams]. rewrite Nat2Z.id, get_set_same. cbn. split; [exact (I_cr _ HI)|auto].
Qed.

(* ---- S6: owner / detaching / popped / blocked flags ------------------------------------------ *)
Lemma owner_wf ls t i :
  srun sinit ls = Some t ->
  let st := sti t i in
  (own st = true -> att st = true /\ det st = false) /\
  (* after leave(): attached + detaching, no owner, not blocked, no time-out marker, not offered to anybody;
     it stays so until the last event the previous owner took is committed (see detach_when_committed) *)
  (det st = true -> att st = true /\ own st = false /\ blk st = false /\ popped st = false /\ pend st = false /\
                    ~ In (Z.of_nat i) (charged t) /\ q st = range (away st + 1) (cur st)) /\
  (popped st = true -> att st = false /\ det st = false /\ own st = false /\ pend st = false /\ q st <> [] /\
                       ~ In (Z.of_nat i) (charged t)) /\
  (blk st = true -> own st = true /\ att st = true /\ det st = false /\ q st = [] /\ away st = scommit st) /\
  (att st = true -> (own st = true /\ det st = false) \/ (own st = false /\ det st = true)) /\
  (att st = false -> det st = false /\ own st = false /\ blk st = false /\ away st = scommit st).
Proof.
  intros Hr st. reach Hr i Hs. fold st in Hs. destruct Hs.
  assert (Hnc : att st = true -> ~ In (Z.of_nat i) (charged t)).
  { intros Ha Hc. destruct (i_ch Hc). congruence. }
  split; [exact i_own|]. split; [|split; [|split; [|split; [|exact i_na]]]].
  - intros Hd. destruct (i_det Hd) as (Ha & Ho & Hb).
    repeat split; try assumption.
    + destruct (popped st) eqn:E; [destruct (i_pop eq_refl); congruence|reflexivity].
    + destruct (pend st) eqn:E; [destruct (i_pend eq_refl); congruence|reflexivity].
    + exact (Hnc Ha).
    + destruct i_q as [Hq|(_ & Ho' & _)]; [exact Hq|congruence].
  - intros Hp. destruct (i_pop Hp) as (Ha & Hq & Hpe). destruct (i_na Ha) as (Hd & Ho & _).
    repeat split; try assumption. intros Hc. destruct (i_ch Hc) as (_ & _ & ? & _). congruence.
  - intros Hb. destruct (i_blk Hb) as (Ho & Hq & Hac). destruct (i_own Ho). auto.
  - intros Ha. destruct (i_att Ha) as [Ho|Hd].
    + left. destruct (i_own Ho). auto.
    + right. destruct (i_det Hd) as (_ & ? & _). auto.
Qed.

(* ---- S7 (C04): no stream blocked forever behind a multi-line action --------------------------- *)
(* In every reachable state a blocked stream offers tryUnblock's time-out event (its guards
   first == nil and awaySeq == commitSeq hold, so it is not the Panicf), and after it the owner's
   get of that time-out event is enabled and ends the block. *)
Lemma blocked_stream_gets_timeout ls t i :
  srun sinit ls = Some t ->
  let st := sti t i in
  blk st = true ->
  exists t', sstep t (STimeout (Z.of_nat i) (scommit st)) = Some t' /\ scrashed t' = false /\
    blk (sti t' i) = false /\ q (sti t' i) = [- scommit st - 1] /\
  exists t'', sstep t' (SGet (Z.of_nat i) (scommit st) 3) = Some t'' /\ scrashed t'' = false /\
    blk (sti t'' i) = false /\ own (sti t'' i) = true /\ q (sti t'' i) = [].
Proof.
  intros Hr st Hb. assert (HI := Inv_reach _ _ Hr). reach Hr i Hs. fold st in Hs. destruct Hs.
  destruct (i_blk Hb) as (Ho & Hq & Hac). destruct (i_own Ho) as (Ha & Hd).
  unfold sstep at 1. rewrite (I_cr _ HI). cbn [label_stream]. replace (Z.of_nat i <? 0) with false by lia. cbv zeta.
  rewrite Nat2Z.id. fold (sti t i). fold st. rewrite Hq, Hb, Hac, !Z.eqb_refl. cbn [negb].
  eexists. split; [reflexivity|]. unfold sti. cbn [scrashed streams]. rewrite get_set_same. cbn [blk q mk].
  split; [first [reflexivity|exact (I_cr _ HI)]|]. split; [reflexivity|]. split; [reflexivity|].
  unfold sstep. cbn [scrashed label_stream streams]. rewrite ?(I_cr _ HI). replace (Z.of_nat i <? 0) with false by lia.
  cbv zeta. rewrite Nat2Z.id, get_set_same. cbn [att own det q mk]. fold st. rewrite Ha, Ho, Hd. cbn [negb orb].
  replace (scommit st <? 0) with false by lia. rewrite !Z.eqb_refl.
  eexists. split; [reflexivity|]. cbn [scrashed streams]. rewrite get_set_same. cbn [blk own q mk].
  split; [first [reflexivity|exact (I_cr _ HI)]|]. auto.
Qed.

(* ---- S8: hand-over ---------------------------------------------------------------------------- *)
(* a detaching stream whose last taken event is committed can be detached (tryDetach succeeds) *)
Lemma detach_when_committed ls t i :
  srun sinit ls = Some t ->
  let st := sti t i in
  det st = true -> away st = scommit st ->
  exists t', sstep t (SDetach (Z.of_nat i) (negb (match q st with [] => true | _ => false end))) = Some t'.
Proof.
  intros Hr st Hd Hac. assert (HI := Inv_reach _ _ Hr). reach Hr i Hs. fold st in Hs. destruct Hs.
  destruct (i_det Hd) as (Ha & _).
  unfold sstep. rewrite (I_cr _ HI). cbn [label_stream]. replace (Z.of_nat i <? 0) with false by lia. cbv zeta.
  rewrite Nat2Z.id. fold (sti t i). fold st. rewrite Hd, Ha, Hac, Z.eqb_refl. cbn [andb].
  destruct (q st); cbn [negb Bool.eqb]; eexists; reflexivity.
Qed.

(* a stream is attached only when nobody holds it and everything taken from it has been committed *)
Lemma stream_attach_pre ls t s t' :
  srun sinit ls = Some t -> sstep t (SAttach s) = Some t' ->
  0 <= s /\
  let st := sti t (Z.to_nat s) in
  popped st = true /\ att st = false /\ det st = false /\ own st = false /\ q st <> [] /\ away st = scommit st.
Proof.
  intros Hr Hs. assert (HI := Inv_reach _ _ Hr). unfold sstep in Hs. rewrite (I_cr _ HI) in Hs. cbn [label_stream] in Hs.
  destruct (s <? 0) eqn:Es; [discriminate|]. split; [lia|]. cbv zeta in Hs. fold (sti t (Z.to_nat s)) in Hs. intros st. fold st in Hs.
  destruct (popped st) eqn:Hp; [|discriminate].
  assert (H := I_s _ HI s ltac:(lia)). unfold sget in H. fold (sti t (Z.to_nat s)) in H. fold st in H. destruct H.
  destruct (i_pop Hp) as (Ha & Hq & _). destruct (i_na Ha) as (Hd & Ho & _ & Hac). repeat split; first [reflexivity|assumption].
Qed.

(* C01/C02 mechanism: between a leave() of stream [s] and its next attach() there is a successful
   tryDetach, taken in a state where every event the previous owner took is committed (away = commit). *)
Lemma stream_reattach_only_after_commit ls1 ls2 t1 t1' t2 t3 s :
  srun sinit ls1 = Some t1 -> sstep t1 (SLeave s) = Some t1' ->
  srun t1' ls2 = Some t2 -> sstep t2 (SAttach s) = Some t3 ->
  exists la b lb tm, ls2 = la ++ SDetach s b :: lb /\ srun t1' la = Some tm /\
    let st := sti tm (Z.to_nat s) in
    att st = true /\ det st = true /\ away st = scommit st.
Proof.
  intros H1 HL H2 HA.
  assert (Hr2 : srun sinit (ls1 ++ SLeave s :: ls2) = Some t2).
  { rewrite srun_app, H1. cbn [srun]. rewrite HL. exact H2. }
  destruct (stream_attach_pre _ _ _ _ Hr2 HA) as (Hs0 & _ & Hna & _).
  assert (Hatt : att (sget t1' s) = true).
  { unfold sstep in HL. cbn [label_stream] in HL. cbv zeta in HL. s_split HL; s_bnorm; injection HL as <-.
    - unfold sget, crash. cbn [streams]. assumption.
    - unfold sget, upd_stream. cbn [streams]. rewrite get_set_same. reflexivity. }
  exact (att_lost_run ls2 t1' t2 s Hs0 H2 Hatt Hna).
Qed.

(* ---- non-vacuity: two streams, a hand-over with events pending, a block and a time-out -------- *)
Definition demo_run : list slabel :=
  [ SPut 0 1 0; SCharge 0; SPut 1 1 0; SCharge 1;          (* both streams charged: charged = [0; 1] *)
    SPop 1; SAttach 1; SPop 0; SAttach 0;                  (* two processors *)
    SGet 0 1 0; SLeave 0;                                  (* stream 0: taken, empty => leave, detaching *)
    SPut 0 2 0;                                            (* an event arrives while detaching: not charged *)
    SCommit 0 1; SDetach 0 true; SCharge 0;                (* commit => tryDetach => re-charged with the pending event *)
    SPop 0; SAttach 0; SGet 0 2 0;                         (* new owner takes it *)
    SGet 1 1 0; SCommit 1 1; SBlock 1;                     (* stream 1: multi-line action holds, owner waits *)
    STimeout 1 1; SGet 1 1 3;                              (* tryUnblock: time-out event, delivered *)
    SPut 1 2 0; SGet 1 2 0 ].

Example stream_demo_nonvacuous :
  exists t, srun sinit demo_run = Some t /\ scrashed t = false /\ charged t = [] /\
    rev (taken t) = [(0, 1); (0, 2); (1, 1); (1, 2)] /\ timeouts t = [(1, 1)] /\
    att (sti t 0) = true /\ away (sti t 0) = 2 /\ scommit (sti t 0) = 1 /\ away (sti t 1) = 2.
Proof. eexists. split; [vm_compute; reflexivity|]. vm_compute. repeat split; reflexivity. Qed.

(* the blocked state in the middle of that run satisfies the hypothesis of blocked_stream_gets_timeout *)
Example stream_demo_blocked :
  exists t, srun sinit (firstn 20 demo_run) = Some t /\ blk (sti t 1) = true /\ det (sti t 0) = false.
Proof. eexists. split; [vm_compute; reflexivity|]. vm_compute. split; reflexivity. Qed.

(* and the detaching state satisfies those of detach_when_committed only after the commit *)
Example stream_demo_detaching :
  exists t, srun sinit (firstn 11 demo_run) = Some t /\ det (sti t 0) = true /\ q (sti t 0) = [2] /\
    away (sti t 0) <> scommit (sti t 0) /\ sstep t (SDetach 0 true) = None /\ sstep t (SAttach 0) = None.
Proof. eexists. split; [vm_compute; reflexivity|]. vm_compute. repeat split; try reflexivity. discriminate. Qed.

(* ---- the two guards of the model that the theorems need ---------------------------------------
   [label_stream l >= 0]: a negative stream id would alias table index 0 through [Z.to_nat] while
   [charged] / [taken] record the id itself (witness against no_unattended_stream / charged_wf without it:
   [SPut 0 1 0; SCharge (-1)] leaves stream 0 non-empty, unattached and 0 not in charged = [-1]).
   [0 <= seq] in SGet: otherwise a "regular" get of seq -(c)-1 takes the time-out marker and a
   "time-out" get of seq -(x)-1 takes the regular event x, both setting away < 0 (witnesses against
   stream_seq_bounds: [SPut 0 1 0; SCharge 0; SPop 0; SAttach 0; SGet 0 (-2) 3], and
   [...; SGet 0 1 0; SCommit 0 1; SBlock 0; STimeout 0 1; SGet 0 (-2) 0]).
   Real traces never contain such labels (ids are table indices, SeqID is a uint64). *)
Example guard_negative_stream_id :
  exists t, srun sinit [SPut 0 1 0] = Some t /\ sstep t (SCharge (-1)) = None.
Proof. eexists. split; [vm_compute; reflexivity|vm_compute; reflexivity]. Qed.

Example guard_negative_seq :
  (exists t, srun sinit [SPut 0 1 0; SCharge 0; SPop 0; SAttach 0] = Some t /\ sstep t (SGet 0 (-2) 3) = None) /\
  (exists t, srun sinit [SPut 0 1 0; SCharge 0; SPop 0; SAttach 0; SGet 0 1 0; SCommit 0 1; SBlock 0; STimeout 0 1] = Some t /\
             sstep t (SGet 0 (-2) 0) = None /\ exists t', sstep t (SGet 0 1 3) = Some t').
Proof.
  split; eexists; (split; [vm_compute; reflexivity|]); [vm_compute; reflexivity|].
  split; [vm_compute; reflexivity|eexists; vm_compute; reflexivity].
Qed.
