From Verif Require Import Base.Sx Model.Charged.
From Coq Require Import Lia.

Definition slack (s : cst) : Z := if inloop s || sigpend s then 1 else 0.

Definition cinv (s : cst) : Prop :=
  0 <= nq s /\ 0 <= wk s /\ wk s <= slp s /\ (inloop s && sigpend s = false) /\
  (stopping s = false -> wk s < slp s -> nq s <= wk s + slack s).

Lemma cinv_init : cinv cinit.
Proof. unfold cinv, cinit, slack; cbn. repeat split; intros; lia. Qed.

Ltac cbool :=
  repeat match goal with
         | H : _ && _ = true |- _ => apply andb_true_iff in H; destruct H
         | H : negb _ = true |- _ => apply negb_true_iff in H
         | H : (_ =? _) = true |- _ => apply Z.eqb_eq in H
         | H : (_ <? _) = true |- _ => apply Z.ltb_lt in H
         | H : (_ <? _) = false |- _ => apply Z.ltb_ge in H
         | H : (_ <=? _) = true |- _ => apply Z.leb_le in H
         end.

Ltac rwflags s :=
  repeat match goal with
         | H : inloop s = _ |- _ => rewrite H in *; clear H
         | H : sigpend s = _ |- _ => rewrite H in *; clear H
         end.

Lemma cinv_step s l s' : cinv s -> cstep s l = Some s' -> cinv s'.
Proof.
  intros (Hq & Hw & Hws & Hx & Hj) H. unfold slack in Hj. destruct l; cbn [cstep] in H.
  - destruct (negb (inloop s) && negb (sigpend s)) eqn:G; [|discriminate]. inversion H; subst; clear H. cbool.
    unfold cinv, slack; cbn. rwflags s. cbn in *. repeat split; try lia. intros A B. specialize (Hj A B). lia.
  - destruct (sigpend s && (n =? nq s)) eqn:G; [|discriminate]. inversion H; subst; clear H. cbool.
    unfold cinv, slack; cbn. rwflags s. rewrite Bool.orb_true_r in Hj.
    destruct (wk s <? slp s) eqn:E; cbool; repeat split; try lia. intros A B. specialize (Hj A E). lia.
  - destruct ((nq s =? 0) && negb (sigpend s)) eqn:G; [|discriminate]. inversion H; subst; clear H. cbool.
    unfold cinv, slack; cbn. repeat split; try lia.
  - destruct (negb (sigpend s) && negb (inloop s) && (0 <? slp s) && (stop || stopping s || (0 <? wk s))) eqn:G; [|discriminate].
    inversion H; subst; clear H. cbool.
    unfold cinv, slack; cbn. rwflags s. cbn in *.
    repeat split; try lia.
    intros A B. apply Bool.orb_false_iff in A. destruct A as [A1 A2]. subst stop. cbn in *.
    match goal with H : (stopping s || (0 <? wk s)) = true |- _ => rewrite A1 in H; cbn in H; apply Z.ltb_lt in H end.
    specialize (Hj A1). lia.
  - destruct ((0 <? nq s) && negb (sigpend s)) eqn:G; [|discriminate]. inversion H; subst; clear H. cbool.
    unfold cinv, slack; cbn. match goal with H : sigpend s = _ |- _ => rewrite H in *; clear H end. rewrite Bool.orb_false_r in Hj.
    repeat split; try lia. intros A B. specialize (Hj A B). destruct (inloop s); lia.
Qed.

Lemma crun_inv ls : forall s s', cinv s -> crun s ls = Some s' -> cinv s'.
Proof.
  induction ls as [|l r IH]; intros s s' Hs Hr; cbn [crun] in Hr; [inversion Hr; subst; exact Hs|].
  destruct (cstep s l) as [s1|] eqn:E; [|discriminate]. eapply IH; [eapply cinv_step; eauto|exact Hr].
Qed.

(* for every interleaving of chargers and processors: outside the critical section, a processor sleeps
   without a pending wake-up only if every queued stream already has a woken processor coming for it *)
Lemma charged_no_sleeper_while_queued ls s :
  crun cinit ls = Some s -> no_sleeper_while_queued s = true.
Proof.
  intros Hr. destruct (crun_inv ls _ _ cinv_init Hr) as (Hq & Hw & Hws & Hx & Hj).
  unfold no_sleeper_while_queued. unfold slack in Hj.
  destruct (inloop s) eqn:IL; [reflexivity|]. destruct (sigpend s) eqn:SP; [reflexivity|].
  destruct (stopping s) eqn:ST; [reflexivity|]. cbn in *.
  destruct (slp s <=? wk s) eqn:E1; [reflexivity|]. apply Z.leb_gt in E1.
  specialize (Hj eq_refl E1). cbn. apply Z.leb_le. lia.
Qed.

(* the signal is what makes it true: if makeCharged signals only on the empty -> non-empty transition
   (a tempting optimisation), two charges in a row strand the second stream while a processor sleeps *)
Definition cstep_signal_on_first_only (s : cst) (l : clabel) : option cst :=
  match l with
  | CSignal n => if sigpend s && (n =? nq s)
                 then Some {| nq := nq s; slp := slp s; wk := (if (n =? 1) && (wk s <? slp s) then wk s + 1 else wk s);
                              inloop := false; sigpend := false; stopping := stopping s |}
                 else None
  | _ => cstep s l
  end.
Fixpoint crun' (s : cst) (ls : list clabel) : option cst :=
  match ls with [] => Some s | l :: r => match cstep_signal_on_first_only s l with Some s' => crun' s' r | None => None end end.

Lemma charged_signal_on_first_only_refuted :
  exists ls s, crun' cinit ls = Some s /\ no_sleeper_while_queued s = false.
Proof. exists [CSleep; CSleep; CCharge; CSignal 1; CCharge; CSignal 2]. eexists. split; vm_compute; reflexivity. Qed.
