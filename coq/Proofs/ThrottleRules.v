(* Proofs about the rule-level limit distributions of Model/Throttle.v (sub-model which = 11: drun / spec_cfg):
   a limiter created for a rule carries the shares of THAT rule — share(value) = round(ratio x the rule's own limit),
   default share from the same limit — and the decisions of a key are those of the reference semantics with these
   shares; the sum of the specified shares is within the rule's limit up to the rounding of each share (half up: at
   most 1/2 per share), and within the limit itself when no share is rounded.                                     *)
From Verif Require Import Base.Sx Base.GoSem Model.Throttle Proofs.Throttle.
From Coq Require Import Lia ZifyBool.

(* ---- the association list of limiters ------------------------------------------------------------------------- *)
Lemma a_get_set_same {A} (m : list (bytes * A)) k v : a_get (a_set m k v) k = Some v.
Proof.
  induction m as [|[k0 v0] m IH]; cbn [a_set a_get].
  - rewrite bytes_eqb_refl. reflexivity.
  - destruct (bytes_eqb k0 k) eqn:E; cbn [a_get].
    + rewrite bytes_eqb_refl. reflexivity.
    + rewrite E. exact IH.
Qed.

Lemma a_get_set_other {A} (m : list (bytes * A)) k k' v : k' <> k -> a_get (a_set m k' v) k = a_get m k.
Proof.
  intros Hne. induction m as [|[k0 v0] m IH]; cbn [a_set a_get].
  - rewrite (bytes_eqb_neq k' k Hne). reflexivity.
  - destruct (bytes_eqb k0 k') eqn:E; cbn [a_get].
    + apply bytes_eqb_eq in E. subst k0. rewrite (bytes_eqb_neq k' k Hne). reflexivity.
    + destruct (bytes_eqb k0 k); [reflexivity|exact IH].
Qed.

(* ---- keys never share a budget, and a key's limiter has the configuration of the rule its first event matched -- *)
Lemma dops_for_cons p k gs e es :
  dops_for p k gs (e :: es) = if dfor_key p k e then dev_op gs e :: dops_for p k gs es else dops_for p k gs es.
Proof. unfold dops_for. cbn [filter]. destruct (dfor_key p k e); reflexivity. Qed.

Lemma dkey_rule_cons p k e es :
  dkey_rule p k (e :: es) = if dfor_key p k e then dev_rule p e else dkey_rule p k es.
Proof. unfold dkey_rule. cbn [filter]. destruct (dfor_key p k e); reflexivity. Qed.

Lemma rule_keys_independent_gen p k : forall es m ds m',
  drun p m es = (ds, Ok m') ->
  match a_get m k with
  | Some (c, gs, l) => pick (dfor_key p k) es ds = fst (lrun c l (dops_for p k gs es))
  | None =>
      match dkey_rule p k es with
      | Some (r, gs) => pick (dfor_key p k) es ds =
                        fst (lrun (spec_cfg p r gs) (lim0 (spec_cfg p r gs)) (dops_for p k gs es))
      | None => pick (dfor_key p k) es ds = []
      end
  end.
Proof.
  induction es as [|e es IH]; intros m ds m' Hrun.
  - cbn [drun] in Hrun. injection Hrun as <- _. unfold dops_for, dkey_rule. cbn [filter map lrun pick fst].
    destruct (a_get m k) as [[[c gs] l]|]; reflexivity.
  - cbn [drun] in Hrun. unfold dstep in Hrun. rewrite dkey_rule_cons.
    destruct (first_match2 (w_rules p) 0 (v_fields e)) as [[[n r] gs0]|] eqn:Efm.
    + set (k' := lim_key n (throttle_key (v_fields e))) in *.
      assert (Hfk : dfor_key p k e = bytes_eqb k' k) by (unfold dfor_key, dev_key; rewrite Efm; reflexivity).
      assert (Hru : dev_rule p e = Some (r, gs0)) by (unfold dev_rule; rewrite Efm; reflexivity).
      destruct (dm_find p m k' r gs0) as [[c gs] l] eqn:Efind.
      destruct (allow c l (o_now (dev_op gs e)) (o_ts (dev_op gs e)) (o_size (dev_op gs e)) (o_dv (dev_op gs e)))
        as [[l' b]| |] eqn:Eal; cbn [bind] in Hrun; try discriminate Hrun.
      destruct (drun p (a_set m k' (c, gs, l')) es) as [bs fin] eqn:Erest.
      injection Hrun as <- ->.
      specialize (IH _ _ _ Erest). cbn [pick]. rewrite Hfk, Hru.
      destruct (bytes_eqb k' k) eqn:Ek.
      * apply bytes_eqb_eq in Ek. subst k. rewrite a_get_set_same in IH.
        unfold dm_find in Efind.
        destruct (a_get m k') as [[[c0 g0] l0]|] eqn:Eget.
        -- injection Efind as -> -> ->. rewrite dops_for_cons, Hfk.
           rewrite (lrun_cons c l (dev_op gs e) _ l' b Eal). rewrite IH. reflexivity.
        -- injection Efind as <- <- <-. rewrite dops_for_cons, Hfk.
           rewrite (lrun_cons _ _ (dev_op gs0 e) _ l' b Eal). rewrite IH. reflexivity.
      * assert (Hne : k' <> k) by (intros ->; rewrite bytes_eqb_refl in Ek; discriminate).
        rewrite a_get_set_other in IH by exact Hne.
        destruct (a_get m k) as [[[c1 g1] l1]|].
        -- rewrite dops_for_cons, Hfk. exact IH.
        -- destruct (dkey_rule p k es) as [[r1 g1]|]; [rewrite dops_for_cons, Hfk|]; exact IH.
    + assert (Hfk : dfor_key p k e = false) by (unfold dfor_key, dev_key; rewrite Efm; reflexivity).
      destruct (drun p m es) as [bs fin] eqn:Erest. injection Hrun as <- ->.
      specialize (IH _ _ _ Erest). cbn [pick]. rewrite Hfk.
      destruct (a_get m k) as [[[c1 g1] l1]|].
      * rewrite dops_for_cons, Hfk. exact IH.
      * destruct (dkey_rule p k es) as [[r1 g1]|]; [rewrite dops_for_cons, Hfk|]; exact IH.
Qed.

Theorem rule_keys_independent p es ds m' k :
  drun p [] es = (ds, Ok m') ->
  match dkey_rule p k es with
  | Some (r, gs) => pick (dfor_key p k) es ds =
                    fst (lrun (spec_cfg p r gs) (lim0 (spec_cfg p r gs)) (dops_for p k gs es))
  | None => pick (dfor_key p k) es ds = []
  end.
Proof. intros H. exact (rule_keys_independent_gen p k es [] ds m' H). Qed.

(* a listed value is charged to a distribution of the limiter: the index is in range *)
Lemma group_idx_range : forall gs id i j, group_idx gs id i = Some j -> i <= j < i + len gs.
Proof.
  induction gs as [|[q ids] gs IH]; intros id i j H; cbn [group_idx] in H; [discriminate|].
  unfold len in *. cbn [length]. destruct (zmem id ids).
  - injection H as <-. lia.
  - apply IH in H. lia.
Qed.

Lemma spec_shares_len lm gs : len (spec_shares lm gs) = len gs.
Proof. unfold spec_shares, len. rewrite !map_length. reflexivity. Qed.

Lemma dops_well_timed p r gs k es :
  forallb (d_timed p) es = true -> well_timed (spec_cfg p r gs) (dops_for p k gs es) = true.
Proof.
  intros Ht. unfold well_timed, dops_for. rewrite forallb_forall in *. intros o Ho.
  apply in_map_iff in Ho. destruct Ho as [e [<- He]]. apply filter_In in He. destruct He as [He _].
  specialize (Ht e He). unfold d_timed in Ht. apply andb_true_intro. split.
  - unfold timed, dev_op, spec_cfg. cbn [count interval o_now]. exact Ht.
  - unfold dv_ok, dev_op. cbn [o_dv]. unfold dv_slot. destruct (v_dv e) as [id|]; [|reflexivity].
    destruct (group_idx gs id 0) as [j|] eqn:Eg; [|reflexivity].
    apply group_idx_range in Eg. unfold spec_cfg. cbn [shares]. rewrite spec_shares_len. lia.
Qed.

(* the decisions of a key in a whole-plugin trace = the reference semantics on that key's events alone, with the limit
   and the SPECIFIED shares of the rule its first event matched — this is the predicate c16_pred11 of the check *)
Theorem rule_key_decisions p es ds m' k r gs :
  drun p [] es = (ds, Ok m') -> dkey_rule p k es = Some (r, gs) ->
  1 <= w_count p -> 1 <= w_interval p -> forallb (d_timed p) es = true ->
  pick (dfor_key p k) es ds = snd (s_run (spec_cfg p r gs) spec0 (dops_for p k gs es)).
Proof.
  intros Hrun Hk Hc Hi Ht. pose proof (rule_keys_independent p es ds m' k Hrun) as H. rewrite Hk in H.
  assert (Hwf : wf_cfg (spec_cfg p r gs) = true) by (unfold wf_cfg, spec_cfg; cbn [count interval]; lia).
  destruct (ring_refines_map _ _ Hwf (dops_well_timed p r gs k es Ht)) as [l [Hl _]].
  rewrite H, Hl. reflexivity.
Qed.

(* ---- the arithmetic of the specified shares -------------------------------------------------------------------- *)
Lemma share_of_near lm q : 0 <= lm -> 0 <= q -> -50 < 100 * share_of lm q - q * lm <= 50.
Proof.
  intros Hl Hq. unfold share_of, round_div.
  assert (Ha : 0 <= q * lm) by nia. remember (q * lm) as a eqn:Ea. clear Ea.
  pose proof (Z.div_mod (2 * a + 100) (2 * 100) ltac:(lia)) as Hd.
  pose proof (Z.mod_pos_bound (2 * a + 100) (2 * 100) ltac:(lia)) as Hm. lia.
Qed.

Lemma share_of_nonneg lm q : 0 <= lm -> 0 <= q -> 0 <= share_of lm q.
Proof. intros Hl Hq. pose proof (share_of_near lm q Hl Hq). nia. Qed.

Lemma share_of_exact lm q : 0 <= lm -> 0 <= q -> (q * lm) mod 100 = 0 -> 100 * share_of lm q = q * lm.
Proof.
  intros Hl Hq Hm. unfold share_of, round_div.
  assert (Ha : 0 <= q * lm) by nia. remember (q * lm) as a eqn:Ea. clear Ea.
  pose proof (Z.div_mod a 100 ltac:(lia)) as Hd. rewrite Hm in Hd.
  replace (2 * a + 100) with ((a / 100) * (2 * 100) + 100) by lia.
  rewrite Z.div_add_l by lia. rewrite (Z.div_small 100 (2 * 100)) by lia. lia.
Qed.

Lemma shares_sum_near lm : forall qs, 0 <= lm -> Forall (fun q => 0 <= q) qs ->
  100 * sumZ (map (share_of lm) qs) <= lm * sumZ qs + 50 * len qs.
Proof.
  induction qs as [|q qs IH]; intros Hl Hq; unfold len in *; cbn [map sumZ fold_right length]; [lia|].
  inversion Hq as [|? ? Hq1 Hq2]; subst. specialize (IH Hl Hq2).
  pose proof (share_of_near lm q Hl Hq1). fold (sumZ (map (share_of lm) qs)). fold (sumZ qs). lia.
Qed.

Lemma shares_sum_exact lm : forall qs, 0 <= lm -> Forall (fun q => 0 <= q) qs ->
  Forall (fun q => (q * lm) mod 100 = 0) qs ->
  100 * sumZ (map (share_of lm) qs) = lm * sumZ qs.
Proof.
  induction qs as [|q qs IH]; intros Hl Hq He; cbn [map sumZ fold_right]; [lia|].
  inversion Hq as [|? ? Hq1 Hq2]; subst. inversion He as [|? ? He1 He2]; subst. specialize (IH Hl Hq2 He2).
  pose proof (share_of_exact lm q Hl Hq1 He1). fold (sumZ (map (share_of lm) qs)). fold (sumZ qs). lia.
Qed.

Lemma groups_wf_pcts : forall gs seen, groups_wf seen gs = true -> Forall (fun q => 0 <= q) (map fst gs).
Proof.
  induction gs as [|[q ids] gs IH]; intros seen H; cbn [map]; [constructor|].
  cbn [groups_wf] in H. destruct (nodup_ids seen ids) as [s|]; [|rewrite andb_false_r in H; discriminate].
  apply andb_prop in H. destruct H as [H1 H2]. constructor; [cbn [fst]; lia|]. exact (IH s H2).
Qed.

Lemma Forall_nonneg_nth : forall (l : list Z) n, Forall (fun x => 0 <= x) l -> 0 <= nth n l 0.
Proof.
  induction l as [|x l IH]; intros [|n] H; cbn [nth]; try lia.
  - inversion H; assumption.
  - apply IH. inversion H; assumption.
Qed.

Lemma Forall_nonneg_max : forall l : list Z, Forall (fun x => 0 <= x) l -> map (Z.max 0) l = l.
Proof.
  induction l as [|x l IH]; intros H; cbn [map]; [reflexivity|].
  inversion H; subst. rewrite IH by assumption. f_equal. lia.
Qed.

Section SpecShares.
  Variables (p : dpcfg) (r : rule) (gs : groups).
  Hypothesis Hlim : 0 <= r_limit r.
  Hypothesis Hgs : groups_ok gs = true.
  Hypothesis Hne : gs <> [].
  Let c := spec_cfg p r gs.
  Let qs := (100 - gsum gs) :: map fst gs.

  Lemma qs_nonneg : Forall (fun q => 0 <= q) qs.
  Proof.
    unfold groups_ok in Hgs. apply andb_prop in Hgs. destruct Hgs as [H1 H2].
    constructor; [lia|]. exact (groups_wf_pcts gs [] H1).
  Qed.

  Lemma qs_sum : sumZ qs = 100.
  Proof. unfold qs, gsum. cbn [sumZ fold_right]. fold (sumZ (map fst gs)). lia. Qed.

  Lemma spec_all_shares : deflimit c :: shares c = map (share_of (r_limit r)) qs.
  Proof.
    unfold c, spec_cfg, qs. cbn [deflimit shares map]. unfold spec_deflimit, spec_shares.
    destruct gs; [contradiction|reflexivity].
  Qed.

  Lemma spec_shares_nonneg : 0 <= deflimit c /\ Forall (fun x => 0 <= x) (shares c).
  Proof.
    pose proof qs_nonneg as Hq. pose proof spec_all_shares as Ha.
    assert (H : Forall (fun x => 0 <= x) (deflimit c :: shares c)).
    { rewrite Ha. apply Forall_forall. intros x Hx. apply in_map_iff in Hx. destruct Hx as [q [<- Hin]].
      apply share_of_nonneg; [exact Hlim|]. rewrite Forall_forall in Hq. exact (Hq q Hin). }
    inversion H; subst. split; assumption.
  Qed.

  Lemma spec_shares_ne : shares c <> [].
  Proof. unfold c, spec_cfg, spec_shares. cbn [shares]. destruct gs; [contradiction|discriminate]. Qed.

  (* the sum of the specified shares: the rule's limit up to the rounding of each share (half up) ... *)
  Lemma spec_shares_sum_near :
    100 * (deflimit c + sumZ (shares c)) <= 100 * r_limit r + 50 * (len gs + 1).
  Proof.
    pose proof (shares_sum_near (r_limit r) qs Hlim qs_nonneg) as H. rewrite <- spec_all_shares, qs_sum in H.
    cbn [sumZ fold_right] in H. fold (sumZ (shares c)) in H.
    replace (len qs) with (len gs + 1) in H by (unfold qs, len; cbn [length]; rewrite map_length; lia). lia.
  Qed.

  (* ... and exactly the rule's limit when no share is rounded *)
  Lemma spec_shares_sum_exact :
    Forall (fun q => (q * r_limit r) mod 100 = 0) qs -> deflimit c + sumZ (shares c) = r_limit r.
  Proof.
    intros He. pose proof (shares_sum_exact (r_limit r) qs Hlim qs_nonneg He) as H.
    rewrite <- spec_all_shares, qs_sum in H. cbn [sumZ fold_right] in H. fold (sumZ (shares c)) in H. lia.
  Qed.

  Lemma spec_cell_limit_nonneg slot : 0 <= cell_limit c slot.
  Proof.
    destruct spec_shares_nonneg as [Hd Hs]. unfold cell_limit.
    destruct (shares c) as [|z l] eqn:E; [exfalso; exact (spec_shares_ne E)|].
    destruct (slot =? 0); [exact Hd|]. apply Forall_nonneg_nth. exact Hs.
  Qed.

  (* what a key gets through per bucket under a rule with its own distribution: every slot within the SPECIFIED share
     of that rule, the total within the rule's limit + 1/2 per share (within the limit itself without rounding) *)
  Theorem rule_distr_shares ops :
    1 <= w_count p -> 1 <= w_interval p -> well_timed c ops = true ->
    Forall (fun o => 0 <= o_size o) ops ->
    (forall id slot, passed_size (hist_of c ops) id slot <= cell_limit c slot) /\
    (forall id, passed_size_id (hist_of c ops) id <= deflimit c + sumZ (shares c)) /\
    (forall id, 100 * passed_size_id (hist_of c ops) id <= 100 * r_limit r + 50 * (len gs + 1)) /\
    (Forall (fun q => (q * r_limit r) mod 100 = 0) qs ->
     forall id, passed_size_id (hist_of c ops) id <= r_limit r) /\
    hist_attr c (rev ops) (hist_of c ops).
  Proof.
    intros Hc Hi Hw Hs.
    assert (Hwf : wf_cfg c = true) by (unfold wf_cfg, c, spec_cfg; cbn [count interval]; lia).
    assert (Hl : 0 <= limit c) by (unfold c, spec_cfg; cbn [limit]; exact Hlim).
    destruct (distr_shares c ops Hwf Hw Hl spec_shares_ne Hs) as [H1 [H2 H3]].
    destruct spec_shares_nonneg as [Hd Hsh].
    assert (Htot : forall id, passed_size_id (hist_of c ops) id <= deflimit c + sumZ (shares c)).
    { intros id. specialize (H2 id). rewrite (Forall_nonneg_max _ Hsh) in H2. lia. }
    split; [|split; [exact Htot|split; [|split; [|exact H3]]]].
    - intros id slot. specialize (H1 id slot). pose proof (spec_cell_limit_nonneg slot). lia.
    - intros id. pose proof (Htot id). pose proof spec_shares_sum_near. lia.
    - intros He id. pose proof (Htot id). pose proof (spec_shares_sum_exact He). lia.
  Qed.
End SpecShares.

(* the rounding is real: limit 1 split 50 % / 50 % gives two shares of 1 (0.5 rounds half up) and a default share of 0,
   so one key passes 2 events in one bucket against the rule's limit of 1.  (This is the rounding of the LISTED shares;
   the rounding of the default ratio to a whole percent — finding C16-default-share-rounding — needs ratios finer than
   a percent and is a different matter.) *)
Definition p_round : dpcfg := {| w_count := 2; w_interval := 10; w_rules := [] |}.
Definition r_round : rule := {| r_conds := []; r_limit := 1; r_size := false |}.
Definition gs_round : groups := [(50, [0]); (50, [1])].
Lemma rule_shares_limit_refuted :
  let c := spec_cfg p_round r_round gs_round in
  let ops := [ {| o_now := 20; o_ts := 20; o_size := 1; o_dv := Some 0 |};
               {| o_now := 20; o_ts := 20; o_size := 1; o_dv := Some 1 |} ] in
  groups_ok gs_round = true /\ wf_cfg c = true /\ well_timed c ops = true /\
  deflimit c :: shares c = [0; 1; 1] /\
  snd (s_run c spec0 ops) = [true; true] /\ passed_size_id (hist_of c ops) 2 = 2 /\ r_limit r_round = 1.
Proof. vm_compute. repeat split. Qed.

(* non-vacuity of rule_key_decisions / rule_distr_shares: a rule with limit 10 split 40 % / 30 % (default 30 %) next to
   a default rule with limit 5000: the key of the rule passes 4 + 3 + 3 events, whatever default_limit is *)
Definition ru10 : rule := {| r_conds := [([97%N], [120%N])]; r_limit := 10; r_size := false |}.
Definition gs10 : groups := [(40, [0]); (30, [1])].
Definition p10 : dpcfg :=
  {| w_count := 2; w_interval := 10;
     w_rules := [(ru10, gs10); ({| r_conds := []; r_limit := 5000; r_size := false |}, [])] |}.
Definition ev10 (dv : option Z) : dev :=
  {| v_now := 20; v_ts := 20; v_size := 1; v_dv := dv; v_fields := [([97%N], [120%N])] |}.
Lemma rule_distr_nonvacuous :
  let es := repeat (ev10 (Some 0)) 5 ++ repeat (ev10 (Some 1)) 4 ++ repeat (ev10 None) 5 in
  deflimit (spec_cfg p10 ru10 gs10) :: shares (spec_cfg p10 ru10 gs10) = [3; 4; 3] /\
  forallb (d_timed p10) es = true /\
  fst (drun p10 [] es) = repeat true 4 ++ [false] ++ repeat true 3 ++ [false] ++ repeat true 3 ++ [false; false] /\
  c16_pred11 p10 es (sx_of_drun (drun p10 [] es)) = true.
Proof. vm_compute. repeat split. Qed.
