(* Proofs about the event-pool transition systems of Model/Pool.v. *)
From Verif Require Import Base.Sx Model.Pool.
From Coq Require Import Lia ZifyBool Bool List ZArith.
Import ListNotations.
Local Open Scope Z_scope.

(* ------------------------------------------------------------------------------------------- *)
(* finite maps                                                                                   *)
Section FMapFacts.
  Context {V : Type}.
  Implicit Types (m : list (Z * V)) (k : Z) (v d : V).

  Definition keys m : list Z := map fst m.

  Lemma fget_frem_same d k m : fget d k (frem k m) = d.
  Proof.
    induction m as [|[k' v] r IH]; cbn [frem fget]; [reflexivity|].
    destruct (k =? k') eqn:E; [exact IH|]. cbn [fget]. rewrite E. exact IH.
  Qed.

  Lemma fget_frem_other d k k' m : k' <> k -> fget d k' (frem k m) = fget d k' m.
  Proof.
    intros Hne. induction m as [|[k0 v] r IH]; cbn [frem fget]; [reflexivity|].
    destruct (k =? k0) eqn:E.
    - apply Z.eqb_eq in E. subst k0. destruct (k' =? k) eqn:E2; [apply Z.eqb_eq in E2; contradiction|exact IH].
    - cbn [fget]. destruct (k' =? k0); [reflexivity|exact IH].
  Qed.

  Lemma fget_fset d k v k' m : fget d k' (fset k v m) = if k' =? k then v else fget d k' m.
  Proof.
    unfold fset. cbn [fget]. destruct (k' =? k) eqn:E; [reflexivity|].
    apply fget_frem_other. intros ->. rewrite Z.eqb_refl in E. discriminate.
  Qed.

  Lemma fget_fmapv d (f : V -> V) k m : f d = d -> fget d k (fmapv f m) = f (fget d k m).
  Proof.
    intros Hd. induction m as [|[k' v] r IH]; cbn [fmapv map fget fst snd]; [symmetry; exact Hd|].
    destruct (k =? k'); [reflexivity|exact IH].
  Qed.

  Lemma keys_frem_notin k m : ~ In k (keys (frem k m)).
  Proof.
    induction m as [|[k' v] r IH]; cbn [frem keys map]; [tauto|].
    destruct (k =? k') eqn:E; [exact IH|]. cbn [keys map fst In]. intros [H|H]; [subst; rewrite Z.eqb_refl in E; discriminate|exact (IH H)].
  Qed.

  Lemma keys_frem_incl k m x : In x (keys (frem k m)) -> In x (keys m).
  Proof.
    induction m as [|[k' v] r IH]; cbn [frem keys map]; [tauto|].
    destruct (k =? k'); cbn [keys map fst In]; [right; exact (IH H)|]. intros [H|H]; [left; exact H|right; exact (IH H)].
  Qed.

  Lemma NoDup_frem k m : NoDup (keys m) -> NoDup (keys (frem k m)).
  Proof.
    induction m as [|[k' v] r IH]; cbn [frem keys map]; [trivial|]. intros Hnd. inversion Hnd as [|a l Hni Hr]; subst.
    destruct (k =? k'); [exact (IH Hr)|]. cbn [keys map fst]. constructor; [|exact (IH Hr)].
    intros H. apply Hni. exact (keys_frem_incl _ _ _ H).
  Qed.

  Lemma NoDup_fset k v m : NoDup (keys m) -> NoDup (keys (fset k v m)).
  Proof.
    intros H. unfold fset. cbn [keys map fst]. constructor; [apply keys_frem_notin|apply NoDup_frem; exact H].
  Qed.

  Lemma keys_fmapv (f : V -> V) m : keys (fmapv f m) = keys m.
  Proof. unfold keys, fmapv. rewrite map_map. reflexivity. Qed.

  Lemma frem_notin k m : ~ In k (keys m) -> frem k m = m.
  Proof.
    induction m as [|[k' v] r IH]; cbn [frem keys map fst In]; [reflexivity|]. intros H.
    destruct (k =? k') eqn:E; [apply Z.eqb_eq in E; subst; tauto|]. f_equal. apply IH. tauto.
  Qed.

  Lemma fget_notin d k m : ~ In k (keys m) -> fget d k m = d.
  Proof.
    induction m as [|[k' v] r IH]; cbn [fget keys map fst In]; [reflexivity|]. intros H.
    destruct (k =? k') eqn:E; [apply Z.eqb_eq in E; subst; tauto|]. apply IH. tauto.
  Qed.

  Lemma fget_In d k v m : NoDup (keys m) -> In (k, v) m -> fget d k m = v.
  Proof.
    induction m as [|[k' v'] r IH]; cbn [fget keys map fst In]; [tauto|]. intros Hnd [H|H].
    - inversion H; subst. rewrite Z.eqb_refl. reflexivity.
    - inversion Hnd as [|a l Hni Hr]; subst. destruct (k =? k') eqn:E.
      + apply Z.eqb_eq in E; subst. exfalso. apply Hni. change k' with (fst (k', v)). apply in_map. exact H.
      + exact (IH Hr H).
  Qed.

  Definition b2z (b : bool) : Z := if b then 1 else 0.

  Lemma fcnt_nonneg (P : V -> bool) m : 0 <= fcnt P m.
  Proof. unfold fcnt. lia. Qed.

  Lemma fcnt_cons (P : V -> bool) k v m : fcnt P ((k, v) :: m) = b2z (P v) + fcnt P m.
  Proof. unfold fcnt. cbn [filter snd]. destruct (P v); cbn [length b2z]; rewrite ?Nat2Z.inj_succ; lia. Qed.

  Lemma fcnt_frem d (P : V -> bool) k m :
    NoDup (keys m) -> P d = false -> fcnt P (frem k m) = fcnt P m - b2z (P (fget d k m)).
  Proof.
    intros Hnd Hd. induction m as [|[k' v] r IH]; cbn [frem fget].
    - rewrite Hd. cbn. reflexivity.
    - inversion Hnd as [|a l Hni Hr]; subst. destruct (k =? k') eqn:E.
      + apply Z.eqb_eq in E; subst k'. rewrite (frem_notin _ _ Hni). rewrite fcnt_cons. lia.
      + rewrite !fcnt_cons. rewrite (IH Hr). lia.
  Qed.

  Lemma fcnt_fset d (P : V -> bool) k v m :
    NoDup (keys m) -> P d = false -> fcnt P (fset k v m) = fcnt P m - b2z (P (fget d k m)) + b2z (P v).
  Proof. intros Hnd Hd. unfold fset. rewrite fcnt_cons, (fcnt_frem d P k m Hnd Hd). lia. Qed.

  Lemma fcnt_fmapv (P : V -> bool) (f : V -> V) m : fcnt P (fmapv f m) = fcnt (fun v => P (f v)) m.
  Proof.
    induction m as [|[k v] r IH]; [reflexivity|]. cbn [fmapv map fst snd]. rewrite !fcnt_cons.
    fold (fmapv f r). rewrite IH. reflexivity.
  Qed.

  Lemma fcnt_ext (P Q : V -> bool) m : (forall v, P v = Q v) -> fcnt P m = fcnt Q m.
  Proof. intros H. induction m as [|[k v] r IH]; [reflexivity|]. rewrite !fcnt_cons, IH, H. reflexivity. Qed.

  Lemma fcnt_le (P Q : V -> bool) m : (forall v, P v = true -> Q v = true) -> fcnt P m <= fcnt Q m.
  Proof.
    intros H. induction m as [|[k v] r IH]; [reflexivity|]. rewrite !fcnt_cons.
    specialize (H v). destruct (P v), (Q v); cbn [b2z]; lia.
  Qed.

  Lemma fcnt_pos d (P : V -> bool) k m : P d = false -> P (fget d k m) = true -> 1 <= fcnt P m.
  Proof.
    intros Hd. induction m as [|[k' v] r IH]; cbn [fget]; [congruence|]. rewrite fcnt_cons.
    destruct (k =? k'); intros H; [rewrite H; cbn [b2z]; pose proof (fcnt_nonneg P r); lia|].
    specialize (IH H). destruct (P v); cbn [b2z]; lia.
  Qed.

  Lemma fcnt_zero d (P : V -> bool) m :
    NoDup (keys m) -> P d = false -> (forall k, P (fget d k m) = false) -> fcnt P m = 0.
  Proof.
    intros Hnd Hd H. induction m as [|[k v] r IH]; [reflexivity|]. rewrite fcnt_cons.
    inversion Hnd as [|a l Hni Hr]; subst.
    pose proof (H k) as Hk. cbn [fget] in Hk. rewrite Z.eqb_refl in Hk. rewrite Hk. cbn [b2z].
    rewrite IH; [reflexivity|exact Hr|]. intros k'. specialize (H k'). cbn [fget] in H.
    destruct (k' =? k) eqn:E; [|exact H]. apply Z.eqb_eq in E; subst. rewrite (fget_notin d k r Hni). exact Hd.
  Qed.
End FMapFacts.

(* lists of Z *)
Lemma mem_z_In x l : mem_z x l = true <-> In x l.
Proof.
  induction l as [|y r IH]; cbn [mem_z In]; [split; [discriminate|tauto]|].
  rewrite orb_true_iff, IH, Z.eqb_eq. split; intros [H|H]; auto.
Qed.

Lemma len_cons x l : len (x :: l) = len l + 1.
Proof. unfold len. cbn [length]. lia. Qed.

Lemma len_nonneg l : 0 <= len l.
Proof. unfold len. lia. Qed.

Lemma len_rem1 x l : In x l -> len (rem1 x l) = len l - 1.
Proof.
  induction l as [|y r IH]; cbn [rem1 In]; [tauto|]. intros H.
  destruct (x =? y) eqn:E; [rewrite len_cons; lia|]. rewrite !len_cons, IH; [lia|].
  destruct H as [H|H]; [subst; rewrite Z.eqb_refl in E; discriminate|exact H].
Qed.

Lemma In_rem1 x y l : In y (rem1 x l) -> In y l.
Proof.
  induction l as [|z r IH]; cbn [rem1]; [tauto|]. destruct (x =? z); cbn [In]; [tauto|].
  intros [H|H]; [left; exact H|right; exact (IH H)].
Qed.

Lemma In_rem1_other x y l : y <> x -> In y l -> In y (rem1 x l).
Proof.
  intros Hne. induction l as [|z r IH]; cbn [rem1 In]; [tauto|]. destruct (x =? z) eqn:E.
  - apply Z.eqb_eq in E; subst. intros [H|H]; [congruence|exact H].
  - cbn [In]. intros [H|H]; [left; exact H|right; exact (IH H)].
Qed.

Lemma NoDup_rem1 x l : NoDup l -> NoDup (rem1 x l).
Proof.
  induction l as [|z r IH]; cbn [rem1]; [trivial|]. intros H. inversion H as [|a b Hni Hr]; subst.
  destruct (x =? z); [exact Hr|]. constructor; [|exact (IH Hr)]. intros Hin. exact (Hni (In_rem1 _ _ _ Hin)).
Qed.

Lemma NoDup_rem1_notin x l : NoDup l -> ~ In x (rem1 x l).
Proof.
  induction l as [|z r IH]; cbn [rem1]; [tauto|]. intros H. inversion H as [|a b Hni Hr]; subst.
  destruct (x =? z) eqn:E; [apply Z.eqb_eq in E; subst; exact Hni|].
  cbn [In]. intros [H1|H1]; [subst; rewrite Z.eqb_refl in E; discriminate|exact (IH Hr H1)].
Qed.

Lemma NoDup_range_len (l : list Z) (n : Z) : 0 <= n -> NoDup l -> (forall e, In e l -> 0 <= e < n) -> len l <= n.
Proof.
  intros Hn Hnd Hr. unfold len.
  assert (Hincl : incl l (map Z.of_nat (seq 0 (Z.to_nat n)))).
  { intros e He. specialize (Hr e He). replace e with (Z.of_nat (Z.to_nat e)) by lia. apply in_map. apply in_seq. lia. }
  pose proof (NoDup_incl_length Hnd Hincl) as H. rewrite map_length, seq_length in H. lia.
Qed.

Ltac bnorm :=
  repeat match goal with
  | H : _ && _ = true |- _ => apply andb_true_iff in H; destruct H
  | H : negb _ = true |- _ => apply negb_true_iff in H
  | H : negb _ = false |- _ => apply negb_false_iff in H
  | H : (_ =? _) = true |- _ => apply Z.eqb_eq in H
  | H : (_ =? _) = false |- _ => apply Z.eqb_neq in H
  | H : (_ <? _) = true |- _ => apply Z.ltb_lt in H
  | H : (_ <? _) = false |- _ => apply Z.ltb_ge in H
  | H : (_ <=? _) = true |- _ => apply Z.leb_le in H
  | H : (_ <=? _) = false |- _ => apply Z.leb_gt in H
  | H : Bool.eqb _ _ = true |- _ => apply Bool.eqb_prop in H
  | H : mem_z _ _ = true |- _ => apply mem_z_In in H
  end.

Ltac step_split H :=
  repeat match type of H with
  | match ?x with _ => _ end = Some _ => destruct x eqn:?; try discriminate H
  | (if ?x then _ else _) = Some _ => destruct x eqn:?; try discriminate H
  end.
