(* Proofs about Model/OffsetsProv.v: the offsets file of a provider history is always the complete snapshot of the
   job table of that or an earlier moment; commits that must not count do not count; a restart restores exactly what
   the file holds. *)
From Verif Require Import Base.Sx Base.GoSem Model.OffsetsFmt Model.OffsetsSnap Model.OffsetsProv.
From Coq Require Import Lia.

(* ---- one step: the file stays, or becomes the snapshot of the table before / after the step ---------------- *)
Lemma pstep_file cfg st o :
  p_file (snd (pstep cfg st o)) = p_file st \/
  p_file (snd (pstep cfg st o)) = snap (p_jobs (snd (pstep cfg st o))) \/
  p_file (snd (pstep cfg st o)) = snap (p_jobs st).
Proof.
  destruct o as [fi kind seq s off| |fi pos seq|fi size|fi|fi remove|crash|fi t]; cbn [pstep].
  - destruct (find_job (p_jobs st) fi) as [j|]; [|left; reflexivity].
    destruct (negb (commits_kind kind) || (seq <=? pj_ign j)); [left; reflexivity|].
    destruct (off <=? sget (pj_offs j) s); [left; reflexivity|].
    destruct (pc_sync cfg); cbn; [right; left; reflexivity | left; reflexivity].
  - right; left; reflexivity.
  - destruct (find_job (p_jobs st) fi); left; reflexivity.
  - destruct (find_job (p_jobs st) fi); [|left; reflexivity].
    destruct (find_file (p_files st) fi) as [f|]; [|left; reflexivity].
    destruct (pf_disk f); left; reflexivity.
  - destruct (find_job (p_jobs st) fi) as [j|]; [|left; reflexivity].
    destruct (pj_done j); left; reflexivity.
  - set (st1 := match find_file (p_files st) fi with
                | Some f => if remove then set_files st (upd_file (p_files st) {| pf_id := pf_id f; pf_name := pf_name f; pf_size := pf_size f; pf_disk := false |}) else st
                | None => st
                end).
    assert (Hf : p_file st1 = p_file st).
    { unfold st1. destruct (find_file (p_files st) fi); [destruct remove|]; reflexivity. }
    destruct (find_job (p_jobs st1) fi) as [j|]; [|left; exact Hf].
    destruct (find_file (p_files st1) fi) as [f|]; [|left; exact Hf].
    destruct (negb (pj_done j)); [left; exact Hf|].
    destruct (negb (pf_size f =? pj_pos j)); [left; exact Hf|].
    destruct (pf_disk f); left; exact Hf.
  - destruct crash; cbn; [left; reflexivity | right; right; reflexivity].
  - destruct (find_job (p_jobs st) fi); left; reflexivity.
Qed.

Lemma pstates_head cfg st ops : exists r, pstates cfg st ops = st :: r.
Proof. destruct ops; cbn; eexists; reflexivity. Qed.

(* every state of a history: its file is the initial one, or the snapshot of the table of that or an earlier state *)
Lemma pstates_file cfg : forall ops st0 pre st post,
  pstates cfg st0 ops = pre ++ st :: post ->
  p_file st = p_file st0 \/ exists st', In st' (pre ++ [st]) /\ p_file st = snap (p_jobs st').
Proof.
  induction ops as [|o r IH]; intros st0 pre st post H.
  - cbn in H. destruct pre as [|x pre].
    + cbn in H. injection H as <- _. left; reflexivity.
    + cbn in H. injection H as _ H. destruct pre; discriminate.
  - cbn [pstates] in H. destruct pre as [|x pre].
    + cbn in H. injection H as <- _. left; reflexivity.
    + cbn in H. injection H as <- H.
      set (st1 := snd (pstep cfg st0 o)) in *.
      destruct (IH st1 pre st post H) as [E | [st' [Hin E]]].
      * destruct (pstep_file cfg st0 o) as [E0 | [E0 | E0]]; fold st1 in E0.
        -- left. congruence.
        -- right. exists st1. split; [|congruence].
           destruct (pstates_head cfg st1 r) as [t Ht]. rewrite Ht in H.
           destruct pre as [|y pre]; cbn in H |- *.
           ++ injection H as -> _. right; left; reflexivity.
           ++ injection H as -> _. right; left; reflexivity.
        -- right. exists st0. split; [left; reflexivity | congruence].
      * right. exists st'. split; [right; exact Hin | exact E].
Qed.

Lemma snap_start_empty cfg fs : snap (start_jobs cfg [] fs) = [].
Proof.
  unfold snap, start_jobs. induction (filter pf_disk fs) as [|f r IH]; [reflexivity|].
  cbn [map filter]. unfold start_job at 1. cbn [lookup_entry find].
  replace (pj_offs _) with (@nil (bytes * Z)) by (destruct (pc_op0 cfg =? 0); reflexivity).
  cbn [nonempty]. exact IH.
Qed.

(* the clause "a complete snapshot ... of the offsets that had been committed at some earlier moment (never later
   ones)" for the provider: in every state of every history the offsets file loads back to the snapshot of the job
   table of that state or of a state before it *)
Theorem prov_file_is_earlier_snapshot : forall cfg fs ops pre st post,
  pstates cfg (pinit cfg fs) ops = pre ++ st :: post ->
  exists st', In st' (pre ++ [st]) /\ p_file st = snap (p_jobs st').
Proof.
  intros cfg fs ops pre st post H.
  destruct (pstates_file cfg ops _ _ _ _ H) as [E | X]; [|exact X].
  exists (pinit cfg fs). split.
  - destruct (pstates_head cfg (pinit cfg fs) ops) as [t Ht]. rewrite Ht in H.
    destruct pre as [|y pre]; cbn in H |- *; injection H as -> _; left; reflexivity.
  - rewrite E. cbn. symmetry. apply snap_start_empty.
Qed.

(* the ghost history the executable predicate of which 10 ranges over is made of such snapshots *)
Lemma pstep_hist_inv cfg st0 o :
  In (p_file st0) (snap (p_jobs st0) :: p_hist st0) ->
  In (p_file (snd (pstep cfg st0 o))) (snap (p_jobs (snd (pstep cfg st0 o))) :: p_hist (snd (pstep cfg st0 o))).
Proof.
  intros H0.
  destruct o as [fi kind seq s off| |fi pos seq|fi size|fi|fi remove|crash|fi t]; cbn [pstep].
  - destruct (find_job (p_jobs st0) fi) as [j|]; [|exact H0].
    destruct (negb (commits_kind kind) || (seq <=? pj_ign j)); [exact H0|].
    destruct (off <=? sget (pj_offs j) s); [exact H0|].
    destruct (pc_sync cfg); cbn; [left; reflexivity|].
    right. exact H0.
  - cbn. left; reflexivity.
  - destruct (find_job (p_jobs st0) fi); [|exact H0]. cbn. right. exact H0.
  - destruct (find_job (p_jobs st0) fi); [|exact H0].
    destruct (find_file (p_files st0) fi) as [f|]; [|exact H0].
    destruct (pf_disk f); [|exact H0]. cbn. right. exact H0.
  - destruct (find_job (p_jobs st0) fi) as [j|]; [|exact H0].
    destruct (pj_done j); [exact H0|]. cbn. right. exact H0.
  - set (st1 := match find_file (p_files st0) fi with
                | Some f => if remove then set_files st0 (upd_file (p_files st0) {| pf_id := pf_id f; pf_name := pf_name f; pf_size := pf_size f; pf_disk := false |}) else st0
                | None => st0
                end).
    assert (H1 : In (p_file st1) (snap (p_jobs st1) :: p_hist st1)).
    { unfold st1. destruct (find_file (p_files st0) fi); [destruct remove|]; exact H0. }
    destruct (find_job (p_jobs st1) fi) as [j|]; [|exact H1].
    destruct (find_file (p_files st1) fi) as [f|]; [|exact H1].
    destruct (negb (pj_done j)); [exact H1|].
    destruct (negb (pf_size f =? pj_pos j)); [cbn; right; exact H1|].
    destruct (pf_disk f); [exact H1|]. cbn. right. exact H1.
  - destruct crash; cbn.
    + right. exact H0.
    + right. left. reflexivity.
  - destruct (find_job (p_jobs st0) fi); [|exact H0]. cbn. right. exact H0.
Qed.

Theorem prov_file_in_history : forall cfg fs ops,
  Forall (fun zs => In (p_file (snd zs)) (snap (p_jobs (snd zs)) :: p_hist (snd zs))) (prun cfg (pinit cfg fs) ops).
Proof.
  intros cfg fs ops.
  assert (H0 : In (p_file (pinit cfg fs)) (snap (p_jobs (pinit cfg fs)) :: p_hist (pinit cfg fs))).
  { left. cbn. apply snap_start_empty. }
  revert H0. generalize (pinit cfg fs). induction ops as [|o r IH]; intros st0 H0; cbn [prun]; constructor.
  - apply pstep_hist_inv. exact H0.
  - apply IH. apply pstep_hist_inv. exact H0.
Qed.

(* ---- commits that must not count -------------------------------------------------------------------------- *)
(* an event of a source the provider does not know, of a kind that is neither regular nor childParent, or numbered at
   or below the truncation mark changes nothing - not the table, not the file - whatever the persistence mode *)
Theorem prov_ignored_commit : forall cfg st fi kind seq s off,
  (find_job (p_jobs st) fi = None \/
   commits_kind kind = false \/
   exists j, find_job (p_jobs st) fi = Some j /\ seq <= pj_ign j) ->
  pstep cfg st (PCommit fi kind seq s off) = (0, st).
Proof.
  intros cfg st fi kind seq s off H. cbn [pstep].
  destruct H as [H | [H | [j [H Hs]]]].
  - rewrite H. reflexivity.
  - destruct (find_job (p_jobs st) fi); [|reflexivity]. rewrite H. reflexivity.
  - rewrite H. replace (seq <=? pj_ign j) with true by (symmetry; apply Z.leb_le; exact Hs).
    rewrite Bool.orb_true_r. reflexivity.
Qed.

(* a commit is stored only strictly above the stored offset; otherwise it panics and nothing changes *)
Theorem prov_commit_not_above : forall cfg st fi kind seq s off j,
  find_job (p_jobs st) fi = Some j -> commits_kind kind = true -> pj_ign j < seq -> off <= sget (pj_offs j) s ->
  pstep cfg st (PCommit fi kind seq s off) = (7, st).
Proof.
  intros cfg st fi kind seq s off j Hj Hk Hs Ho. cbn [pstep]. rewrite Hj, Hk.
  replace (seq <=? pj_ign j) with false by (symmetry; apply Z.leb_gt; exact Hs).
  replace (off <=? sget (pj_offs j) s) with true by (symmetry; apply Z.leb_le; exact Ho).
  reflexivity.
Qed.

(* ---- restart: the new provider's jobs hold exactly what the file holds -------------------------------------- *)
Lemma lookup_snap js : forall j,
  NoDup (map pj_id js) -> In j js -> nonempty (pj_offs j) = true ->
  lookup_entry (snap js) (pj_id j) = Some (job_entry j).
Proof.
  induction js as [|x r IH]; intros j Hnd Hin Hne; [destruct Hin|].
  cbn [map] in Hnd. inversion Hnd as [|? ? Hx Hr]; subst.
  unfold snap. cbn [filter]. destruct Hin as [-> | Hin].
  - rewrite Hne. cbn [map lookup_entry find job_entry esid]. rewrite N.eqb_refl. reflexivity.
  - destruct (nonempty (pj_offs x)) eqn:Ex.
    + cbn [map lookup_entry find]. cbn [job_entry esid].
      destruct (N.eqb (pj_id x) (pj_id j)) eqn:E.
      * apply N.eqb_eq in E. exfalso. apply Hx. rewrite E. apply in_map. exact Hin.
      * apply IH; assumption.
    + apply IH; assumption.
Qed.

Lemma lookup_snap_some js id e :
  lookup_entry (snap js) id = Some e -> exists j, In j js /\ pj_id j = id /\ e = job_entry j /\ nonempty (pj_offs j) = true.
Proof.
  unfold lookup_entry. intros H. apply find_some in H. destruct H as [Hin Hid].
  unfold snap in Hin. apply in_map_iff in Hin. destruct Hin as [j [<- Hj]].
  apply filter_In in Hj. destruct Hj as [Hj Hne].
  exists j. repeat split; try assumption. cbn in Hid. apply N.eqb_eq in Hid. exact Hid.
Qed.

(* a graceful restart with offsets_op = continue: every job that had offsets and whose file is still in the directory
   is back with exactly its offsets and its EOF time; and no job of the new provider holds anything but the offsets
   (and time) a job of the old one had - nothing is invented, nothing is moved *)
Theorem prov_restart_restores : forall cfg st,
  pc_op0 cfg = 0 -> NoDup (map pj_id (p_jobs st)) ->
  let st' := snd (pstep cfg st (PRestart false)) in
  (forall j f, In j (p_jobs st) -> nonempty (pj_offs j) = true ->
               In f (p_files st) -> pf_id f = pj_id j -> pf_disk f = true ->
               exists j', In j' (p_jobs st') /\ pj_id j' = pj_id j /\ pj_offs j' = pj_offs j /\ pj_ts j' = pj_ts j) /\
  (forall j', In j' (p_jobs st') ->
              pj_offs j' = [] \/
              exists j, In j (p_jobs st) /\ pj_id j = pj_id j' /\ pj_offs j' = pj_offs j /\ pj_ts j' = pj_ts j) /\
  p_file st' = snap (p_jobs st).
Proof.
  intros cfg st Hop Hnd st'. unfold st'. cbn [pstep snd do_save set_jobs p_jobs p_file p_files].
  split; [|split; [|reflexivity]].
  - intros j f Hj Hne Hf Hid Hd.
    exists (start_job cfg (snap (p_jobs st)) f). split.
    + unfold start_jobs. apply in_map. apply filter_In. split; assumption.
    + unfold start_job. rewrite Hop. cbn [Z.eqb]. rewrite Hid.
      rewrite (lookup_snap _ j Hnd Hj Hne). cbn. repeat split; reflexivity.
  - intros j' Hj'. unfold start_jobs in Hj'. apply in_map_iff in Hj'. destruct Hj' as [f [<- Hf]].
    unfold start_job. rewrite Hop. cbn [Z.eqb].
    destruct (lookup_entry (snap (p_jobs st)) (pf_id f)) as [e|] eqn:E.
    + right. destruct (lookup_snap_some _ _ _ E) as [j [Hj [Hid [-> _]]]].
      exists j. cbn. repeat split; try assumption; reflexivity.
    + left. reflexivity.
Qed.

(* with tail / reset nothing is loaded: every job starts without offsets *)
Theorem prov_restart_without_continue : forall cfg st crash,
  pc_op0 cfg <> 0 ->
  forall j', In j' (p_jobs (snd (pstep cfg st (PRestart crash)))) -> pj_offs j' = [].
Proof.
  intros cfg st crash Hop j' Hj'. cbn [pstep snd set_jobs p_jobs] in Hj'.
  unfold start_jobs in Hj'. apply in_map_iff in Hj'. destruct Hj' as [f [<- _]].
  unfold start_job. replace (pc_op0 cfg =? 0) with false by (symmetry; apply Z.eqb_neq; exact Hop). reflexivity.
Qed.
