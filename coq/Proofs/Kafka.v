(* Proofs for property C10 (packing and marks part). The packing functions are the generated
   definitions of Gen/KafkaGen.v: a change of a shift width, a factor, a mask or the `+ 1` in
   /repo/plugin/input/kafka/kafka.go changes those definitions and the proofs below stop checking.
   The bridge lemmas (closed forms, round trips) do NOT depend on the syntactic shape of the
   generated bodies: [go_norm] unfolds them (whatever lets / SSA names they use), turns every
   operator of Model/KafkaInt.v into div / mod / "mod 2^n" arithmetic over numerals, and
   [go_solve] closes the goal with Z.div_mod_to_equations + lia. So `x << 16`, `x * 65536`,
   `x * (1 << 16)`; `v & 0xFFFF`, `uint16(v)`; literals, named constants, extra locals, a struct built
   by field assignments ... all lead to the same arithmetic facts. *)
From Verif Require Import Base.Sx Base.GoSem Model.KafkaInt Gen.KafkaGen Model.Kafka.
From Coq Require Import Lia ZifyBool.

(* ---- Go integer operators in arithmetic form ---------------------------------------------- *)
Lemma shl_spec t a k : 0 <= k -> go_shl t a k = go_wrap t (a * 2 ^ k).
Proof. intros Hk. unfold go_shl. now rewrite Z.shiftl_mul_pow2. Qed.
Lemma shr_spec t a k : 0 <= k -> go_shr t a k = a / 2 ^ k.
Proof. intros Hk. unfold go_shr. now rewrite Z.shiftr_div_pow2. Qed.
Lemma mul_spec t a b : go_mul t a b = go_wrap t (a * b).
Proof. reflexivity. Qed.
(* x & (2^k - 1), mask on either side *)
Lemma and_mask_r t a m k : 0 <= k -> m = Z.ones k -> go_and t a m = a mod 2 ^ k.
Proof. intros Hk Hm. unfold go_and. subst m. now rewrite Z.land_ones. Qed.
Lemma and_mask_l t a m k : 0 <= k -> m = Z.ones k -> go_and t m a = a mod 2 ^ k.
Proof. intros Hk Hm. unfold go_and. subst m. now rewrite Z.land_comm, Z.land_ones. Qed.

(* every [go_and] with a literal mask of the form 2^k - 1 becomes [_ mod 2^k]; any other mask is
   left alone (and the arithmetic that follows does not know it) *)
Ltac norm_masks :=
  repeat match goal with
  | |- context [go_and ?t ?a (Zpos ?p)] =>
      let k := eval vm_compute in (Z.log2 (Zpos p + 1)) in
      rewrite (and_mask_r t a (Zpos p) k) by (first [lia | vm_compute; reflexivity])
  | |- context [go_and ?t (Zpos ?p) ?a] =>
      let k := eval vm_compute in (Z.log2 (Zpos p + 1)) in
      rewrite (and_mask_l t a (Zpos p) k) by (first [lia | vm_compute; reflexivity])
  end.

(* every closed power of two becomes a numeral, in the goal and in the hypotheses *)
Ltac pow2_eval :=
  repeat match goal with
  | |- context [2 ^ ?k] =>
      let v := eval vm_compute in (2 ^ k) in
      match v with Zpos _ => change (2 ^ k) with v in * end
  | Hyp : context [2 ^ ?k] |- _ =>
      let v := eval vm_compute in (2 ^ k) in
      match v with Zpos _ => change (2 ^ k) with v in * end
  end.

Ltac unfold_pack :=
  unfold disassemble_source_id, assemble_source_id, disassemble_offset, assemble_offset,
    gen_disassembleSourceID, gen_assembleSourceID, gen_disassembleOffset, gen_assembleOffset in *;
  cbv beta zeta in *; cbn [fst snd] in *.

Ltac go_arith :=
  unfold go_mul, go_add, go_sub, go_conv, go_wrap, go_fits, go_min, go_max in *;
  cbn [ity_bits ity_signed] in *;
  pow2_eval.

Ltac go_norm :=
  unfold_pack;
  rewrite ?shl_spec, ?shr_spec by lia;
  norm_masks;
  go_arith.

Ltac go_solve :=
  repeat match goal with
         | |- (_, _) = (_, _) => f_equal
         | |- _ /\ _ => split
         end;
  Z.div_mod_to_equations; lia.

(* ---- pack_roundtrip ----------------------------------------------------------------------- *)
Lemma source_id_roundtrip index partition :
  0 <= index < 2 ^ 48 -> 0 <= partition < 2 ^ 16 ->
  disassemble_source_id (assemble_source_id index partition) = (index, partition).
Proof. intros Hi Hp. go_norm. go_solve. Qed.

Lemma offset_roundtrip offset epoch :
  0 <= offset < 2 ^ 47 -> 0 <= epoch < 2 ^ 16 ->
  disassemble_offset (assemble_offset offset epoch) = (offset + 1, epoch).
Proof. intros Ho He. go_norm. go_solve. Qed.

(* closed forms, with Go's wrap-around explicit *)
Lemma assemble_source_id_closed index partition :
  go_fits I64 index = true -> go_fits I32 partition = true ->
  assemble_source_id index partition = (index * 2 ^ 16 + partition) mod 2 ^ 64.
Proof. intros Hi Hp. go_norm. go_solve. Qed.

Lemma assemble_offset_closed offset epoch :
  go_fits I64 offset = true -> go_fits I32 epoch = true ->
  assemble_offset offset epoch = (offset * 2 ^ 16 + epoch + 2 ^ 63) mod 2 ^ 64 - 2 ^ 63.
Proof. intros Ho He. go_norm. go_solve. Qed.

Lemma assemble_in_range index partition offset epoch :
  0 <= index < 2 ^ 48 -> 0 <= partition < 2 ^ 16 -> 0 <= offset < 2 ^ 47 -> 0 <= epoch < 2 ^ 16 ->
  assemble_source_id index partition = index * 2 ^ 16 + partition /\
  assemble_offset offset epoch = offset * 2 ^ 16 + epoch.
Proof. intros Hi Hp Ho He. go_norm. go_solve. Qed.

Lemma disassemble_source_id_closed sid :
  0 <= sid < 2 ^ 64 -> disassemble_source_id sid = (sid / 2 ^ 16, sid mod 2 ^ 16).
Proof. intros Hs. go_norm. go_solve. Qed.

Lemma disassemble_offset_closed o :
  - 2 ^ 63 <= o < 2 ^ 63 - 2 ^ 16 -> disassemble_offset o = (o / 2 ^ 16 + 1, o mod 2 ^ 16).
Proof. intros Ho. go_norm. go_solve. Qed.

(* outside the stated range: LeaderEpoch = -1 ("unknown", records of the old message formats) *)
Lemma epoch_unknown_marks_offset_itself offset :
  0 <= offset < 2 ^ 47 ->
  disassemble_offset (assemble_offset offset (-1)) = (offset, 65535).
Proof. intros Ho. go_norm. go_solve. Qed.

(* the data flow of Commit (gen_commit_target), on the event of an in-range record. First the
   structural route (Commit calls the two unpacking functions: their round trips rewrite), then,
   should Commit ever do the arithmetic itself, the arithmetic route. *)
Lemma commit_target_of_event index partition offset epoch :
  0 <= index < 2 ^ 48 -> 0 <= partition < 2 ^ 16 -> 0 <= offset < 2 ^ 47 -> 0 <= epoch < 2 ^ 16 ->
  gen_commit_target (assemble_source_id index partition) (assemble_offset offset epoch) =
  (index, partition, (offset + 1, epoch)).
Proof.
  intros Hi Hp Ho He.
  pose proof (source_id_roundtrip index partition Hi Hp) as R1.
  pose proof (offset_roundtrip offset epoch Ho He) as R2.
  unfold disassemble_source_id in R1. unfold disassemble_offset in R2.
  unfold gen_commit_target. cbv beta zeta.
  first [ rewrite ?R1, ?R2; cbn [fst snd]; reflexivity
        | clear R1 R2; go_norm; go_solve ].
Qed.

(* ---- pack_injective ----------------------------------------------------------------------- *)
Lemma source_id_injective i1 p1 i2 p2 :
  0 <= i1 < 2 ^ 48 -> 0 <= p1 < 2 ^ 16 -> 0 <= i2 < 2 ^ 48 -> 0 <= p2 < 2 ^ 16 ->
  assemble_source_id i1 p1 = assemble_source_id i2 p2 -> i1 = i2 /\ p1 = p2.
Proof.
  intros Hi1 Hp1 Hi2 Hp2 E.
  pose proof (source_id_roundtrip i1 p1 Hi1 Hp1) as R1.
  pose proof (source_id_roundtrip i2 p2 Hi2 Hp2) as R2.
  rewrite E, R2 in R1. injection R1 as H1 H2. split; congruence.
Qed.

Lemma offset_injective o1 e1 o2 e2 :
  0 <= o1 < 2 ^ 47 -> 0 <= e1 < 2 ^ 16 -> 0 <= o2 < 2 ^ 47 -> 0 <= e2 < 2 ^ 16 ->
  assemble_offset o1 e1 = assemble_offset o2 e2 -> o1 = o2 /\ e1 = e2.
Proof.
  intros Ho1 He1 Ho2 He2 E.
  pose proof (offset_roundtrip o1 e1 Ho1 He1) as R1.
  pose proof (offset_roundtrip o2 e2 Ho2 He2) as R2.
  rewrite E, R2 in R1. injection R1 as H1 H2. split; lia.
Qed.

(* ---- keys, lookup, update ----------------------------------------------------------------- *)
Lemma N_eqb_list_eq a b : N_eqb_list a b = true <-> a = b.
Proof.
  revert b. induction a as [|x a IH]; intros [|y b]; cbn; split; intros H; try easy.
  - apply andb_true_iff in H as [Hx Hr]. apply N.eqb_eq in Hx. apply IH in Hr. now subst.
  - inversion H; subst. apply andb_true_iff. split; [apply N.eqb_refl | now apply IH].
Qed.

Lemma key_eqb_eq a b : key_eqb a b = true <-> a = b.
Proof.
  destruct a as [n p], b as [n' p']. unfold key_eqb; cbn [fst snd]. split; intros H.
  - apply andb_true_iff in H as [Hn Hp]. apply N_eqb_list_eq in Hn. apply Z.eqb_eq in Hp. now subst.
  - inversion H; subst. apply andb_true_iff. split; [now apply N_eqb_list_eq | apply Z.eqb_refl].
Qed.

Lemma key_eqb_refl a : key_eqb a a = true.
Proof. now apply key_eqb_eq. Qed.

Lemma key_eqb_neq a b : key_eqb a b = false <-> a <> b.
Proof.
  split; intros H.
  - intros E. apply key_eqb_eq in E. congruence.
  - destruct (key_eqb a b) eqn:E; [apply key_eqb_eq in E; contradiction | reflexivity].
Qed.

Definition merge_head (cur : option eo) (h : eo) : eo :=
  match cur with None => h | Some c => if eo_less c h then h else c end.

Lemma lookup_update m k h k' :
  lookup (mark_update m k h) k' =
  if key_eqb k k' then Some (merge_head (lookup m k) h) else lookup m k'.
Proof.
  induction m as [|[k0 c] m IH]; cbn [mark_update lookup].
  - destruct (key_eqb k k'); reflexivity.
  - destruct (key_eqb k0 k) eqn:E0.
    + apply key_eqb_eq in E0; subst k0. cbn [lookup].
      destruct (key_eqb k k'); reflexivity.
    + cbn [lookup]. rewrite IH.
      destruct (key_eqb k0 k') eqn:E1; [|reflexivity].
      apply key_eqb_eq in E1; subst k0.
      apply key_eqb_neq in E0.
      destruct (key_eqb k k') eqn:E2; [apply key_eqb_eq in E2; congruence | reflexivity].
Qed.

Lemma in_mark_update m k h k1 h1 :
  In (k1, h1) (mark_update m k h) -> In (k1, h1) m \/ (k1 = k /\ h1 = h).
Proof.
  induction m as [|[k0 c] m IH]; cbn [mark_update].
  - intros [E|[]]. inversion E. now right.
  - destruct (key_eqb k0 k) eqn:E0.
    + apply key_eqb_eq in E0; subst k0. intros [E|H].
      * inversion E; subst. destruct (eo_less c h); [now right | left; now left].
      * left; now right.
    + intros [E|H]; [left; now left|]. destruct (IH H) as [H1|H1]; [left; now right | now right].
Qed.

Lemma lookup_In m k h : lookup m k = Some h -> In (k, h) m.
Proof.
  induction m as [|[k0 c] m IH]; cbn [lookup]; [discriminate|].
  destruct (key_eqb k0 k) eqn:E.
  - apply key_eqb_eq in E; subst. intros H; inversion H; now left.
  - intros H; right; now apply IH.
Qed.

(* ---- kgo's order on EpochOffset ----------------------------------------------------------- *)
Lemma eo_less_irrefl a : eo_less a a = false.
Proof. unfold eo_less. lia. Qed.
Lemma eo_less_asym a b : eo_less a b = true -> eo_less b a = false.
Proof. unfold eo_less. lia. Qed.
Lemma eo_less_trans a b c : eo_less a b = true -> eo_less b c = true -> eo_less a c = true.
Proof. unfold eo_less. lia. Qed.
(* negated comparisons chain with <= *)
Lemma eo_not_less_trans a b c : eo_less b a = false -> eo_less c b = false -> eo_less c a = false.
Proof. unfold eo_less. lia. Qed.

Definition eo_le (a b : eo) : Prop := b = a \/ eo_less a b = true.
Lemma eo_le_refl a : eo_le a a. Proof. now left. Qed.
Lemma eo_le_trans a b c : eo_le a b -> eo_le b c -> eo_le a c.
Proof.
  intros [E1|L1] [E2|L2]; subst; try (now left); try (now right).
  right. eapply eo_less_trans; eassumption.
Qed.
Lemma eo_le_not_less a b : eo_le a b -> eo_less b a = false.
Proof. intros [E|L]; [subst; apply eo_less_irrefl | now apply eo_less_asym]. Qed.

Lemma merge_head_ge cur h : match cur with Some c => eo_le c (merge_head cur h) | None => True end.
Proof.
  destruct cur as [c|]; [|exact I]. cbn. destruct (eo_less c h) eqn:E; [now right | now left].
Qed.
Lemma merge_head_covers cur h : eo_less (merge_head cur h) h = false.
Proof.
  destruct cur as [c|]; cbn; [|apply eo_less_irrefl].
  destruct (eo_less c h) eqn:E; [apply eo_less_irrefl|].
  (* not (c < h): then not (c < h) is what is asked *) exact E.
Qed.

(* ---- mark_monotone: one Commit, and any run of Commits ------------------------------------ *)
Lemma update_monotone m k new k0 h :
  lookup m k0 = Some h ->
  exists h', lookup (mark_update m k new) k0 = Some h' /\ eo_le h h'.
Proof.
  intros L. rewrite lookup_update. destruct (key_eqb k k0) eqn:E.
  - apply key_eqb_eq in E; subst k0. rewrite L. eexists; split; [reflexivity|].
    exact (merge_head_ge (Some h) new).
  - exists h; split; [assumption | apply eo_le_refl].
Qed.

Lemma commit_is_update topics m ev m' :
  commit topics m ev = Ok m' -> exists k h, m' = mark_update m k h.
Proof.
  unfold commit. destruct (gen_commit_target (fst ev) (snd ev)) as [[index partition] h].
  destruct (idx topics index) as [name| |]; cbn [bind]; intros H; inversion H. eauto.
Qed.

Lemma commit_monotone topics m ev m' k h :
  commit topics m ev = Ok m' -> lookup m k = Some h ->
  exists h', lookup m' k = Some h' /\ eo_le h h'.
Proof.
  intros C L. destruct (commit_is_update _ _ _ _ C) as (k1 & h1 & ->). now apply update_monotone.
Qed.

Lemma commit_all_monotone topics evs : forall m m' k h,
  commit_all topics m evs = Ok m' -> lookup m k = Some h ->
  exists h', lookup m' k = Some h' /\ eo_le h h'.
Proof.
  induction evs as [|ev evs IH]; cbn [commit_all]; intros m m' k h C L.
  - inversion C; subst. exists h; split; [assumption | apply eo_le_refl].
  - destruct (commit topics m ev) as [m1| |] eqn:C1; cbn [bind] in C; try discriminate.
    destruct (commit_monotone _ _ _ _ _ _ C1 L) as (h1 & L1 & Le1).
    destruct (IH _ _ _ _ C L1) as (h2 & L2 & Le2).
    exists h2; split; [assumption | eapply eo_le_trans; eassumption].
Qed.

(* ---- Start's idByTopic and the consumer's event ------------------------------------------- *)
Lemma N_eqb_list_refl a : N_eqb_list a a = true.
Proof. now apply N_eqb_list_eq. Qed.

Lemma last_index_some_in topics name : forall i j, last_index topics name i = Some j -> In name topics.
Proof.
  induction topics as [|t r IH]; intros i j E; cbn [last_index] in E; [discriminate|].
  destruct (last_index r name (i + 1)) as [j'|] eqn:E'.
  - right. eapply IH. exact E'.
  - destruct (N_eqb_list t name) eqn:Et; [|discriminate]. apply N_eqb_list_eq in Et. now left.
Qed.

Lemma last_index_spec topics name : forall i,
  In name topics ->
  exists j, last_index topics name i = Some j /\ i <= j < i + len topics /\
            nth_error topics (Z.to_nat (j - i)) = Some name.
Proof.
  induction topics as [|t r IH]; intros i HIn; [contradiction|].
  cbn [last_index]. unfold len in *. cbn [length]. rewrite Nat2Z.inj_succ.
  destruct (last_index r name (i + 1)) as [j|] eqn:E.
  - assert (Hr : In name r) by (eapply last_index_some_in; eassumption).
    destruct (IH (i + 1) Hr) as (j' & E' & Hj & Hn). rewrite E in E'. inversion E'; subst j'.
    exists j. split; [reflexivity|]. split; [lia|].
    replace (Z.to_nat (j - i)) with (S (Z.to_nat (j - (i + 1)))) by lia. exact Hn.
  - destruct HIn as [->|H].
    + rewrite N_eqb_list_refl. exists i. split; [reflexivity|]. split; [lia|].
      replace (i - i) with 0 by lia. reflexivity.
    + destruct (IH (i + 1) H) as (j' & E' & _). congruence.
Qed.

Lemma idx_id_by_topic topics name :
  In name topics -> idx topics (id_by_topic topics name) = Ok name /\ 0 <= id_by_topic topics name < len topics.
Proof.
  intros H. destruct (last_index_spec topics name 0 H) as (j & E & Hj & Hn).
  unfold id_by_topic. rewrite E. unfold idx.
  replace (j - 0) with j in Hn by lia.
  assert (Hb : (0 <=? j) && (j <? len topics) = true) by lia.
  rewrite Hb, Hn. split; [reflexivity | lia].
Qed.

Definition rec_in_range (topics : list bytes) (r : krec) : Prop :=
  In (k_topic r) topics /\ 0 <= k_part r < 2 ^ 16 /\ 0 <= k_off r < 2 ^ 47 /\ 0 <= k_epoch r < 2 ^ 16.

Lemma rec_in_range_b_spec topics r : rec_in_range_b topics r = true <-> rec_in_range topics r.
Proof.
  unfold rec_in_range_b, rec_in_range. rewrite !andb_true_iff.
  assert (Hex : existsb (fun t => N_eqb_list t (k_topic r)) topics = true <-> In (k_topic r) topics).
  { rewrite existsb_exists. split.
    - intros (t & Hin & Heq). apply N_eqb_list_eq in Heq. now subst.
    - intros Hin. exists (k_topic r). split; [assumption | apply N_eqb_list_refl]. }
  rewrite Hex. rewrite !Z.leb_le, !Z.ltb_lt. tauto.
Qed.

Definition key_of (r : krec) : key := (k_topic r, k_part r).
Definition head_of (r : krec) : eo := (k_off r + 1, k_epoch r).

(* Commit of the event of an in-range record marks (offset + 1, epoch) for the record's own
   topic name and partition, and does not panic *)
Lemma commit_of_record topics m r :
  len topics <= 2 ^ 48 -> rec_in_range topics r ->
  commit topics m (event_of topics r) = Ok (mark_update m (key_of r) (head_of r)).
Proof.
  intros Hlen (Ht & Hp & Ho & He).
  destruct (idx_id_by_topic topics (k_topic r) Ht) as (Hidx & Hid).
  unfold commit, event_of. cbn [fst snd].
  rewrite commit_target_of_event by lia.
  rewrite Hidx. reflexivity.
Qed.

Definition marks_of (rs : list krec) (m : marks) : marks :=
  fold_left (fun m r => mark_update m (key_of r) (head_of r)) rs m.

Lemma commit_records_spec topics : forall rs m,
  len topics <= 2 ^ 48 -> Forall (rec_in_range topics) rs ->
  commit_records topics m rs = Ok (marks_of rs m).
Proof.
  unfold commit_records. induction rs as [|r rs IH]; intros m Hlen HF; [reflexivity|].
  inversion HF as [|? ? Hr HF']; subst. cbn [map commit_all marks_of fold_left].
  rewrite commit_of_record by assumption. cbn [bind]. now apply IH.
Qed.

(* ---- every mark is (offset + 1, epoch) of a committed record of that topic and partition --- *)
Definition from_records (rs : list krec) (m : marks) : Prop :=
  forall k h, In (k, h) m -> exists r, In r rs /\ key_of r = k /\ h = head_of r.

Lemma from_records_update rs m r :
  from_records rs m -> In r rs -> from_records rs (mark_update m (key_of r) (head_of r)).
Proof.
  intros F Hr k h Hin. destruct (in_mark_update _ _ _ _ _ Hin) as [H|[-> ->]]; [now apply F|].
  exists r. auto.
Qed.

Lemma from_records_marks_of all : forall rs m,
  incl rs all -> from_records all m -> from_records all (marks_of rs m).
Proof.
  induction rs as [|r rs IH]; intros m Hincl F; [exact F|].
  cbn [marks_of fold_left]. apply IH.
  - intros x Hx. apply Hincl. now right.
  - apply from_records_update; [assumption | apply Hincl; now left].
Qed.

Theorem mark_at_most_one_past_consumed topics rs :
  len topics <= 2 ^ 48 -> Forall (rec_in_range topics) rs ->
  exists m, commit_records topics [] rs = Ok m /\
    forall name p o e, lookup m (name, p) = Some (o, e) ->
      (exists r, In r rs /\ k_topic r = name /\ k_part r = p /\ o = k_off r + 1 /\ e = k_epoch r) /\
      (forall B, (forall r, In r rs -> k_topic r = name -> k_part r = p -> k_off r <= B) -> o <= B + 1).
Proof.
  intros Hlen HF. exists (marks_of rs []). split; [now apply commit_records_spec|].
  intros name p o e L.
  assert (F : from_records rs (marks_of rs [])).
  { apply from_records_marks_of; [apply incl_refl | intros k h []]. }
  destruct (F _ _ (lookup_In _ _ _ L)) as (r & Hr & Hk & Hh).
  unfold key_of in Hk. unfold head_of in Hh. inversion Hk; inversion Hh; subst.
  split.
  - exists r. auto.
  - intros B HB. specialize (HB r Hr eq_refl eq_refl). lia.
Qed.

(* ---- with epochs that follow the offsets (as in any Kafka log) the mark is exactly 1 + max -- *)
Definition epochs_follow_offsets (rs : list krec) : Prop :=
  forall r1 r2, In r1 rs -> In r2 rs -> key_of r1 = key_of r2 ->
                k_off r1 <= k_off r2 -> k_epoch r1 <= k_epoch r2.

Definition covers (m : marks) (r : krec) : Prop :=
  exists h, lookup m (key_of r) = Some h /\ eo_less h (head_of r) = false.

Lemma covers_update_self m r : covers (mark_update m (key_of r) (head_of r)) r.
Proof.
  unfold covers. rewrite lookup_update, key_eqb_refl. eexists; split; [reflexivity|].
  apply merge_head_covers.
Qed.

Lemma covers_update_other m r r0 : covers m r -> covers (mark_update m (key_of r0) (head_of r0)) r.
Proof.
  intros (h & L & NL). destruct (update_monotone m (key_of r0) (head_of r0) _ _ L) as (h' & L' & Le).
  exists h'. split; [assumption|].
  eapply eo_not_less_trans; [exact NL | now apply eo_le_not_less].
Qed.

Lemma covers_marks_of : forall rs m r,
  (covers m r \/ In r rs) -> covers (marks_of rs m) r.
Proof.
  induction rs as [|r0 rs IH]; intros m r H; cbn [marks_of fold_left].
  - destruct H as [H|[]]. exact H.
  - apply IH. destruct H as [H|[->|H]].
    + left. now apply covers_update_other.
    + left. apply covers_update_self.
    + now right.
Qed.

Theorem mark_is_one_past_max topics rs :
  len topics <= 2 ^ 48 -> Forall (rec_in_range topics) rs -> epochs_follow_offsets rs ->
  exists m, commit_records topics [] rs = Ok m /\
    forall r, In r rs ->
      exists o e, lookup m (key_of r) = Some (o, e) /\ k_off r + 1 <= o /\
        exists r', In r' rs /\ key_of r' = key_of r /\ o = k_off r' + 1 /\ e = k_epoch r'.
Proof.
  intros Hlen HF HE. exists (marks_of rs []). split; [now apply commit_records_spec|].
  intros r Hr.
  destruct (covers_marks_of rs [] r (or_intror Hr)) as ([o e] & L & NL).
  exists o, e. split; [assumption|].
  assert (F : from_records rs (marks_of rs [])).
  { apply from_records_marks_of; [apply incl_refl | intros k h []]. }
  destruct (F _ _ (lookup_In _ _ _ L)) as (r' & Hr' & Hk & Hh).
  unfold head_of in Hh. inversion Hh; subst o e.
  rewrite Forall_forall in HF.
  destruct (HF r Hr) as (_ & _ & _ & He). destruct (HF r' Hr') as (_ & _ & _ & He').
  split.
  - destruct (Z_le_gt_dec (k_off r) (k_off r')) as [Hle|Hgt]; [lia|].
    (* r' lies before r in the log, so its epoch is not larger; then kgo's order compares offsets *)
    assert (Hep : k_epoch r' <= k_epoch r) by (apply (HE r' r); auto; lia).
    unfold eo_less, head_of in NL. cbn [fst snd] in NL. lia.
  - exists r'. auto.
Qed.

(* ---- the executable predicate of the harness holds of every trace of the model ------------ *)
Lemma pick_map {A B} (f : A -> B) (l : list A) : forall ks,
  pick (map f l) ks = option_map (map f) (pick l ks).
Proof.
  induction ks as [|k ks IH]; [reflexivity|]. cbn [pick]. rewrite IH.
  destruct (0 <=? k); [|reflexivity].
  rewrite nth_error_map. destruct (nth_error l (Z.to_nat k)); cbn; [|reflexivity].
  destruct (pick l ks); reflexivity.
Qed.

Lemma pick_incl {A} (l : list A) : forall ks cs, pick l ks = Some cs -> incl cs l /\ length cs = length ks.
Proof.
  induction ks as [|k ks IH]; intros cs H; cbn [pick] in H.
  - inversion H. split; [intros x [] | reflexivity].
  - destruct (0 <=? k); [|discriminate].
    destruct (nth_error l (Z.to_nat k)) as [x|] eqn:En; [|discriminate].
    destruct (pick l ks) as [xs|]; [|discriminate]. inversion H; subst.
    destruct (IH xs eq_refl) as (Hi & Hl). split.
    + intros y [<-|Hy]; [eapply nth_error_In; eassumption | now apply Hi].
    + cbn. now rewrite Hl.
Qed.

Lemma head_of_some_record_true rs k h :
  (exists r, In r rs /\ key_of r = k /\ h = head_of r) -> head_of_some_record rs (k, h) = true.
Proof.
  intros (r & Hr & Hk & Hh). unfold head_of_some_record. apply existsb_exists.
  exists r. split; [assumption|]. cbn [fst snd]. subst. unfold head_of. cbn [fst snd].
  fold (key_of r). rewrite key_eqb_refl. lia.
Qed.

Lemma from_records_forallb rs m : from_records rs m -> forallb (head_of_some_record rs) m = true.
Proof.
  intros F. apply forallb_forall. intros [k h] Hin. apply head_of_some_record_true. now apply F.
Qed.

Lemma step_monotone_ok prev k new :
  forallb (fun x : key * eo =>
             match lookup prev (fst x), lookup (mark_update prev k new) (fst x) with
             | Some hp, Some h => negb (eo_less h hp)
             | None, _ => true
             | Some _, None => false
             end) prev = true.
Proof.
  apply forallb_forall. intros [k0 h0] _. cbn [fst].
  destruct (lookup prev k0) as [hp|] eqn:L; [|reflexivity].
  destruct (update_monotone prev k new _ _ L) as (h' & L' & Le). rewrite L'.
  now rewrite (eo_le_not_less _ _ Le).
Qed.

Lemma commit_trace_pred topics all : forall cs m,
  len topics <= 2 ^ 48 -> Forall (rec_in_range topics) cs -> incl cs all -> from_records all m ->
  exists tr, commit_trace topics m (map (event_of topics) cs) = (tr, 0) /\
             length tr = length cs /\
             forallb (forallb (head_of_some_record all)) tr = true /\
             steps_monotone m tr = true.
Proof.
  induction cs as [|r cs IH]; intros m Hlen HF Hincl F.
  - exists []. cbn. auto.
  - inversion HF as [|? ? Hr HF']; subst. cbn [map commit_trace].
    rewrite commit_of_record by assumption.
    set (m1 := mark_update m (key_of r) (head_of r)).
    assert (F1 : from_records all m1).
    { apply from_records_update; [assumption | apply Hincl; now left]. }
    destruct (IH m1 Hlen HF' (fun x Hx => Hincl x (or_intror Hx)) F1) as (tr & E & Hl & Hh & Hm).
    rewrite E. exists (m1 :: tr). split; [reflexivity|]. split; [cbn; now rewrite Hl|].
    split.
    + cbn [forallb]. rewrite Hh, (from_records_forallb _ _ F1). reflexivity.
    + cbn [steps_monotone]. rewrite Hm. unfold m1. now rewrite step_monotone_ok.
Qed.

Theorem model_trace_satisfies_pred topics rs ks calls :
  len topics <= 2 ^ 48 -> Forall (rec_in_range topics) rs ->
  pick (map (event_of topics) rs) ks = Some calls ->
  exists tr, commit_trace topics [] calls = (tr, 0) /\ length tr = length ks /\
             marks_pred topics rs tr = true.
Proof.
  intros Hlen HF Hp. rewrite pick_map in Hp.
  destruct (pick rs ks) as [cs|] eqn:Ec; [|discriminate]. cbn in Hp. inversion Hp; subst calls.
  destruct (pick_incl _ _ _ Ec) as (Hincl & Hlen').
  assert (HFc : Forall (rec_in_range topics) cs).
  { rewrite Forall_forall in *. intros x Hx. apply HF. now apply Hincl. }
  destruct (commit_trace_pred topics rs cs [] Hlen HFc Hincl (fun k h H => match H with end))
    as (tr & E & Hl & Hh & Hm).
  exists tr. split; [assumption|]. split; [congruence|].
  unfold marks_pred.
  assert (Hb : forallb (rec_in_range_b topics) rs = true).
  { apply forallb_forall. intros x Hx. apply rec_in_range_b_spec. rewrite Forall_forall in HF. now apply HF. }
  rewrite Hb, Hh, Hm. reflexivity.
Qed.

(* ---- the statements as Properties/C10.v quotes them --------------------------------------- *)
Theorem pack_roundtrip index partition offset epoch :
  0 <= index < 2 ^ 48 -> 0 <= partition < 2 ^ 16 -> 0 <= offset < 2 ^ 47 -> 0 <= epoch < 2 ^ 16 ->
  disassemble_source_id (assemble_source_id index partition) = (index, partition) /\
  disassemble_offset (assemble_offset offset epoch) = (offset + 1, epoch) /\
  assemble_source_id index partition = (index * 2 ^ 16 + partition) mod 2 ^ 64 /\
  assemble_offset offset epoch = offset * 2 ^ 16 + epoch.
Proof.
  intros Hi Hp Ho He.
  split; [now apply source_id_roundtrip|]. split; [now apply offset_roundtrip|].
  destruct (assemble_in_range index partition offset epoch Hi Hp Ho He) as (E1 & E2).
  split; [|exact E2]. rewrite E1. symmetry. apply Z.mod_small.
  change (2 ^ 64) with 18446744073709551616. change (2 ^ 16) with 65536 in *.
  change (2 ^ 48) with 281474976710656 in *. lia.
Qed.

Theorem pack_wraps index partition offset epoch :
  go_fits I64 index = true -> go_fits I32 partition = true ->
  go_fits I64 offset = true -> go_fits I32 epoch = true ->
  assemble_source_id index partition = (index * 2 ^ 16 + partition) mod 2 ^ 64 /\
  assemble_offset offset epoch = (offset * 2 ^ 16 + epoch + 2 ^ 63) mod 2 ^ 64 - 2 ^ 63.
Proof.
  intros. split; [now apply assemble_source_id_closed | now apply assemble_offset_closed].
Qed.

Theorem pack_injective i1 p1 o1 e1 i2 p2 o2 e2 :
  0 <= i1 < 2 ^ 48 -> 0 <= p1 < 2 ^ 16 -> 0 <= o1 < 2 ^ 47 -> 0 <= e1 < 2 ^ 16 ->
  0 <= i2 < 2 ^ 48 -> 0 <= p2 < 2 ^ 16 -> 0 <= o2 < 2 ^ 47 -> 0 <= e2 < 2 ^ 16 ->
  (assemble_source_id i1 p1 = assemble_source_id i2 p2 -> i1 = i2 /\ p1 = p2) /\
  (assemble_offset o1 e1 = assemble_offset o2 e2 -> o1 = o2 /\ e1 = e2).
Proof.
  intros. split; [now apply source_id_injective | now apply offset_injective].
Qed.

Theorem mark_monotone topics evs m m' k h :
  commit_all topics m evs = Ok m' -> lookup m k = Some h ->
  exists h', lookup m' k = Some h' /\ (h' = h \/ eo_less h h' = true) /\ eo_less h' h = false.
Proof.
  intros C L. destruct (commit_all_monotone _ _ _ _ _ _ C L) as (h' & L' & Le).
  exists h'. split; [assumption|]. split; [exact Le | now apply eo_le_not_less].
Qed.

Theorem kgo_order_strict :
  (forall a, eo_less a a = false) /\
  (forall a b c, eo_less a b = true -> eo_less b c = true -> eo_less a c = true).
Proof. split; [exact eo_less_irrefl | exact eo_less_trans]. Qed.

(* ---- the topic index <-> topic name resolution over the configured list ---------------------- *)
(* the position Start keeps for a name is the LAST one that holds it *)
Lemma last_index_is_last topics name : forall i j k,
  last_index topics name i = Some j -> nth_error topics k = Some name -> i + Z.of_nat k <= j.
Proof.
  induction topics as [|t r IH]; intros i j k E Hn; [destruct k; discriminate|].
  cbn [last_index] in E.
  destruct (last_index r name (i + 1)) as [j'|] eqn:E'.
  - inversion E; subst j'. destruct k as [|k].
    + assert (Hr : In name r) by (eapply last_index_some_in; eassumption).
      destruct (last_index_spec r name (i + 1) Hr) as (j2 & E2 & Hj2 & _). rewrite E' in E2. inversion E2; subst. lia.
    + cbn [nth_error] in Hn. specialize (IH (i + 1) j k E' Hn). lia.
  - destruct k as [|k].
    + destruct (N_eqb_list t name); [|discriminate]. inversion E; subst. lia.
    + cbn [nth_error] in Hn. assert (Hr : In name r) by (eapply nth_error_In; eassumption).
      destruct (last_index_spec r name (i + 1) Hr) as (j2 & E2 & _). congruence.
Qed.

Lemma topic_of_index_In topics i name : topic_of_index topics i = Ok name -> In name topics.
Proof.
  unfold topic_of_index, idx. destruct ((0 <=? i) && (i <? len topics)); [|discriminate].
  destruct (nth_error topics (Z.to_nat i)) as [x|] eqn:En; [|discriminate].
  intros H. inversion H; subst. eapply nth_error_In; eassumption.
Qed.

(* Round trip, for EVERY list (repeats, any order, names that are prefixes of one another): the index Start keeps
   for a configured name is inside the list, Commit's Topics[index] reads that very name back (no panic), and the
   index is the last position that holds the name. Conversely a position of the list resolves to a configured name,
   whose index resolves to the same name again. *)
Theorem topic_resolution_roundtrip topics :
  (forall name, In name topics ->
     topic_of_index topics (index_of_topic topics name) = Ok name /\
     0 <= index_of_topic topics name < len topics /\
     (forall j, topic_of_index topics j = Ok name -> j <= index_of_topic topics name)) /\
  (forall i name, topic_of_index topics i = Ok name ->
     In name topics /\ topic_of_index topics (index_of_topic topics name) = Ok name) /\
  topics_resolve_b topics = true.
Proof.
  assert (H1 : forall name, In name topics ->
     topic_of_index topics (index_of_topic topics name) = Ok name /\
     0 <= index_of_topic topics name < len topics /\
     (forall j, topic_of_index topics j = Ok name -> j <= index_of_topic topics name)).
  { intros name Hin. unfold topic_of_index, index_of_topic.
    destruct (idx_id_by_topic topics name Hin) as (Hidx & Hr). split; [assumption|]. split; [assumption|].
    intros j Hj. unfold idx in Hj.
    destruct ((0 <=? j) && (j <? len topics)) eqn:Hb; [|discriminate].
    destruct (nth_error topics (Z.to_nat j)) as [x|] eqn:En; [|discriminate]. inversion Hj; subst x.
    destruct (last_index_spec topics name 0 Hin) as (j0 & E0 & _).
    unfold id_by_topic. rewrite E0.
    pose proof (last_index_is_last topics name 0 j0 (Z.to_nat j) E0 En). lia. }
  split; [exact H1|]. split.
  - intros i name Hi. pose proof (topic_of_index_In _ _ _ Hi) as Hin. split; [assumption|]. now apply H1.
  - unfold topics_resolve_b. apply forallb_forall. intros t Ht.
    destruct (H1 t Ht) as (E & _). rewrite E. apply N_eqb_list_refl.
Qed.

(* A list that is NOT the configured one breaks the round trip: the in-place compaction of [a; a; b] (drop the
   repeat, keep the slice) leaves [a; b; b] behind; the index Start took from the configured list then names b. *)
Lemma topic_resolution_needs_the_same_list :
  let a := [97]%N in let b := [98]%N in
  topic_of_index [a; b; b] (index_of_topic [a; a; b] a) = Ok b.
Proof. reflexivity. Qed.

(* ---- a mark exists only for an acknowledged record of that very topic and partition ----------- *)
Lemma from_records_incl rs rs' m : incl rs rs' -> from_records rs m -> from_records rs' m.
Proof. intros Hi F k h Hin. destruct (F k h Hin) as (r' & Hr' & H). exists r'. split; [now apply Hi | exact H]. Qed.

Lemma incl_rev_append {A} (l acc : list A) : incl acc (rev_append l acc).
Proof. intros x Hx. rewrite rev_append_rev. apply in_or_app. now right. Qed.

(* From any heads m that belong to records acknowledged earlier, the Commit calls for the in-range records cs, in
   that order: no call panics and after the i-th call every head belongs to a record acknowledged by then, under
   that record's own topic name and partition *)
Lemma commit_trace_acked topics : forall cs acked m,
  len topics <= 2 ^ 48 -> Forall (rec_in_range topics) cs -> from_records acked m ->
  exists tr, commit_trace topics m (map (event_of topics) cs) = (tr, 0) /\
             length tr = length cs /\
             acks_pred (snaps_of acked cs) tr = true /\
             Forall (from_records (rev_append cs acked)) tr.
Proof.
  induction cs as [|r cs IH]; intros acked m Hlen HF F.
  - exists []. cbn. auto.
  - inversion HF as [|? ? Hr HF']; subst. cbn [map commit_trace].
    rewrite commit_of_record by assumption.
    set (m1 := mark_update m (key_of r) (head_of r)).
    assert (F1 : from_records (r :: acked) m1).
    { apply from_records_update; [eapply from_records_incl; [|exact F]; intros x Hx; now right | now left]. }
    destruct (IH (r :: acked) m1 Hlen HF' F1) as (tr & E & Hl & Hp & Hall).
    rewrite E. exists (m1 :: tr). split; [reflexivity|]. split; [cbn; now rewrite Hl|]. split.
    + cbn [snaps_of acks_pred]. rewrite Hp, (from_records_forallb _ _ F1). reflexivity.
    + cbn [rev_append]. constructor; [|exact Hall].
      eapply from_records_incl; [apply incl_rev_append | exact F1].
Qed.

(* the executable predicate of the sub-models (acked_marks_pred) holds of every trace of the model: for every
   topics list and every choice ks of Commit calls among the consumed in-range records rs — any order, repeats,
   any subset — no Commit panics and after each call every head is (offset + 1, epoch) of a record acknowledged
   BY THEN, under that record's own topic and partition *)
Theorem model_trace_marks_only_acked topics rs ks cs :
  len topics <= 2 ^ 48 -> Forall (rec_in_range topics) rs ->
  pick rs ks = Some cs ->
  exists tr, commit_trace topics [] (map (event_of topics) cs) = (tr, 0) /\ length tr = length ks /\
             acks_pred (snaps_of [] cs) tr = true /\
             acked_marks_pred topics rs ks tr = true /\
             forall m k h, In m tr -> In (k, h) m -> exists r, In r cs /\ key_of r = k /\ h = head_of r.
Proof.
  intros Hlen HF Hp.
  destruct (pick_incl _ _ _ Hp) as (Hincl & Hlen').
  assert (HFc : Forall (rec_in_range topics) cs).
  { rewrite Forall_forall in *. intros x Hx. apply HF. now apply Hincl. }
  destruct (commit_trace_acked topics cs [] [] Hlen HFc (fun k h H => match H with end))
    as (tr & E & Hl & Ha & Hall).
  exists tr. split; [assumption|]. split; [congruence|]. split; [assumption|]. split.
  - unfold acked_marks_pred.
    assert (Hb : forallb (rec_in_range_b topics) rs = true).
    { apply forallb_forall. intros x Hx. apply rec_in_range_b_spec. rewrite Forall_forall in HF. now apply HF. }
    now rewrite Hb, Hp.
  - intros m k h Hm Hin. rewrite Forall_forall in Hall.
    destruct (Hall m Hm k h Hin) as (r & Hr & H). exists r. split; [|exact H].
    rewrite rev_append_rev, app_nil_r in Hr. now apply in_rev.
Qed.
