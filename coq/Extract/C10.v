From Verif Require Import Base.Sx Model.Kafka.
From Coq Require Import Extraction ExtrOcamlBasic.
Definition run := c10_entry.
Extraction "model.ml" run.
