From Verif Require Import Base.Sx Model.C10Entry.
From Coq Require Import Extraction ExtrOcamlBasic.
Definition run := c10_full_entry.
Extraction "model.ml" run.
