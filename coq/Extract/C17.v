From Verif Require Import Base.Sx Model.Mask.
From Coq Require Import Extraction ExtrOcamlBasic.
Definition run := c17_entry.
Extraction "model.ml" run.
