From Verif Require Import Base.Sx Model.OffsetsEntry.
From Coq Require Import Extraction ExtrOcamlBasic.
Definition run := c07_entry.
Extraction "model.ml" run.
