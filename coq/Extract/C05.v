From Verif Require Import Base.Sx Model.PipeEntry.
From Coq Require Import Extraction ExtrOcamlBasic.
Definition run := c05_pipe_entry.
Extraction "model.ml" run.
