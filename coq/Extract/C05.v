From Verif Require Import Base.Sx Model.C05Full.
From Coq Require Import Extraction ExtrOcamlBasic.
Definition run := c05_full_entry.
Extraction "model.ml" run.
