From Verif Require Import Base.Sx Model.Fields.
From Coq Require Import Extraction ExtrOcamlBasic.
Definition run := c18_entry.
Extraction "model.ml" run.
