(* TEMPORARY (builder's): the coordinator replaces this file with the assembly of c13_entry *)
From Verif Require Import Base.Sx Model.Actions.Entry.
From Coq Require Import Extraction ExtrOcamlBasic.
Definition run := c13_actions_entry.
Extraction "model.ml" run.
