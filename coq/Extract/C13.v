From Verif Require Import Base.Sx Model.C13Full.
From Coq Require Import Extraction ExtrOcamlBasic.
Definition run := c13_full_entry.
Extraction "model.ml" run.
