From Verif Require Import Base.Sx Model.Antispam.
From Coq Require Import Extraction ExtrOcamlBasic.
Definition run := c20_entry.
Extraction "model.ml" run.
