From Verif Require Import Base.Sx Model.Throttle.
From Coq Require Import Extraction ExtrOcamlBasic.
Definition run := c16_entry.
Extraction "model.ml" run.
