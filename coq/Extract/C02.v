From Verif Require Import Base.Sx Model.PipeEntry.
From Coq Require Import Extraction ExtrOcamlBasic.
Definition run := c02_entry.
Extraction "model.ml" run.
