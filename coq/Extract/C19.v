From Verif Require Import Base.Sx Model.Payload.
From Coq Require Import Extraction ExtrOcamlBasic.
Definition run := c19_entry.
Extraction "model.ml" run.
