From Verif Require Import Base.Sx Model.PoolGlue.
From Coq Require Import Extraction ExtrOcamlBasic.
Definition run := pool_entry.
Extraction "model.ml" run.
