From Verif Require Import Base.Sx Model.BatcherEntry.
From Coq Require Import Extraction ExtrOcamlBasic.
Definition run := c09_entry.
Extraction "model.ml" run.
