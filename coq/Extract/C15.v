From Verif Require Import Base.Sx Model.C15Full.
From Coq Require Import Extraction ExtrOcamlBasic.
Definition run := c15_full_entry.
Extraction "model.ml" run.
