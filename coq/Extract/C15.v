From Verif Require Import Base.Sx Model.C15Entry.
From Coq Require Import Extraction ExtrOcamlBasic.
Definition run := c15_entry.
Extraction "model.ml" run.
