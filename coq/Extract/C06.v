From Verif Require Import Base.Sx Model.Worker.
From Coq Require Import Extraction ExtrOcamlBasic.
Definition run := c06_entry.
Extraction "model.ml" run.
