From Verif Require Import Base.Sx Model.DoIf Model.MatchFields.
From Coq Require Import Extraction ExtrOcamlBasic.
Definition run := c14_entry.
Extraction "model.ml" run.
