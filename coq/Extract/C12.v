From Verif Require Import Base.Sx Model.Decoders.Entry.
From Coq Require Import Extraction ExtrOcamlBasic.
Definition run := c12_entry.
Extraction "model.ml" run.
