From Verif Require Import Base.Sx Model.Http.
From Coq Require Import Extraction ExtrOcamlBasic.
Definition run := c11_entry.
Extraction "model.ml" run.
