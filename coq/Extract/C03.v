From Verif Require Import Base.Sx Model.FileResume.
From Coq Require Import Extraction ExtrOcamlBasic.
Definition run := c03_entry.
Extraction "model.ml" run.
