From Verif Require Import Base.Sx Model.C04Full.
From Coq Require Import Extraction ExtrOcamlBasic.
Definition run := c04_full_entry.
Extraction "model.ml" run.
