(* GENERATED from /repo/pipeline/event.go by harness/gen (translator "pool") — do not edit.
   The comparisons and heartbeat conditions of the two event pools, as written in the source. *)
From Coq Require Import ZArith Bool.
Local Open Scope Z_scope.
(* lowMemoryEventPool.get: `if inUse <op> p.capacity` with r = the result of inUseEvents.Inc() *)
Definition pool_lm_fits (r cap : Z) : bool := (r <=? cap).
(* lowMemoryEventPool.eventsAvailable *)
Definition pool_lm_avail (inuse cap : Z) : bool := (inuse <? cap).
(* eventPool.wakeupWaiters: `eventsAvailable := ...` *)
Definition pool_std_avail (inuse cap : Z) : bool := (inuse <? cap).
(* the `if` that guards the heartbeat's Broadcast; w = `waiters > 0`, a = `eventsAvailable` *)
Definition pool_lm_tick_cond (w a : bool) : bool := (w && a).
Definition pool_std_tick_cond (w a : bool) : bool := (w && a).
(* wakeupWaiters is `for { if p.stopped.Load() { return }; time.Sleep(p.wakeupInterval); ... }` and the stop guard is the
   only way out of the loop: the heartbeat, once started, ticks until the pool is stopped *)
Definition pool_lm_hb_forever : bool := true.
Definition pool_std_hb_forever : bool := true.
(* get() runs `p.runHeartbeatOnce.Do(func() { go p.wakeupWaiters() })` on every path to getCond.Wait() *)
Definition pool_lm_hb_starts : bool := true.
Definition pool_std_hb_starts : bool := true.
