(* GENERATED from /repo/plugin/input/file/offset.go (offsetDB.save) and /repo/offset/offset.go
   (Offset.Save, saveToTmp inlined) by harness/gen (translator "saveproto") — do not edit.
   One entry per file-system call in execution order; None = an error of this call is logged/ignored and
   execution continues, Some cl = the function returns after the calls cl.
   temp file: string(tmpWithRandom) -> o.curOffsetsFile   |   o.getTmpPath() -> o.path *)
From Verif Require Import Base.Sx Model.FsCrash.

Definition filed_save_protocol : protocol :=
  [(OpOpen, Some []) (* offset.go:244 *);
   (OpWrite, Some [OpRemove; OpClose]) (* offset.go:292 *);
   (OpSync, Some [OpRemove; OpClose]) (* offset.go:299 *);
   (OpRename, None) (* offset.go:306 *);
   (OpClose, None) (* function end (deferred) *)].

Definition generic_save_protocol : protocol :=
  [(OpOpen, Some []) (* offset.go:43 *);
   (OpWrite, Some [OpClose]) (* offset.go:50 *);
   (OpSync, Some [OpClose]) (* offset.go:54 *);
   (OpClose, None) (* offset.go:54 (deferred) *);
   (OpRename, Some []) (* offset.go:61 *)].

(* offsetDB.save keeps o.mu (which guards the shared o.buf / o.jobsSnapshot) from before it builds the buffer
   until after the rename: Lock stmt 1, defer Unlock stmt 2, Unlock stmt -1, first use of o.buf/snapshotJobs stmt 3, Rename stmt 16, 1 Lock / 1 Unlock calls *)
Definition save_holds_mu_until_rename : bool := true.
