(* provisional, overwritten by the translator *)
From Verif Require Import Base.Sx Model.FsCrash.
Definition filed_save_protocol : protocol :=
  [(OpOpen, Some []); (OpWrite, Some [OpRemove; OpClose]); (OpSync, Some [OpRemove; OpClose]); (OpRename, None); (OpClose, None)].
Definition generic_save_protocol : protocol :=
  [(OpOpen, Some []); (OpWrite, Some [OpClose]); (OpSync, Some [OpClose]); (OpClose, None); (OpRename, Some [])].
