(* GENERATED from /repo/pipeline/batch.go by harness/gen (translator "batcher") — do not edit.
   send into fullBatches before the sealing path's mu.Unlock(): true;  Stop closes fullBatches under mu: true *)
Definition batcher_atomic_push : bool := true.
