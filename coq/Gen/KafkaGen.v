(* GENERATED from /repo/plugin/input/kafka/{kafka.go,client.go} by harness/gen (translator "kafka") — do not edit.
   Bodies of the packing functions in the integer operators of Model/KafkaInt.v; Go int = I64.
   Every assignment of a Go variable has its own name (x, x_1, x_2 ...). *)
From Coq Require Import ZArith.
From Verif Require Import Model.KafkaInt.
Open Scope Z_scope.

Definition gen_assembleSourceID (index partition : Z) : Z :=
  (go_conv U64 (go_add I64 (go_shl I64 index 16) (go_conv I64 partition))).

Definition gen_disassembleSourceID (sourceID : Z) : Z * Z :=
  let index := 0 in
  let partition := 0 in
  let index_1 := (go_conv I64 (go_shr U64 sourceID 16)) in
  let partition_1 := (go_conv I32 (go_and U64 sourceID 65535)) in
  (index_1, partition_1).

Definition gen_assembleOffset (message_Offset message_LeaderEpoch : Z) : Z :=
  (go_add I64 (go_shl I64 message_Offset 16) (go_conv I64 message_LeaderEpoch)).

Definition gen_disassembleOffset (assembledOffset : Z) : Z * Z :=
  let offset := (go_shr I64 assembledOffset 16) in
  let epoch := (go_conv I32 (go_and I64 assembledOffset 65535)) in
  ((go_add I64 offset 1), epoch).

(* Plugin.Commit, executed symbolically (helpers inlined): MarkCommitOffsets({ Topics[i]: { partition: EpochOffset } }).
   Result: (topic index i, partition key, (Offset, Epoch) to mark) *)
Definition gen_commit_target (event_SourceID event_Offset : Z) : Z * Z * (Z * Z) :=
  let disassembleSourceID_res := (gen_disassembleSourceID event_SourceID) in
  let index := (fst disassembleSourceID_res) in
  let partition := (snd disassembleSourceID_res) in
  let disassembleOffset_res := (gen_disassembleOffset event_Offset) in
  let offset_Offset := (fst disassembleOffset_res) in
  let offset_Epoch := (snd disassembleOffset_res) in
  (index, partition, (offset_Offset, offset_Epoch)).

(* NewClient passes kgo.AutoCommitMarks() (and not kgo.DisableAutoCommit()) *)
Definition gen_autocommit_marks : bool := true.

(* Start calls controller.UseSpread() and controller.DisableStreams() *)
Definition gen_use_spread : bool := true.
